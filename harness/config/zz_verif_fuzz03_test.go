package config

// Native (coverage-guided) fuzz target for C03 on arbitrary TOML bytes (thorough tier only; the saved crasher file is
// the replay unit: ./check C03 --replay <file>).

import (
	"bytes"
	"errors"
	"fmt"
	"net/netip"
	"os"
	"regexp"
	"testing"

	"github.com/mdlayher/corerad/internal/plugin"
	"github.com/mdlayher/corerad/internal/system"
	"github.com/mdlayher/corerad/internal/verifkit"
)

// c03LDH is the statement's domain for DNS names: well-formed LDH names without punycode labels.
var c03LDH = regexp.MustCompile(`^[a-z0-9]([a-z0-9-]{0,61}[a-z0-9])?(\.[a-z0-9]([a-z0-9-]{0,61}[a-z0-9])?)*$`)

// c03InDomain reports whether an accepted configuration lies in the domain the statement of C03 quantifies over
// (well-formed DNS names, element counts within one option's 8-bit length).
func c03InDomain(c *Config) bool {
	for _, ifi := range c.Interfaces {
		for _, p := range ifi.Plugins {
			switch p := p.(type) {
			case *plugin.DNSSL:
				total := 0
				for _, n := range p.DomainNames {
					if !c03LDH.MatchString(n) || len(n) > 253 || bytes.Contains([]byte(n), []byte("xn--")) {
						return false
					}
					total += len(n) + 2
				}
				if total > 2000 {
					return false
				}
			case *plugin.RDNSS:
				if len(p.Servers) > 120 {
					return false
				}
			}
		}
	}
	return true
}

// FuzzVerif_C03: coverage-guided search over TOML bytes for an accepted configuration whose RA does not encode, or
// changes meaning on the wire (the same round-trip oracle as the generated cases; a fixed system state with addresses
// of every class and two loopback routes so that wildcards expand).
func FuzzVerif_C03(f *testing.F) {
	f.Add([]byte(fmt.Sprintf(Minimal, "verif")))
	if b, err := os.ReadFile("reference.toml"); err == nil {
		f.Add(b)
	}
	for _, s := range c02Corpus {
		f.Add([]byte(s))
	}
	for _, s := range []string{
		"[[interfaces]]\nname = \"e\"\nadvertise = true\nmax_interval = \"4.5s\"\n[[interfaces.prefix]]\nprefix = \"::/64\"\nvalid_lifetime = \"1193046h28m15s\"\npreferred_lifetime = \"65535.5s\"\n",
		"[[interfaces]]\nname = \"e\"\nadvertise = true\nreachable_time = \"1h\"\nretransmit_timer = \"1.0005s\"\ndefault_lifetime = \"9000s\"\n[[interfaces.pref64]]\nprefix = \"64:ff9b::/40\"\n",
		"[[interfaces]]\nname = \"e\"\nadvertise = true\ncaptive_portal = \"https://p.example/ ä\"\n[[interfaces.route]]\nprefix = \"::/0\"\nlifetime = \"infinite\"\n[[interfaces.rdnss]]\nlifetime = \"0s\"\nservers = [\"::\"]\n[[interfaces.dnssl]]\nlifetime = \"auto\"\ndomain_names = [\"lan\"]\n",
		"[[interfaces]]\nname = \"e\"\nadvertise = true\n[[interfaces.prefix]]\nprefix = \"2001:db8::/64\"\ndeprecated = true\nvalid_lifetime = \"10s\"\npreferred_lifetime = \"5s\"\n",
	} {
		f.Add([]byte(s))
	}
	st := sysState{Fwd: true, MAC: []byte{2, 0, 0, 0, 0, 1}, NowNS: 1500000000,
		Addrs: []system.IP{
			{Address: netip.MustParsePrefix("2001:db8:a:1::1/64"), ValidForever: true},
			{Address: netip.MustParsePrefix("fd00:a:0:1:200:ff:fe00:1/64")},
			{Address: netip.MustParsePrefix("fe80::1/64")},
			{Address: netip.MustParsePrefix("192.0.2.1/24")}},
		Routes: []system.Route{{Prefix: netip.MustParsePrefix("2001:db8:a::/48"), Index: 1}, {Prefix: netip.MustParsePrefix("fd00:a::/32"), Index: 1}}}
	f.Fuzz(func(t *testing.T, data []byte) {
		if bytes.Contains(data, []byte("address")) {
			return
		}
		c, err := Parse(bytes.NewReader(data), c02Epoch)
		if err != nil || !c03InDomain(c) {
			return
		}
		_, _, err = c03CheckCfg(c, st, string(data))
		var v *verifkit.Violation
		if errors.As(err, &v) && v.Sig == "C03/seconds-rounded-up-within-1us-of-next-second" {
			return // the recorded finding F16 (codec of the ndp dependency): excluded so that the search continues
		}
		if err != nil {
			t.Fatal(err)
		}
	})
}

package config

// Validity predicate over the output of Parse (the "only if" half of C02).

import (
	"fmt"
	"net/netip"
	"time"

	"github.com/mdlayher/corerad/internal/plugin"
	"github.com/mdlayher/ndp"
)

// c02Accepted is the "only if" half of C02 as a validity predicate over the
// OUTPUT of Parse: whatever the input bytes were, an accepted configuration
// satisfies every documented range. It needs no model of the input, so it
// applies to arbitrary byte strings (native fuzzing, byte mutations) where
// the structured oracle of c02Prop cannot. Float rounding of the two derived
// bounds (0.75*max, 0.33*max) is given one second of tolerance.
func c02Accepted(c *Config) error {
	if c == nil {
		return fmt.Errorf("nil configuration without error")
	}
	if len(c.Interfaces) == 0 {
		return fmt.Errorf("accepted with no interfaces")
	}
	names := map[string]bool{}
	for i, ifi := range c.Interfaces {
		if names[ifi.Name] {
			return fmt.Errorf("interface %d: duplicate name %q", i, ifi.Name)
		}
		names[ifi.Name] = true
		if ifi.Monitor && ifi.Advertise {
			return fmt.Errorf("interface %d: monitor and advertise", i)
		}
		if ifi.Monitor {
			if ifi.MinInterval != 0 || ifi.MaxInterval != 0 || ifi.Managed || ifi.OtherConfig || ifi.ReachableTime != 0 ||
				ifi.RetransmitTimer != 0 || ifi.HopLimit != 0 || ifi.DefaultLifetime != 0 || ifi.UnicastOnly || ifi.Preference != 0 || len(ifi.Plugins) != 0 {
				return fmt.Errorf("interface %d: monitor interface carries advertising settings: %+v", i, ifi)
			}
			continue
		}
		max, min := ifi.MaxInterval, ifi.MinInterval
		if max < 4*time.Second || max > 1800*time.Second {
			return fmt.Errorf("interface %d: max_interval %v", i, max)
		}
		explicit := min >= 3*time.Second && min <= (3*max/4).Truncate(time.Second)+time.Second
		auto := min == max && max < 9*time.Second
		if d := min - (33 * max / 100).Truncate(time.Second); max >= 9*time.Second && d >= -time.Second && d <= time.Second {
			auto = true
		}
		if !explicit && !auto {
			return fmt.Errorf("interface %d: min_interval %v with max_interval %v", i, min, max)
		}
		if ifi.ReachableTime < 0 || ifi.ReachableTime > time.Hour {
			return fmt.Errorf("interface %d: reachable_time %v", i, ifi.ReachableTime)
		}
		if ifi.RetransmitTimer < 0 || ifi.RetransmitTimer > time.Hour {
			return fmt.Errorf("interface %d: retransmit_timer %v", i, ifi.RetransmitTimer)
		}
		if l := ifi.DefaultLifetime; l != 0 && (l < max || l > 9000*time.Second) {
			return fmt.Errorf("interface %d: default_lifetime %v with max_interval %v", i, l, max)
		}
		if p := ifi.Preference; p != ndp.Low && p != ndp.Medium && p != ndp.High {
			return fmt.Errorf("interface %d: preference %v", i, p)
		}
		var prefixes, routes []netip.Prefix
		var nLLA, nMTU int
		for j, pl := range ifi.Plugins {
			bad := func(f string, a ...any) error {
				return fmt.Errorf("interface %d plugin %d (%T): %s", i, j, pl, fmt.Sprintf(f, a...))
			}
			cidr := func(p netip.Prefix) error {
				if !p.IsValid() || !p.Addr().Is6() || p.Addr().Is4In6() || p != p.Masked() {
					return bad("%v is not a canonical IPv6 CIDR", p)
				}
				return nil
			}
			life := func(what string, d time.Duration, zeroOK bool) error {
				if d < 0 || d > ndp.Infinity || (d == 0 && !zeroOK) {
					return bad("%s %v", what, d)
				}
				return nil
			}
			switch p := pl.(type) {
			case *plugin.Prefix:
				if err := cidr(p.Prefix); err != nil {
					return err
				}
				if p.Prefix.Bits() == 128 {
					return bad("/128 prefix")
				}
				if p.Prefix.Addr().IsUnspecified() && p.Prefix.Bits() != 64 {
					return bad("wildcard %v", p.Prefix)
				}
				if p.Auto != (p.Prefix.Addr().IsUnspecified() && p.Prefix.Bits() == 64) {
					return bad("auto=%v for %v", p.Auto, p.Prefix)
				}
				if err := life("valid_lifetime", p.ValidLifetime, false); err != nil {
					return err
				}
				if err := life("preferred_lifetime", p.PreferredLifetime, false); err != nil {
					return err
				}
				if p.PreferredLifetime > p.ValidLifetime {
					return bad("preferred %v > valid %v", p.PreferredLifetime, p.ValidLifetime)
				}
				if p.Deprecated && (p.ValidLifetime == ndp.Infinity || p.PreferredLifetime == ndp.Infinity) {
					return bad("deprecated and infinite")
				}
				if !p.Epoch.Equal(c02Epoch) {
					return bad("epoch %v", p.Epoch)
				}
				prefixes = append(prefixes, p.Prefix)
			case *plugin.Route:
				if err := cidr(p.Prefix); err != nil {
					return err
				}
				if p.Prefix.Addr().IsUnspecified() && p.Prefix.Bits() != 0 {
					return bad("wildcard %v", p.Prefix)
				}
				if p.Auto != (p.Prefix.Bits() == 0) {
					return bad("auto=%v for %v", p.Auto, p.Prefix)
				}
				if err := life("lifetime", p.Lifetime, false); err != nil {
					return err
				}
				if p.Deprecated && p.Lifetime == ndp.Infinity {
					return bad("deprecated and infinite")
				}
				if q := p.Preference; q != ndp.Low && q != ndp.Medium && q != ndp.High {
					return bad("preference %v", q)
				}
				routes = append(routes, p.Prefix)
			case *plugin.RDNSS:
				if err := life("lifetime", p.Lifetime, true); err != nil {
					return err
				}
				seen := map[netip.Addr]bool{}
				for _, s := range p.Servers {
					if !s.Is6() || s.Is4In6() || seen[s] {
						return bad("servers %v", p.Servers)
					}
					seen[s] = true
				}
				// the :: wildcard is carried by Auto, never as a server
				if seen[netip.IPv6Unspecified()] || (!p.Auto && len(p.Servers) == 0) {
					return bad("auto=%v with servers %v", p.Auto, p.Servers)
				}
			case *plugin.DNSSL:
				if err := life("lifetime", p.Lifetime, true); err != nil {
					return err
				}
				seen := map[string]bool{}
				for _, d := range p.DomainNames {
					if d == "" || seen[d] {
						return bad("domain_names %q", p.DomainNames)
					}
					seen[d] = true
				}
			case *plugin.MTU:
				nMTU++
				if *p <= 0 || *p > 65536 {
					return bad("mtu %d", int(*p))
				}
			case *plugin.LLA:
				nLLA++
			case *plugin.CaptivePortal:
			case *plugin.PREF64:
				if err := cidr(p.Inner.Prefix.Masked()); err != nil {
					return err
				}
				switch p.Inner.Prefix.Bits() {
				case 32, 40, 48, 56, 64, 96:
				default:
					return bad("pref64 length %d", p.Inner.Prefix.Bits())
				}
			default:
				return bad("unknown plugin type")
			}
		}
		if nLLA > 1 || nMTU > 1 {
			return fmt.Errorf("interface %d: %d LLA and %d MTU options", i, nLLA, nMTU)
		}
		for _, set := range [][]netip.Prefix{prefixes, routes} {
			for a := range set {
				for b := a + 1; b < len(set); b++ {
					// the ::/0 route wildcard stands for the kernel's routes, not for "everything"
					if set[a].Bits() == 0 || set[b].Bits() == 0 {
						continue
					}
					if set[a].Overlaps(set[b]) {
						return fmt.Errorf("interface %d: %v overlaps %v", i, set[a], set[b])
					}
				}
			}
		}
	}
	return nil
}

package config

// C03: an accepted configuration always yields a wire-encodable,
// meaning-preserving RA. The domain is whatever Parse accepts (the reference
// validator is not consulted); the oracle is the encode/decode round trip up
// to truncation to the field's unit, plus the range of every duration.

import (
	"encoding/json"
	"fmt"
	"net/netip"
	"slices"
	"strings"
	"testing"
	"time"

	"github.com/mdlayher/corerad/internal/system"
	"github.com/mdlayher/corerad/internal/verifkit"
	"github.com/mdlayher/ndp"
	"pgregory.net/rapid"
)

type c03Case struct {
	Doc   dDoc     `json:"doc"`
	State sysState `json:"state"`
}

const (
	c03MaxU16s  = 65535 * time.Second
	c03MaxU32s  = time.Duration(0xffffffff) * time.Second
	c03MaxU32ms = time.Duration(0xffffffff) * time.Millisecond
	c03MaxP64   = 8191 * 8 * time.Second
)

func c03Range(what string, d, max time.Duration) error {
	if d < 0 {
		return verifkit.Violf("C03/negative-duration", "%s is negative: %v", what, d)
	}
	if d > max {
		return verifkit.Violf("C03/duration-exceeds-field", "%s = %v exceeds the field's range (%v)", what, d, max)
	}
	return nil
}

// c03Truncate returns a copy of ra as it must read after a wire round trip.
func c03Truncate(ra *ndp.RouterAdvertisement) (*ndp.RouterAdvertisement, bool, error) {
	return c03TruncateMode(ra, false)
}

// c03TruncateMode with float=true reproduces the one deviation that is
// recorded as a known finding (F16): package ndp converts seconds through
// float64, so a duration less than 1 microsecond below a whole second rounds
// up instead of truncating once the value needs more than ~2^22 seconds.
func c03TruncateMode(ra *ndp.RouterAdvertisement, float bool) (*ndp.RouterAdvertisement, bool, error) {
	out := *ra
	fractional := false
	tr := func(d *time.Duration, unit time.Duration) {
		if *d%unit != 0 {
			fractional = true
		}
		if float && unit == time.Second && *d%unit > unit-time.Microsecond && *d < c03MaxU32s {
			// the codec's conversion; it only deviates when float64 cannot hold the fraction
			if f := time.Duration(uint32(d.Seconds())) * time.Second; f == d.Truncate(unit)+unit {
				*d = f
				return
			}
		}
		*d = d.Truncate(unit)
	}
	if err := c03Range("router lifetime", out.RouterLifetime, c03MaxU16s); err != nil {
		return nil, false, err
	}
	if err := c03Range("reachable time", out.ReachableTime, c03MaxU32ms); err != nil {
		return nil, false, err
	}
	if err := c03Range("retransmit timer", out.RetransmitTimer, c03MaxU32ms); err != nil {
		return nil, false, err
	}
	tr(&out.RouterLifetime, time.Second)
	tr(&out.ReachableTime, time.Millisecond)
	tr(&out.RetransmitTimer, time.Millisecond)
	out.Options = nil
	for i, o := range ra.Options {
		switch o := o.(type) {
		case *ndp.PrefixInformation:
			c := *o
			if err := c03Range(fmt.Sprintf("option %d prefix valid lifetime", i), c.ValidLifetime, c03MaxU32s); err != nil {
				return nil, false, err
			}
			if err := c03Range(fmt.Sprintf("option %d prefix preferred lifetime", i), c.PreferredLifetime, c03MaxU32s); err != nil {
				return nil, false, err
			}
			tr(&c.ValidLifetime, time.Second)
			tr(&c.PreferredLifetime, time.Second)
			out.Options = append(out.Options, &c)
		case *ndp.RouteInformation:
			c := *o
			if err := c03Range(fmt.Sprintf("option %d route lifetime", i), c.RouteLifetime, c03MaxU32s); err != nil {
				return nil, false, err
			}
			tr(&c.RouteLifetime, time.Second)
			out.Options = append(out.Options, &c)
		case *ndp.RecursiveDNSServer:
			c := *o
			if err := c03Range(fmt.Sprintf("option %d RDNSS lifetime", i), c.Lifetime, c03MaxU32s); err != nil {
				return nil, false, err
			}
			tr(&c.Lifetime, time.Second)
			out.Options = append(out.Options, &c)
		case *ndp.DNSSearchList:
			c := *o
			if err := c03Range(fmt.Sprintf("option %d DNSSL lifetime", i), c.Lifetime, c03MaxU32s); err != nil {
				return nil, false, err
			}
			tr(&c.Lifetime, time.Second)
			out.Options = append(out.Options, &c)
		case *ndp.PREF64:
			c := *o
			if err := c03Range(fmt.Sprintf("option %d PREF64 lifetime", i), c.Lifetime, c03MaxP64); err != nil {
				return nil, false, err
			}
			if c.Lifetime%(8*time.Second) != 0 {
				return nil, false, verifkit.Violf("C03/pref64-lifetime-not-multiple-of-8s", "option %d PREF64 lifetime %v", i, c.Lifetime)
			}
			if !c.Prefix.Addr().Is6() || c.Prefix.Addr().Is4In6() {
				return nil, false, verifkit.Violf("C03/pref64-not-ipv6", "option %d PREF64 prefix %v is not IPv6", i, c.Prefix)
			}
			c.Prefix = c.Prefix.Masked() // host bits are not carried by the option (unspecified, DESIGN 5.2)
			out.Options = append(out.Options, &c)
		default:
			out.Options = append(out.Options, o)
		}
	}
	return &out, fractional, nil
}

func c03Prop(k *verifkit.Kit) func(c c03Case) error {
	return func(c c03Case) error {
		text := c.Doc.render()
		cfg, err := Parse(strings.NewReader(text), c02Epoch)
		if err != nil {
			k.Record(c, false, "rejected-by-parse")
			return nil
		}
		classes, nt, err := c03CheckCfg(cfg, c.State, text)
		if err != nil {
			return err
		}
		k.Record(c, nt, classes...)
		return nil
	}
}

// c03CheckCfg puts the RA of every advertising interface of an accepted
// configuration through the codec (shared by the generated cases and the
// native fuzz target).
func c03CheckCfg(cfg *Config, st sysState, text string) (classes []string, nt bool, err error) {
	{
		c := struct{ State sysState }{st}
		for i := range cfg.Interfaces {
			ifi := &cfg.Interfaces[i]
			if ifi.Monitor {
				continue
			}
			vkInject(ifi, c.State, c02Epoch)
			ra, _, err := ifi.RouterAdvertisement(c.State.Fwd)
			if err != nil {
				classes = append(classes, "generation-fails")
				continue // the statement quantifies over states for which generation succeeds
			}
			want, fractional, verr := c03Truncate(ra)
			if verr != nil {
				return nil, false, verifkit.Violf(verr.(*verifkit.Violation).Sig, "interface %q: %s\nRA %s\n%s", ifi.Name, verr.(*verifkit.Violation).Msg, raString(ra), text)
			}
			b, err := ndp.MarshalMessage(ra)
			if err != nil {
				return nil, false, verifkit.Violf("C03/not-encodable", "interface %q: accepted configuration yields an RA that does not encode: %v\nRA %s\n%s", ifi.Name, err, raString(ra), text)
			}
			m, err := ndp.ParseMessage(b)
			if err != nil {
				return nil, false, verifkit.Violf("C03/not-decodable", "interface %q: encoded RA does not decode: %v\nRA %s\n%s", ifi.Name, err, raString(ra), text)
			}
			back, ok := m.(*ndp.RouterAdvertisement)
			if !ok {
				return nil, false, verifkit.Violf("C03/not-decodable", "decoded a %T", m)
			}
			if g, w := raString(back), raString(want); g != w {
				if alt, _, _ := c03TruncateMode(ra, true); alt != nil && raString(alt) == g {
					return nil, false, verifkit.Violf("C03/seconds-rounded-up-within-1us-of-next-second", "interface %q: a lifetime less than 1us below a whole second is sent rounded up, not truncated (float64 conversion in the codec):\nbuilt   %s\ndecoded %s\n%s", ifi.Name, raString(ra), g, text)
				}
				return nil, false, verifkit.Violf("C03/meaning-changed-on-wire", "interface %q:\nbuilt   %s\nexpect  %s\ndecoded %s\n%s", ifi.Name, raString(ra), w, g, text)
			}
			if fractional {
				nt = true
				classes = append(classes, "fractional-duration")
			}
			for _, o := range ra.Options {
				switch o := o.(type) {
				case *ndp.PREF64:
					nt = true
					classes = append(classes, "pref64")
				case *ndp.CaptivePortal:
					nt = true
					classes = append(classes, fmt.Sprintf("captive-portal-len/50=%d", len(o.URI)/50))
				case *ndp.PrefixInformation:
					if o.ValidLifetime >= c03MaxU32s-2*time.Second {
						nt = true
						classes = append(classes, "near-field-limit")
					}
				case *ndp.RecursiveDNSServer:
					if o.Lifetime >= c03MaxU32s-2*time.Second {
						nt = true
						classes = append(classes, "near-field-limit")
					}
				}
			}
			if ra.RouterLifetime >= 8998*time.Second {
				nt = true
				classes = append(classes, "near-field-limit")
			}
			classes = append(classes, "roundtrip-ok")
		}
		return classes, nt, nil
	}
}

var c03Hostile = func() []dDur {
	s := int64(time.Second)
	var out []dDur
	for _, ns := range []int64{-1, -s, 1, 999999999, s + 500000000, 1500000, 65535 * s, 65536 * s, 65535*s + 999999999, infNS - 1, infNS, infNS + 1, infNS + s, 2000000 * 3600 * s, 9000 * s, 9000*s - 1, 3600 * s, 3600*s - 1, 0, 4 * s, 1800 * s} {
		out = append(out, dDur{Kind: "value", NS: ns, Text: time.Duration(ns).String()})
	}
	// spellings that are not documented durations at all: should the parser come to accept one, what it makes of it still
	// has to fit the wire
	for _, t := range []string{"99999d", "200000d", "49711d", "2w", "9999w", "1y", "150y", "50%", "1%", "100%"} {
		out = append(out, dDur{Kind: "malformed", Text: t})
	}
	return append(out, dDur{Kind: "infinite"}, dDur{Kind: "empty"}, dDur{Kind: "auto"})
}()

var c03CIDRs = []string{"64:ff9b::/96", "64:ff9b::/64", "64:ff9b::/56", "64:ff9b::/48", "64:ff9b::/40", "64:ff9b::/32", "64:ff9b::/33", "64:ff9b::/128",
	"64:ff9b::/0", "10.0.0.0/8", "10.0.0.0/32", "192.0.2.0/24", "::ffff:10.0.0.0/96", "::ffff:10.0.0.0/104", "64:ff9b::1/96", "2001:db8:64:64:1:2:3:4/64", "::/96", "ff00::/32"}

// every prefix length of two IPv6 networks and of an IPv4 network: "arbitrary CIDR strings for pref64"
func init() {
	for bits := 0; bits <= 128; bits++ {
		for _, a := range []string{"64:ff9b:1234:5678:9abc:def0:1234:5678", "2001:db8:ffff:ffff:ffff:ffff:ffff:ffff"} {
			c03CIDRs = append(c03CIDRs, netip.PrefixFrom(netip.MustParseAddr(a), bits).Masked().String())
		}
		if bits <= 32 {
			c03CIDRs = append(c03CIDRs, netip.PrefixFrom(netip.MustParseAddr("10.255.255.255"), bits).Masked().String())
		}
	}
}

func c03Gen(t *rapid.T) c03Case {
	g := &vg{t: t}
	d := g.genDoc(true, 0)
	// hostile edits on top of a valid document: 1..3 keys get a value near a
	// wire-field limit, fractional, or out of range (mostly values the
	// parser should still accept, so that the round trip is actually reached)
	s := int64(time.Second)
	mk := func(ns int64) dDur { return dDur{Kind: "value", NS: ns, Text: time.Duration(ns).String()} }
	var timers, lifetimes []dDur
	for _, ns := range []int64{1, 999999, 1000000, 1500000, 999999999, s + 500000000, 3600 * s, 3600*s - 1, 3599*s + 999999999, 0} {
		timers = append(timers, mk(ns))
	}
	for _, ns := range []int64{1, 999999999, s + 500000000, 65535 * s, 65536 * s, 65535*s + 999999999, infNS - s, infNS - 1, infNS - 1000, infNS - 500000000,
		4194304*s + 999999999, 4194304*s + 999999000, 86400*s - 1, 0} {
		lifetimes = append(lifetimes, mk(ns))
	}
	lifetimes = append(lifetimes, dDur{Kind: "infinite"}, dDur{Kind: "empty"}, dDur{Kind: "auto"})
	bad := []dDur{mk(-1), mk(-s), mk(infNS + 1), mk(infNS + s), mk(2000000 * 3600 * s)}
	var edits []func()
	for i := range d.Interfaces {
		ifi := &d.Interfaces[i]
		pickT := func() dDur { return rapid.SampledFrom(timers).Draw(t, "timer") }
		pickL := func() dDur {
			if g.chance("h:bad", 1, 8) {
				return rapid.SampledFrom(bad).Draw(t, "badlife")
			}
			return rapid.SampledFrom(lifetimes).Draw(t, "life")
		}
		edits = append(edits,
			func() { ifi.ReachableTime = pickT() },
			func() { ifi.RetransmitTimer = pickT() },
			func() {
				ifi.DefaultLifetime = rapid.SampledFrom([]dDur{mk(9000 * s), mk(9000*s - 1), mk(8999*s + 999999999), mk(1800*s + 1), mk(5400*s + 500000000), {Kind: "empty"}}).Draw(t, "deflife")
			},
			func() {
				ifi.MaxInterval = rapid.SampledFrom([]dDur{mk(1800 * s), mk(1800*s - 1), mk(4*s + 1), mk(5*s + 900000000), mk(600*s + 333333333)}).Draw(t, "max")
				ifi.MinInterval, ifi.DefaultLifetime = dDur{Kind: "omit"}, dDur{Kind: "omit"}
			},
			func() {
				ifi.PREF64 = append(ifi.PREF64, dPREF64{})
				ifi.Order = append(ifi.Order, 4)
			},
			func() {
				if len(ifi.DNSSL) > 0 && g.chance("h:dotted", 1, 4) {
					d := &ifi.DNSSL[rapid.IntRange(0, len(ifi.DNSSL)-1).Draw(t, "dottedwhich")]
					pos := rapid.IntRange(0, len(d.Domains)).Draw(t, "dottedpos")
					d.Domains = slices.Insert(slices.Clone(d.Domains), pos, rapid.SampledFrom([]string{"example.org.", "lan.", "home.arpa."}).Draw(t, "dottedname"))
				}
			},
			func() {
				if len(ifi.RDNSS) > 0 && g.chance("h:zoned", 1, 4) {
					r := &ifi.RDNSS[rapid.IntRange(0, len(ifi.RDNSS)-1).Draw(t, "zonedwhich")]
					r.Servers = append(slices.Clone(r.Servers), dAddr{Text: rapid.SampledFrom([]string{"fe80::53%eth0", "fe80::1%eth0", "2001:db8::53%1", "::%eth0"}).Draw(t, "zonedserver"), Kind: "zoned"})
				}
			},
			func() {
				txt := rapid.SampledFrom(c03CIDRs).Draw(t, "p64")
				p := netip.MustParsePrefix(txt)
				ifi.PREF64 = append(ifi.PREF64, dPREF64{dCIDR{Kind: "value", Text: txt, Addr: p.Addr().String(), Bits: p.Bits(), V4: p.Addr().Is4() || p.Addr().Is4In6(), Host: p != p.Masked()}})
				ifi.Order = append(ifi.Order, 4)
			},
			func() {
				n := rapid.IntRange(7, 255).Draw(t, "cplen")
				if g.chance("h:cplong", 1, 2) {
					n = rapid.IntRange(230, 255).Draw(t, "cplen2")
				}
				u := "https://p.example/"
				if n <= len(u) {
					u = "urn:x:" + strings.Repeat("y", n-6)
				} else {
					// filler that stays as it is, or that URL re-serialisation escapes (1 byte -> 3, 2 bytes -> 6):
					// the option must fit *as it is sent*, not as it is written
					fill := rapid.SampledFrom([]string{"a", "a", " ", "\u00e4", "a b", "%20"}).Draw(t, "cpfill")
					for len(u)+len(fill) <= n {
						u += fill
					}
				}
				ifi.CaptivePortal = &u
			},
		)
		for j := range ifi.Prefixes {
			p := &ifi.Prefixes[j]
			edits = append(edits, func() { p.Valid = pickL(); p.Preferred = p.Valid }, func() { p.Valid = dDur{Kind: "infinite"}; p.Preferred = pickL() })
		}
		for j := range ifi.Routes {
			r := &ifi.Routes[j]
			edits = append(edits, func() { r.Lifetime = pickL() })
		}
		for j := range ifi.RDNSS {
			r := &ifi.RDNSS[j]
			edits = append(edits, func() { r.Lifetime = pickL() })
		}
		for j := range ifi.DNSSL {
			r := &ifi.DNSSL[j]
			edits = append(edits, func() { r.Lifetime = pickL() })
			// well-formed LDH names only (punycode names legitimately read back as unicode)
			for n := range r.Domains {
				if strings.HasPrefix(r.Domains[n], "xn--") {
					r.Domains[n] = fmt.Sprintf("h%d.example.org", n)
				}
			}
		}
	}
	for i, n := 0, rapid.IntRange(1, 3).Draw(t, "nedits"); i < n; i++ {
		edits[g.uniform("edit", len(edits))]()
	}
	st := genSysState(t)
	// keep generation successful most of the time: make one eligible address available
	if rapid.IntRange(0, 9).Draw(t, "keepfail") != 0 {
		st.AddrErr, st.RouteErr = false, false
		st.Addrs = append(st.Addrs, system.IP{Address: netip.MustParsePrefix("2001:db8:a:1::99/64"), ValidForever: true})
	}
	return c03Case{Doc: d, State: st}
}

// c03Sweep: every duration key x the hostile values, alone in a document.
func c03Sweep(yield func(c03Case) bool) {
	tr := true
	eth := "eth0"
	st := sysState{Addrs: []system.IP{{Address: netip.MustParsePrefix("2001:db8:a:1::1/64")}}, Fwd: true}
	setters := []func(*dIface, dDur){
		func(i *dIface, d dDur) { i.ReachableTime = d },
		func(i *dIface, d dDur) { i.RetransmitTimer = d },
		func(i *dIface, d dDur) { i.DefaultLifetime = d },
		func(i *dIface, d dDur) {
			i.MaxInterval = d
			i.PREF64 = []dPREF64{{}}
			i.RDNSS = []dRDNSS{{}}
			i.DNSSL = []dDNSSL{{HasKey: true, Domains: []string{"lan"}}}
		},
		func(i *dIface, d dDur) { i.Prefixes = []dPrefix{{Valid: d, Preferred: d}} },
		func(i *dIface, d dDur) { i.Prefixes = []dPrefix{{Valid: dDur{Kind: "infinite"}, Preferred: d}} },
		func(i *dIface, d dDur) {
			dep := true
			i.Prefixes = []dPrefix{{Valid: d, Preferred: d, Deprecated: &dep}}
		},
		func(i *dIface, d dDur) { i.Routes = []dRoute{{Lifetime: d}} },
		func(i *dIface, d dDur) { dep := true; i.Routes = []dRoute{{Lifetime: d, Deprecated: &dep}} },
		func(i *dIface, d dDur) { i.RDNSS = []dRDNSS{{Lifetime: d}} },
		func(i *dIface, d dDur) {
			i.DNSSL = []dDNSSL{{Lifetime: d, HasKey: true, Domains: []string{"example.com"}}}
		},
	}
	for _, set := range setters {
		for _, v := range c03Hostile {
			ifi := dIface{Name: &eth, Advertise: &tr}
			set(&ifi, v)
			if !yield(c03Case{Doc: dDoc{Interfaces: []dIface{ifi}}, State: st}) {
				return
			}
		}
	}
	for _, txt := range c03CIDRs {
		p := netip.MustParsePrefix(txt)
		ifi := dIface{Name: &eth, Advertise: &tr, PREF64: []dPREF64{{dCIDR{Kind: "value", Text: txt, Addr: p.Addr().String(), Bits: p.Bits()}}}}
		if !yield(c03Case{Doc: dDoc{Interfaces: []dIface{ifi}}, State: st}) {
			return
		}
	}
	for _, fill := range []string{"a", " ", "\u00e4"} {
		for n := 1; n <= 256; n++ {
			u := "https://p.example/"
			if n <= len(u) {
				if fill != "a" {
					continue
				}
				u = ("urn:x:" + strings.Repeat("y", 20))[:max(n, 1)]
			} else {
				for len(u)+len(fill) <= n {
					u += fill
				}
			}
			ifi := dIface{Name: &eth, Advertise: &tr, CaptivePortal: &u}
			if !yield(c03Case{Doc: dDoc{Interfaces: []dIface{ifi}}, State: st}) {
				return
			}
		}
	}
	// server addresses with a zone: netip parses them, the option has no room for a zone (finding F23)
	for _, servers := range [][]string{{"fe80::53%eth0"}, {"fe80::1%eth0", "fe80::1"}, {"fe80::1%eth0", "fe80::1%eth1"}, {"::%eth0"}, {"2001:db8::53%1", "::"}, {"fe80::1%25eth0"}} {
		var as []dAddr
		for _, x := range servers {
			kind := "zoned"
			if x == "::" {
				kind = "wildcard"
			} else if !strings.Contains(x, "%") {
				kind = "v6"
			}
			as = append(as, dAddr{Text: x, Kind: kind, Addr: x})
		}
		ifi := dIface{Name: &eth, Advertise: &tr, RDNSS: []dRDNSS{{Servers: as}}}
		if !yield(c03Case{Doc: dDoc{Interfaces: []dIface{ifi}}, State: st}) {
			return
		}
	}
	for _, names := range [][]string{{""}, {"a", ""}, {strings.Repeat("a", 63) + ".example"}, {"lan", "example.com", "a.b.c.d.e.f.g"},
		// names in their absolute form and other empty labels (finding F24)
		{"lan.", "example.com", "corp.example.net"}, {"example.com", "lan.", "corp.example.net"}, {"example.com."}, {"example.com.", "example.com"}, {"a..b", "lan"}, {".lan", "x"}} {
		ifi := dIface{Name: &eth, Advertise: &tr, DNSSL: []dDNSSL{{HasKey: true, Domains: names}}}
		if !yield(c03Case{Doc: dDoc{Interfaces: []dIface{ifi}}, State: st}) {
			return
		}
	}
}

func TestVerif_C03(t *testing.T) {
	k := verifkit.Start(t, "C03")
	prop := c03Prop(k)
	k.Regress(t, func(sub string, raw json.RawMessage) error { return verifkit.Decode(raw, prop) })
	verifkit.Enumerate(k, t, "duration-cidr-uri-sweep", true, c03Sweep, prop)
	verifkit.Rapid(k, t, "hostile-documents", k.N(10000, 500000), c03Gen, prop)
}

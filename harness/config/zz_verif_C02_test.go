package config

// C02: a configuration is accepted iff the documented constraints hold, the
// defaults are exact, and parsing is total. Oracle: the three-valued reference
// validator in zz_verif_common_test.go; byte-level inputs are judged for
// totality only.

import (
	"bytes"
	"encoding/json"
	"fmt"
	"net/netip"
	"regexp"
	"sort"
	"strings"
	"testing"
	"time"

	"github.com/mdlayher/corerad/internal/verifkit"
	"pgregory.net/rapid"
)

var c02Epoch = time.Unix(1700000000, 0)

type c02Case struct {
	Doc  dDoc `json:"doc"`
	Bads int  `json:"perturbed_keys"`
}

type c02Bytes struct {
	Data []byte `json:"data"`
}

var sigStrip = regexp.MustCompile(`\[\d+\]|"[^"]*"|-?\d[\w.:/]*|%!\w\([^)]*\)`)

// reasonSig turns a reference reason into a value-independent signature.
func reasonSig(reason string) string {
	s := sigStrip.ReplaceAllString(reason, "")
	s = strings.Join(strings.Fields(s), " ")
	if len(s) > 70 {
		s = s[:70]
	}
	return s
}

func c02Interaction(d dDoc) bool {
	for _, ifi := range d.Interfaces {
		if ifi.MaxInterval.Kind == "value" && (ifi.MinInterval.Kind == "value" || ifi.DefaultLifetime.Kind == "value") {
			return true
		}
		if ifi.HasNames && len(ifi.Names) > 1 {
			return true
		}
		for _, p := range ifi.Prefixes {
			if p.Deprecated != nil && *p.Deprecated {
				return true
			}
		}
		for _, p := range ifi.Routes {
			if p.Deprecated != nil && *p.Deprecated {
				return true
			}
		}
	}
	return false
}

func c02Prop(k *verifkit.Kit) func(c c02Case) error {
	return func(c c02Case) error {
		text := c.Doc.render()
		ref := reference(c.Doc, c02Epoch)
		k.Record(c, c.Bads > 0 || c02Interaction(c.Doc), "verdict="+ref.V.String(), fmt.Sprintf("perturbed=%d", min(c.Bads, 3)))
		cfg, err := Parse(strings.NewReader(text), c02Epoch)
		switch ref.V {
		case vUnspecified:
			for _, u := range ref.Unspec {
				k.Unspecified(reasonSig(u))
			}
			return nil
		case vReject:
			k.Class("reject:" + reasonSig(ref.Reasons[0]))
			if err == nil {
				return verifkit.Violf("C02/accepted-invalid: "+reasonSig(ref.Reasons[0]),
					"document violates %q but Parse accepted it:\n%s", ref.Reasons, text)
			}
			return nil
		}
		if err != nil {
			return verifkit.Violf("C02/rejected-valid", "document satisfies every documented constraint but Parse failed: %v\n%s", err, text)
		}
		got, nerr := normalise(cfg)
		if nerr != nil {
			return verifkit.Violf("C02/wrong-value", "%v\n%s", nerr, text)
		}
		if d := ref.Cfg.diffOpt(got, true); d != "" {
			return verifkit.Violf("C02/wrong-value", "%s\n%s", d, text)
		}
		return nil
	}
}

func c02Gen(t *rapid.T) c02Case {
	g := &vg{t: t}
	budget := rapid.SampledFrom([]int{0, 0, 1, 1, 1, 2, 2, 3}).Draw(t, "budget")
	d := g.genDoc(false, budget)
	return c02Case{Doc: d, Bads: g.bads}
}

// --- totality on arbitrary bytes -------------------------------------------

func c02BytesProp(k *verifkit.Kit) func(c c02Bytes) error {
	return func(c c02Bytes) error {
		cfg, err := Parse(bytes.NewReader(c.Data), c02Epoch)
		cl := "bytes:rejected"
		if err == nil {
			cl = "bytes:accepted"
		}
		k.Record(c, len(c.Data) > 0, cl)
		if err == nil {
			// whatever the bytes were, an accepted configuration is within every documented range
			if ierr := c02Accepted(cfg); ierr != nil {
				return verifkit.Violf("C02/accepted-out-of-range", "accepted configuration violates a documented constraint: %v\ninput: %q", ierr, c.Data)
			}
		}
		return nil // a panic is turned into a violation by verifkit.Guard
	}
}

var c02Corpus = []string{
	fmt.Sprintf(Minimal, "verif"),
	"[[interfaces]]\nname = \"eth0\"\nadvertise = true\n",
	"[[interfaces]]\nnames = [\"a\", \"b\"]\nmonitor = true\n[debug]\naddress = \":9430\"\n",
	"[[interfaces]]\nname = \"e\"\n  [[interfaces.prefix]]\n  prefix = \"::/64\"\n  [[interfaces.route]]\n  [[interfaces.rdnss]]\n  servers = [\"::\"]\n  [[interfaces.dnssl]]\n  domain_names = [\"x\"]\n  [[interfaces.pref64]]\n",
}

func c02GenBytes(t *rapid.T) c02Bytes {
	switch rapid.IntRange(0, 3).Draw(t, "kind") {
	case 0:
		return c02Bytes{Data: rapid.SliceOfN(rapid.Byte(), 0, 200).Draw(t, "raw")}
	case 1:
		// TOML-looking soup
		toks := []string{"[[interfaces]]", "[[interfaces.prefix]]", "[debug]", "name", "names", "=", "\"", "eth0", "[", "]", ",", "\n", " ", "true", "false", "1", "-", "max_interval", "prefix", "::/64", "'", "\\", "#", ".", "{", "}", "1979-05-27T07:32:00Z", "inf", "nan", "0x", "\"\"\"", "lifetime", "servers", "mtu", "hop_limit", "99999999999999999999"}
		n := rapid.IntRange(0, 60).Draw(t, "ntok")
		var b strings.Builder
		for i := 0; i < n; i++ {
			b.WriteString(rapid.SampledFrom(toks).Draw(t, "tok"))
		}
		return c02Bytes{Data: []byte(b.String())}
	default:
		// byte-level mutations of a well-formed document (no [debug] section:
		// a mutated address could become a host name and Parse would try DNS)
		g := &vg{t: t}
		d := g.genDoc(false, 1)
		d.Debug = nil
		data := []byte(d.render())
		if rapid.Bool().Draw(t, "corpus") {
			data = []byte(strings.Split(rapid.SampledFrom(c02Corpus).Draw(t, "seed"), "[debug]")[0])
		}
		for i, n := 0, rapid.IntRange(1, 6).Draw(t, "nmut"); i < n && len(data) > 0; i++ {
			pos := rapid.IntRange(0, len(data)-1).Draw(t, "pos")
			switch rapid.IntRange(0, 3).Draw(t, "mut") {
			case 0:
				data = append(data[:pos], data[pos+1:]...)
			case 1:
				data[pos] = rapid.Byte().Draw(t, "byte")
			case 2:
				ins := rapid.SampledFrom([]string{"\"", "\n", "[", "]", "=", "\\", "'", "\x00", "\xff", "#", "9999999999999999999999", "[[", "]]", "."}).Draw(t, "ins")
				data = append(data[:pos], append([]byte(ins), data[pos:]...)...)
			default:
				end := min(len(data), pos+rapid.IntRange(1, 30).Draw(t, "span"))
				data = append(data[:pos], data[end:]...)
			}
		}
		return c02Bytes{Data: data}
	}
}

// --- exhaustive single-key boundary sweep ------------------------------------

func c02SweepValues() []dDur {
	s := int64(time.Second)
	nss := []int64{-3600 * s, -s, -1, 0, 1, 999999999, s, 3*s - 1, 3 * s, 3*s + 1, 4*s - 1, 4 * s, 4*s + 1, 9*s - 1, 9 * s,
		450*s - 1, 450 * s, 450*s + 1, 451 * s, 600*s - 1, 600 * s, 600*s + 1, 1350 * s, 1350*s + 1, 1800*s - 1, 1800 * s, 1800*s + 1,
		3600*s - 1, 3600 * s, 3600*s + 1, 9000*s - 1, 9000 * s, 9000*s + 1, 14400 * s, 14400*s + 1, 65535 * s, 65536 * s, 86400 * s, 86400*s + 1,
		infNS - s, infNS - 1, infNS, infNS + 1, infNS + s, 2500000 * 3600 * s}
	out := []dDur{{Kind: "omit"}, {Kind: "auto"}, {Kind: "infinite"}, {Kind: "empty"}}
	for _, m := range malformedDurations {
		out = append(out, dDur{Kind: "malformed", Text: m})
	}
	for _, ns := range nss {
		out = append(out, dDur{Kind: "value", NS: ns, Text: time.Duration(ns).String()})
		if ns%s == 0 {
			out = append(out, dDur{Kind: "value", NS: ns, Text: fmt.Sprintf("%ds", ns/s)})
		}
	}
	return out
}

func c02Sweep(yield func(c02Case) bool) {
	tr := true
	eth := "eth0"
	base := func() dIface { return dIface{Name: &eth, Advertise: &tr} }
	emit := func(ifi dIface) bool { return yield(c02Case{Doc: dDoc{Interfaces: []dIface{ifi}}, Bads: 1}) }
	vals := c02SweepValues()
	setters := []func(*dIface, dDur){
		func(i *dIface, d dDur) { i.MaxInterval = d },
		func(i *dIface, d dDur) { i.MinInterval = d },
		func(i *dIface, d dDur) { i.ReachableTime = d },
		func(i *dIface, d dDur) { i.RetransmitTimer = d },
		func(i *dIface, d dDur) { i.DefaultLifetime = d },
		func(i *dIface, d dDur) { i.Prefixes = []dPrefix{{Valid: d}} },
		func(i *dIface, d dDur) { i.Prefixes = []dPrefix{{Preferred: d}} },
		func(i *dIface, d dDur) { i.Prefixes = []dPrefix{{Preferred: d, Valid: dDur{Kind: "infinite"}}} },
		func(i *dIface, d dDur) {
			dep := true
			i.Prefixes = []dPrefix{{Preferred: d, Valid: d, Deprecated: &dep}}
		},
		func(i *dIface, d dDur) { i.Routes = []dRoute{{Lifetime: d}} },
		func(i *dIface, d dDur) { dep := true; i.Routes = []dRoute{{Lifetime: d, Deprecated: &dep}} },
		func(i *dIface, d dDur) { i.RDNSS = []dRDNSS{{Lifetime: d}} },
		func(i *dIface, d dDur) {
			i.DNSSL = []dDNSSL{{Lifetime: d, HasKey: true, Domains: []string{"example.com"}}}
		},
	}
	for _, set := range setters {
		for _, v := range vals {
			ifi := base()
			set(&ifi, v)
			if !emit(ifi) {
				return
			}
		}
	}
	// min_interval and default_lifetime against a non-default max_interval
	s := int64(time.Second)
	for _, mx := range []int64{4 * s, 4*s + 1, 5 * s, 8 * s, 9*s - 1, 9 * s, 10 * s, 100 * s, 101 * s, 1799 * s, 1800 * s, 4*s + 500000000} {
		up := int64(upper75(time.Duration(mx)))
		for _, mn := range []int64{3*s - 1, 3 * s, 3*s + 1, up - 1, up, up + 1, up + s, mx, 3*mx/4 - 1, 3 * mx / 4, 3*mx/4 + 1} {
			ifi := base()
			ifi.MaxInterval = dDur{Kind: "value", NS: mx, Text: time.Duration(mx).String()}
			ifi.MinInterval = dDur{Kind: "value", NS: mn, Text: time.Duration(mn).String()}
			if !emit(ifi) {
				return
			}
		}
		for _, kind := range []string{"omit", "auto", "empty"} {
			ifi := base()
			ifi.MaxInterval = dDur{Kind: "value", NS: mx, Text: time.Duration(mx).String()}
			ifi.MinInterval = dDur{Kind: kind}
			ifi.RDNSS = []dRDNSS{{}}
			ifi.DNSSL = []dDNSSL{{HasKey: true, Domains: []string{"lan"}}}
			ifi.PREF64 = []dPREF64{{}}
			if !emit(ifi) {
				return
			}
		}
		for _, dl := range []int64{0, 1, mx - 1, mx, mx + 1, 3 * mx, 9000 * s, 9000*s + 1} {
			ifi := base()
			ifi.MaxInterval = dDur{Kind: "value", NS: mx, Text: time.Duration(mx).String()}
			ifi.DefaultLifetime = dDur{Kind: "value", NS: dl, Text: time.Duration(dl).String()}
			if !emit(ifi) {
				return
			}
		}
	}
	// every whole-second max_interval with automatic min_interval (defaults exact)
	for mx := int64(4); mx <= 1800; mx++ {
		ifi := base()
		ifi.MaxInterval = dDur{Kind: "value", NS: mx * s, Text: fmt.Sprintf("%ds", mx)}
		ifi.RDNSS = []dRDNSS{{}}
		ifi.PREF64 = []dPREF64{{}}
		if !emit(ifi) {
			return
		}
	}
	hops := []int64{1 << 31, -(1 << 31), 1 << 32, 65536, 65535, -256, -255}
	for h := int64(-2); h <= 258; h++ { // every value of the 8-bit field and its neighbours
		hops = append(hops, h)
	}
	for _, h := range hops {
		ifi := base()
		h := h
		ifi.HopLimit = &h
		if !emit(ifi) {
			return
		}
	}
	mtus := []int64{-1, 0, 1, 1279, 1280, 1500, 9000, 65535, 65536, 65537, 1 << 31, 1 << 32, 1<<32 + 1500, -1500, -65536}
	for sh := 1; sh <= 17; sh++ { // around every power of two of the range
		mtus = append(mtus, 1<<sh-1, 1<<sh, 1<<sh+1)
	}
	for _, m := range mtus {
		ifi := base()
		m := m
		ifi.MTU = &m
		if !emit(ifi) {
			return
		}
	}
	for _, p := range []string{"", "low", "medium", "high", "Low", "HIGH", "med", " ", "auto"} {
		p := p
		ifi := base()
		ifi.Preference = &p
		if !emit(ifi) {
			return
		}
		ifi = base()
		ifi.Routes = []dRoute{{Preference: &p}}
		if !emit(ifi) {
			return
		}
	}
	// prefix / route / pref64 CIDR classes
	cidrs := []dCIDR{{Kind: "omit"}, {Kind: "empty"},
		{Kind: "value", Text: "::/64", Addr: "::", Bits: 64}, {Kind: "value", Text: "::/0", Addr: "::", Bits: 0},
		{Kind: "value", Text: "::/56", Addr: "::", Bits: 56}, {Kind: "value", Text: "::/128", Addr: "::", Bits: 128},
		{Kind: "value", Text: "2001:db8::/64", Addr: "2001:db8::", Bits: 64}, {Kind: "value", Text: "2001:db8::/32", Addr: "2001:db8::", Bits: 32},
		{Kind: "value", Text: "2001:db8::/128", Addr: "2001:db8::", Bits: 128}, {Kind: "value", Text: "2001:db8::1/64", Addr: "2001:db8::1", Bits: 64, Host: true},
		{Kind: "value", Text: "2001:db8::1/128", Addr: "2001:db8::1", Bits: 128}, {Kind: "value", Text: "2001:DB8:0:0::/64", Addr: "2001:db8::", Bits: 64},
		{Kind: "value", Text: "192.0.2.0/24", Addr: "192.0.2.0", Bits: 24, V4: true}, {Kind: "value", Text: "10.0.0.0/8", Addr: "10.0.0.0", Bits: 8, V4: true},
		{Kind: "value", Text: "10.0.0.0/32", Addr: "10.0.0.0", Bits: 32, V4: true},
		{Kind: "value", Text: "::ffff:192.0.2.0/120", Addr: "::ffff:192.0.2.0", Bits: 120, V4: true},
		{Kind: "value", Text: "::ffff:0:0/96", Addr: "::ffff:0.0.0.0", Bits: 96, V4: true},
		{Kind: "malformed", Text: "2001:db8::"}, {Kind: "malformed", Text: "foo"}, {Kind: "malformed", Text: "2001:db8::/129"}, {Kind: "malformed", Text: "fe80::%eth0/64"},
		{Kind: "value", Text: "64:ff9b::/96", Addr: "64:ff9b::", Bits: 96}, {Kind: "value", Text: "64:ff9b::/95", Addr: "64:ff9b::", Bits: 95},
		{Kind: "value", Text: "64:ff9b::/97", Addr: "64:ff9b::", Bits: 97}, {Kind: "value", Text: "64:ff9b::/33", Addr: "64:ff9b::", Bits: 33},
		{Kind: "value", Text: "64:ff9b::/40", Addr: "64:ff9b::", Bits: 40}, {Kind: "value", Text: "64:ff9b::/48", Addr: "64:ff9b::", Bits: 48},
		{Kind: "value", Text: "64:ff9b::/56", Addr: "64:ff9b::", Bits: 56}, {Kind: "value", Text: "64:ff9b::/0", Addr: "64:ff9b::", Bits: 0, Host: true},
	}
	// every prefix length, for each of the three keys
	for bits := 0; bits <= 128; bits++ {
		pp := netip.PrefixFrom(netip.MustParseAddr("2001:db8:1234:5678:9abc:def0:1234:5678"), bits).Masked()
		cidrs = append(cidrs, dCIDR{Kind: "value", Text: pp.String(), Addr: pp.Addr().String(), Bits: bits})
	}
	for bits := 1; bits <= 128; bits++ { // every length of the unspecified network: only ::/64 and ::/0 are wildcards
		cidrs = append(cidrs, dCIDR{Kind: "value", Text: fmt.Sprintf("::/%d", bits), Addr: "::", Bits: bits})
	}
	for _, c := range cidrs {
		for kind := 0; kind < 3; kind++ {
			ifi := base()
			switch kind {
			case 0:
				ifi.Prefixes = []dPrefix{{Prefix: c}}
			case 1:
				ifi.Routes = []dRoute{{Prefix: c}}
			default:
				ifi.PREF64 = []dPREF64{{Prefix: c}}
			}
			if !emit(ifi) {
				return
			}
		}
	}
	// pairs of prefixes / routes: overlap matrix
	pairs := []dCIDR{{Kind: "omit"}, cidrs[6], cidrs[7], {Kind: "value", Text: "2001:db8:0:1::/64", Addr: "2001:db8:0:1::", Bits: 64},
		{Kind: "value", Text: "2001:db9::/64", Addr: "2001:db9::", Bits: 64}, cidrs[10]}
	for _, a := range pairs {
		for _, b := range pairs {
			ifi := base()
			if a.Bits != 128 && b.Bits != 128 {
				ifi.Prefixes = []dPrefix{{Prefix: a}, {Prefix: b}}
			}
			ifi.Routes = []dRoute{{Prefix: a}, {Prefix: b}}
			if !emit(ifi) {
				return
			}
		}
	}
}

// Wrong TOML types: every key has one type (the documentation gives it); a value of any other TOML type - a float or a
// boolean for an integer, an integer for a duration string, a table for a flag - is not "a value that satisfies the
// documented constraints", whatever a decoder might make of it, and a table smuggles in keys nobody declared.
type c02Typed struct {
	Where string `json:"where"` // interface | prefix | route | rdnss | dnssl | pref64 | debug
	Key   string `json:"key"`
	Value string `json:"value"` // TOML text of the value
	Type  string `json:"type"`  // its TOML type
}

var c02KeyTypes = map[string]map[string]string{
	"interface": {"name": "string", "monitor": "bool", "advertise": "bool", "verbose": "bool", "max_interval": "string", "min_interval": "string", "managed": "bool",
		"other_config": "bool", "reachable_time": "string", "retransmit_timer": "string", "hop_limit": "int", "default_lifetime": "string", "unicast_only": "bool",
		"preference": "string", "mtu": "int", "source_lla": "bool", "captive_portal": "string"},
	"prefix": {"prefix": "string", "on_link": "bool", "autonomous": "bool", "valid_lifetime": "string", "preferred_lifetime": "string", "deprecated": "bool"},
	"route":  {"prefix": "string", "preference": "string", "lifetime": "string", "deprecated": "bool"},
	"rdnss":  {"lifetime": "string", "servers": "strings"},
	"dnssl":  {"lifetime": "string", "domain_names": "strings"},
	"pref64": {"prefix": "string"},
	"debug":  {"address": "string", "prometheus": "bool", "pprof": "bool"},
}

var c02TypedValues = []struct{ text, typ string }{
	{"true", "bool"}, {"false", "bool"}, {"0", "int"}, {"1", "int"}, {"64", "int"}, {"1500", "int"}, {"1.5", "float"}, {"1500.0", "float"}, {"1e3", "float"}, {"inf", "float"}, {"nan", "float"},
	{`"1"`, "string"}, {`"true"`, "string"}, {`""`, "string"}, {"[]", "array"}, {"[1]", "array"}, {`["a"]`, "strings"}, {"[true]", "array"}, {`["a", 1]`, "array"}, {"{}", "table"}, {"{ value = 1 }", "table"},
	{"1979-05-27T07:32:00Z", "datetime"}, {"1979-05-27", "date"}, {"07:32:00", "time"},
}

func c02TypedSweep(yield func(c02Typed) bool) {
	// (sorted: the shards split the enumeration by index, so every process must see the same order)
	wheres := make([]string, 0, len(c02KeyTypes))
	for w := range c02KeyTypes {
		wheres = append(wheres, w)
	}
	sort.Strings(wheres)
	for _, where := range wheres {
		keys := c02KeyTypes[where]
		names := make([]string, 0, len(keys))
		for key := range keys {
			names = append(names, key)
		}
		sort.Strings(names)
		for _, key := range names {
			want := keys[key]
			for _, v := range c02TypedValues {
				if v.typ == want || (want == "strings" && v.text == "[]") {
					continue // the right type (whether the value is acceptable is the other sweeps' business)
				}
				if !yield(c02Typed{Where: where, Key: key, Value: v.text, Type: v.typ}) {
					return
				}
			}
		}
	}
}

func c02TypedProp(k *verifkit.Kit) func(c c02Typed) error {
	return func(c c02Typed) error {
		k.Record(c, true, "wrong-type:"+c.Where, "wrong-type-value:"+c.Type)
		line := fmt.Sprintf("%s = %s\n", c.Key, c.Value)
		text := "[[interfaces]]\nadvertise = true\n"
		switch c.Where {
		case "interface":
			if c.Key != "name" {
				text += "name = \"eth0\"\n"
			}
			if c.Key == "advertise" {
				text = "[[interfaces]]\nname = \"eth0\"\n"
			}
			text += line
		case "debug":
			text += "name = \"eth0\"\n[debug]\n" + line
		default:
			text += "name = \"eth0\"\n  [[interfaces." + c.Where + "]]\n  " + line
		}
		var cfg *Config
		var err error
		if perr := verifkit.Guard(func() error { cfg, err = Parse(strings.NewReader(text), c02Epoch); return nil }); perr != nil {
			return verifkit.Violf("panic", "Parse panicked on\n%s\n%v", text, perr)
		}
		if err == nil {
			return verifkit.Violf("C02/wrong-type-accepted", "the key %s of %s takes a %s; the %s value %s was accepted:\n%s\nparsed: %+v", c.Key, c.Where, c02KeyTypes[c.Where][c.Key], c.Type, c.Value, text, cfg.Interfaces)
		}
		return nil
	}
}

func TestVerif_C02(t *testing.T) {
	k := verifkit.Start(t, "C02")
	prop := c02Prop(k)
	bprop := c02BytesProp(k)
	k.Regress(t, func(sub string, raw json.RawMessage) error {
		if strings.HasPrefix(sub, "bytes") {
			return verifkit.Decode(raw, bprop)
		}
		if strings.HasPrefix(sub, "wrong-type") {
			return verifkit.Decode(raw, c02TypedProp(k))
		}
		return verifkit.Decode(raw, prop)
	})
	verifkit.Enumerate(k, t, "single-key-boundary-sweep", true, c02Sweep, prop)
	verifkit.Enumerate(k, t, "wrong-type-values", true, c02TypedSweep, c02TypedProp(k))
	verifkit.Rapid(k, t, "structured-documents", k.N(20000, 1000000), c02Gen, prop)
	verifkit.Rapid(k, t, "bytes-totality", k.N(20000, 400000), c02GenBytes, bprop)
}

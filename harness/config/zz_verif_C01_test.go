package config

// C01: every RA carries exactly what the configuration calls for. Oracle:
// the RA computed from the generated document model and system state alone
// (expectRA), plus idempotence and configuration immutability.

import (
	"encoding/json"
	"fmt"
	"net"
	"slices"
	"strings"
	"testing"
	"time"

	"github.com/mdlayher/corerad/internal/plugin"
	"github.com/mdlayher/corerad/internal/system"
	"github.com/mdlayher/corerad/internal/verifkit"
	"github.com/mdlayher/ndp"
	"pgregory.net/rapid"
)

type c01Case struct {
	Doc    dDoc     `json:"doc"`
	State  sysState `json:"state"`
	Repeat int      `json:"repeat"`
}

// vkInject wires the system state into the parsed plugins, as Prepare does
// with the real operating-system sources.
func vkInject(ifi *Interface, st sysState, epoch time.Time) {
	now := func() time.Time { return epoch.Add(time.Duration(st.NowNS)) }
	addrs := func() ([]system.IP, error) {
		if st.AddrErr {
			return nil, fmt.Errorf("verif: injected address source failure")
		}
		return slices.Clone(st.Addrs), nil
	}
	routes := func() ([]system.Route, error) {
		if st.RouteErr {
			return nil, fmt.Errorf("verif: injected route source failure")
		}
		return slices.Clone(st.Routes), nil
	}
	for _, p := range ifi.Plugins {
		switch p := p.(type) {
		case *plugin.Prefix:
			p.TimeNow, p.Addrs = now, addrs
		case *plugin.Route:
			p.TimeNow, p.Routes = now, routes
		case *plugin.RDNSS:
			p.Addrs = addrs
		case *plugin.LLA:
			// (through the real Prepare: what becomes of an address that the option cannot carry is its business)
			var mac net.HardwareAddr
			if len(st.MAC) > 0 {
				mac = net.HardwareAddr(slices.Clone(st.MAC))
			}
			_ = p.Prepare(&net.Interface{Index: 1, Name: ifi.Name, HardwareAddr: mac, MTU: 1500})
		}
	}
}

func c01NonTrivial(ri rIface, ra *ndp.RouterAdvertisement) (bool, []string) {
	kinds := map[string]bool{}
	nt := false
	var cls []string
	for _, p := range ri.Plugins {
		kinds[p.Kind] = true
		if p.Deprecated {
			nt = true
			cls = append(cls, "deprecated")
		}
		if p.Auto {
			cls = append(cls, "wildcard-"+p.Kind)
			if ra != nil {
				nt = true
			}
		}
	}
	for k := range kinds {
		cls = append(cls, "kind="+k)
	}
	if len(kinds) >= 2 || ri.HopLimit != 64 || ri.Managed || ri.Other || ri.Preference != "medium" || ri.Reachable != 0 || ri.Retrans != 0 {
		nt = true
	}
	return nt, cls
}

func c01Prop(k *verifkit.Kit) func(c c01Case) error {
	return func(c c01Case) error {
		text := c.Doc.render()
		ref := reference(c.Doc, c02Epoch)
		cfg, err := Parse(strings.NewReader(text), c02Epoch)
		if ref.V != vAccept || err != nil {
			// accept/reject agreement is C02's claim; C01 quantifies over accepted configurations
			k.Record(c, false, "not-an-accepted-configuration")
			return nil
		}
		if len(cfg.Interfaces) != len(ref.Cfg.Interfaces) {
			k.Record(c, false, "interface-count-differs(C02)")
			return nil
		}
		nt := false
		var classes []string
		// every interface is prepared with its own system state first (as each
		// advertiser does at start-up), then the RAs are built
		for i := range cfg.Interfaces {
			if !ref.Cfg.Interfaces[i].Monitor {
				vkInject(&cfg.Interfaces[i], stFor(c.State, i), c02Epoch)
			}
		}
		for i := range cfg.Interfaces {
			ifi := &cfg.Interfaces[i]
			ri := ref.Cfg.Interfaces[i]
			if ri.Monitor {
				continue
			}
			before, _ := normaliseOpt(cfg, true)
			want, wantErr := expectRA(ri, stFor(c.State, i), c02Epoch)
			var first string
			for rep := 0; rep < max(c.Repeat, 1); rep++ {
				ra, _, err := ifi.RouterAdvertisement(c.State.Fwd)
				if wantErr {
					if err == nil {
						return verifkit.Violf("C01/generation-should-fail", "interface %q: a source failed or no RDNSS address is eligible, but an RA was built: %s\n%s", ifi.Name, raString(ra), text)
					}
					continue
				}
				if err != nil {
					return verifkit.Violf("C01/unexpected-error", "interface %q: RouterAdvertisement failed: %v\n%s", ifi.Name, err, text)
				}
				got := raString(ra)
				if rep == 0 {
					first = got
					if w := raString(want); got != w {
						return verifkit.Violf("C01/"+c01DiffKind(want, ra), "interface %q (build %d):\nwant %s\ngot  %s\n%s", ifi.Name, rep, w, got, text)
					}
				} else if got != first {
					return verifkit.Violf("C01/not-idempotent", "interface %q: build %d differs from build 0:\n%s\n%s\n%s", ifi.Name, rep, first, got, text)
				}
			}
			after, _ := normaliseOpt(cfg, true)
			if fmt.Sprintf("%+v", before) != fmt.Sprintf("%+v", after) {
				return verifkit.Violf("C01/configuration-altered", "building the RA of %q changed the configuration:\n%+v\n%+v", ifi.Name, before, after)
			}
			var w *ndp.RouterAdvertisement
			if !wantErr {
				w = want
			} else {
				classes = append(classes, "generation-fails")
			}
			n, cl := c01NonTrivial(ri, w)
			nt = nt || n
			classes = append(classes, cl...)
		}
		if !c.State.Fwd {
			classes = append(classes, "forwarding-off")
		}
		if len(c.State.MAC) == 0 {
			classes = append(classes, "mac-absent")
		} else if len(c.State.MAC) != 6 {
			classes = append(classes, "mac-not-48-bit")
		}
		if c.Repeat > 1 {
			classes = append(classes, "repeat>1")
		}
		slices.Sort(classes)
		k.Record(c, nt, slices.Compact(classes)...)
		return nil
	}
}

// c01DiffKind names what differs, so that signatures separate root causes.
func c01DiffKind(want, got *ndp.RouterAdvertisement) string {
	w, g := *want, *got
	w.Options, g.Options = nil, nil
	if raString(&w) != raString(&g) {
		return "wrong-header"
	}
	kinds := func(os []ndp.Option) string {
		s := ""
		for _, o := range os {
			s += fmt.Sprintf("%T,", o)
		}
		return s
	}
	if kinds(want.Options) != kinds(got.Options) {
		return "wrong-option-list"
	}
	for i := range want.Options {
		if fmt.Sprintf("%+v", want.Options[i]) != fmt.Sprintf("%+v", got.Options[i]) {
			return fmt.Sprintf("wrong-option-value:%T", want.Options[i])
		}
	}
	return "differs"
}

func c01Gen(t *rapid.T) c01Case {
	g := &vg{t: t}
	d := g.genDoc(true, 0)
	return c01Case{Doc: d, State: genSysState(t), Repeat: rapid.IntRange(1, 4).Draw(t, "repeat")}
}

// c01Presence enumerates presence/absence of the eight option kinds x
// {static, wildcard} with minimal values.
func c01Presence(yield func(c01Case) bool) {
	tr, fa := true, false
	eth := "eth0"
	st := sysState{
		Addrs: []system.IP{
			{Address: vkPfx("2001:db8:a:1::1/64")}, {Address: vkPfx("fd00:a:0:1::1/64"), ValidForever: true}, {Address: vkPfx("fe80::1/64")},
		},
		Routes: []system.Route{{Prefix: vkPfx("2001:db8:a::/48"), Index: 1}, {Prefix: vkPfx("2001:db8:a::/64"), Index: 1}},
		MAC:    []byte{0xde, 0xad, 0xbe, 0xef, 0xde, 0xad},
		Fwd:    true,
		NowNS:  int64(time.Second),
	}
	for mask := 0; mask < 256; mask++ {
		for wild := 0; wild < 2; wild++ {
			ifi := dIface{Name: &eth, Advertise: &tr}
			if mask&1 != 0 {
				p := dPrefix{Prefix: dCIDR{Kind: "value", Text: "2001:db8:1::/64", Addr: "2001:db8:1::", Bits: 64}}
				if wild == 1 {
					p.Prefix = dCIDR{Kind: "omit"}
				}
				ifi.Prefixes = []dPrefix{p}
			}
			if mask&2 != 0 {
				r := dRoute{Prefix: dCIDR{Kind: "value", Text: "2001:db8:2::/48", Addr: "2001:db8:2::", Bits: 48}}
				if wild == 1 {
					r.Prefix = dCIDR{Kind: "omit"}
				}
				ifi.Routes = []dRoute{r}
			}
			if mask&4 != 0 {
				r := dRDNSS{Servers: []dAddr{{Text: "2001:db8::53", Kind: "v6", Addr: "2001:db8::53"}}}
				if wild == 1 {
					r.Servers = append(r.Servers, dAddr{Text: "::", Kind: "wildcard"})
				}
				ifi.RDNSS = []dRDNSS{r}
			}
			if mask&8 != 0 {
				ifi.DNSSL = []dDNSSL{{HasKey: true, Domains: []string{"lan"}}}
			}
			if mask&16 != 0 {
				m := int64(1500)
				ifi.MTU = &m
			}
			if mask&32 == 0 {
				ifi.SourceLLA = &fa
			}
			if mask&64 != 0 {
				u := "https://portal.example.com/"
				ifi.CaptivePortal = &u
			}
			if mask&128 != 0 {
				ifi.PREF64 = []dPREF64{{}}
			}
			if !yield(c01Case{Doc: dDoc{Interfaces: []dIface{ifi}}, State: st, Repeat: 2}) {
				return
			}
		}
	}
}

func TestVerif_C01(t *testing.T) {
	k := verifkit.Start(t, "C01")
	prop := c01Prop(k)
	k.Regress(t, func(sub string, raw json.RawMessage) error {
		if strings.HasPrefix(sub, "advertiser") {
			return nil // belongs to the corerad half of C01
		}
		return verifkit.Decode(raw, prop)
	})
	verifkit.Enumerate(k, t, "option-kind-presence-2^8x2", true, c01Presence, prop)
	verifkit.Rapid(k, t, "documents-x-system-state", k.N(6000, 300000), c01Gen, prop)
}

package config

// Normaliser for the /verif harnesses in package config: turns a parsed
// *Config into the plain structure the reference validator produces
// (zz_verif_doc_test.go) and compares the two.

import (
	"fmt"
	"time"

	"github.com/mdlayher/corerad/internal/plugin"
	"github.com/mdlayher/ndp"
)

// ---------------------------------------------------------------------------
// normaliser: parsed *Config -> rConfig

func prefName(p ndp.Preference) string {
	switch p {
	case ndp.Low:
		return "low"
	case ndp.Medium:
		return "medium"
	case ndp.High:
		return "high"
	}
	return fmt.Sprintf("preference(%d)", int(p))
}

func normalise(c *Config) (rConfig, error) { return normaliseOpt(c, false) }

func normaliseOpt(c *Config, allowLLA bool) (rConfig, error) {
	out := rConfig{Debug: rDebug{Address: c.Debug.Address, Prometheus: c.Debug.Prometheus, PProf: c.Debug.PProf}}
	for _, ifi := range c.Interfaces {
		x := rIface{Name: ifi.Name, Monitor: ifi.Monitor, Advertise: ifi.Advertise, Verbose: ifi.Verbose,
			Min: ifi.MinInterval, Max: ifi.MaxInterval, Managed: ifi.Managed, Other: ifi.OtherConfig,
			Reachable: ifi.ReachableTime, Retrans: ifi.RetransmitTimer, HopLimit: int(ifi.HopLimit),
			DefaultLifetime: ifi.DefaultLifetime, UnicastOnly: ifi.UnicastOnly, Preference: prefName(ifi.Preference)}
		if ifi.Monitor {
			x.Preference = ""
			if ifi.Preference != 0 {
				x.Preference = prefName(ifi.Preference)
			}
		}
		for _, p := range ifi.Plugins {
			switch p := p.(type) {
			case *plugin.Prefix:
				x.Plugins = append(x.Plugins, rPlugin{Kind: "prefix", Auto: p.Auto, Prefix: p.Prefix.String(), OnLink: p.OnLink,
					Autonomous: p.Autonomous, Valid: p.ValidLifetime, Preferred: p.PreferredLifetime, Deprecated: p.Deprecated, Epoch: p.Epoch})
			case *plugin.Route:
				x.Plugins = append(x.Plugins, rPlugin{Kind: "route", Auto: p.Auto, Prefix: p.Prefix.String(), Preference: prefName(p.Preference),
					Lifetime: p.Lifetime, Deprecated: p.Deprecated, Epoch: p.Epoch})
			case *plugin.RDNSS:
				pl := rPlugin{Kind: "rdnss", Auto: p.Auto, Lifetime: p.Lifetime}
				for _, s := range p.Servers {
					pl.Servers = append(pl.Servers, s.String())
				}
				x.Plugins = append(x.Plugins, pl)
			case *plugin.DNSSL:
				x.Plugins = append(x.Plugins, rPlugin{Kind: "dnssl", Lifetime: p.Lifetime, Domains: append([]string(nil), p.DomainNames...)})
			case *plugin.MTU:
				x.Plugins = append(x.Plugins, rPlugin{Kind: "mtu", MTU: int(*p)})
			case *plugin.LLA:
				if p.Addr != nil && !allowLLA {
					return out, fmt.Errorf("LLA plugin has an address before Prepare: %v", p.Addr)
				}
				x.Plugins = append(x.Plugins, rPlugin{Kind: "lla"})
			case *plugin.CaptivePortal:
				x.Plugins = append(x.Plugins, rPlugin{Kind: "captive-portal", URI: p.Portal.URI})
			case *plugin.PREF64:
				x.Plugins = append(x.Plugins, rPlugin{Kind: "pref64", Prefix: p.Inner.Prefix.Masked().String(), Lifetime: p.Inner.Lifetime})
			default:
				return out, fmt.Errorf("unknown plugin type %T", p)
			}
		}
		out.Interfaces = append(out.Interfaces, x)
	}
	return out, nil
}

// diff compares the expected and the actual configuration.
func (want rConfig) diff(got rConfig) string { return want.diffOpt(got, false) }

func (want rConfig) diffOpt(got rConfig, ignorePREF64Lifetime bool) string {
	if want.DebugSpec {
		if want.Debug != got.Debug {
			return fmt.Sprintf("debug: want %+v got %+v", want.Debug, got.Debug)
		}
	} else if got.Debug.Address != "" {
		return fmt.Sprintf("debug: want no address got %+v", got.Debug)
	}
	if len(want.Interfaces) != len(got.Interfaces) {
		return fmt.Sprintf("want %d interfaces got %d", len(want.Interfaces), len(got.Interfaces))
	}
	for i := range want.Interfaces {
		w, g := want.Interfaces[i], got.Interfaces[i]
		if w.Monitor {
			w.Preference = g.Preference // monitor interfaces carry no advertising settings; preference is the zero value whatever its name
			if g.Preference != "medium" && g.Preference != "" {
				return fmt.Sprintf("interface %d (monitor): carries preference %q", i, g.Preference)
			}
		}
		wp, gp := w.Plugins, g.Plugins
		w.Plugins, g.Plugins = nil, nil
		if fmt.Sprintf("%+v", w) != fmt.Sprintf("%+v", g) {
			return fmt.Sprintf("interface %d: want %+v got %+v", i, w, g)
		}
		if len(wp) != len(gp) {
			return fmt.Sprintf("interface %d: want %d plugins %+v, got %d %+v", i, len(wp), wp, len(gp), gp)
		}
		for j := range wp {
			a, b := wp[j], gp[j]
			if !a.Epoch.Equal(b.Epoch) {
				return fmt.Sprintf("interface %d plugin %d: epoch want %v got %v", i, j, a.Epoch, b.Epoch)
			}
			a.Epoch, b.Epoch = time.Time{}, time.Time{}
			if ignorePREF64Lifetime && a.Kind == "pref64" && b.Kind == "pref64" {
				a.Lifetime, b.Lifetime = 0, 0
			}
			if fmt.Sprintf("%+v", a) != fmt.Sprintf("%+v", b) {
				return fmt.Sprintf("interface %d plugin %d: want %+v got %+v", i, j, a, b)
			}
		}
	}
	return ""
}


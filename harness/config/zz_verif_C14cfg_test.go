package config

// C14 at the configuration level: "statically configured servers follow [the
// automatic pick], sorted and without duplicates". The plugin-level check
// (package plugin) starts from an RDNSS plugin value; this part starts from
// the TOML text, where one address has many spellings, and follows it through
// config.Parse into the option that Apply produces.

import (
	"encoding/json"
	"fmt"
	"net/netip"
	"sort"
	"strings"
	"testing"
	"time"

	"github.com/mdlayher/corerad/internal/plugin"
	"github.com/mdlayher/corerad/internal/system"
	"github.com/mdlayher/corerad/internal/verifkit"
	"github.com/mdlayher/ndp"
	"pgregory.net/rapid"
)

type c14cfgCase struct {
	Servers []string `json:"servers"` // as written in the configuration
}

// c14Spellings are textual forms of a handful of addresses.
var c14Spellings = map[string][]string{
	"2001:db8::1":  {"2001:db8::1", "2001:0db8::1", "2001:DB8:0::1", "2001:db8:0:0:0:0:0:1"},
	"2001:db8::53": {"2001:db8::53", "2001:0db8:0000:0000:0000:0000:0000:0053", "2001:DB8::53"},
	"fd00::53":     {"fd00::53", "FD00::53", "fd00:0::53"},
	"::1":          {"::1", "0:0:0:0:0:0:0:1"},
	"::":           {"::", "0::", "0:0:0:0:0:0:0:0", "::0"},
	"192.0.2.1":    {"192.0.2.1", "::ffff:192.0.2.1"},
}

func c14cfgProp(k *verifkit.Kit) func(c c14cfgCase) error {
	return func(c c14cfgCase) error {
		var quoted []string
		seen := map[netip.Addr]int{}
		valid := true
		for _, s := range c.Servers {
			quoted = append(quoted, fmt.Sprintf("%q", s))
			ip, err := netip.ParseAddr(s)
			if err != nil || !ip.Is6() || ip.Is4In6() {
				valid = false
				continue
			}
			seen[ip]++
			if seen[ip] > 1 {
				valid = false // the same address twice, however it is spelled (:: included)
			}
		}
		spellings := 0
		for _, s := range c.Servers {
			if ip, err := netip.ParseAddr(s); err == nil && ip.String() != s {
				spellings++
			}
		}
		k.Record(c, len(c.Servers) >= 2 && spellings >= 1, fmt.Sprintf("cfg-rdnss:valid=%v", valid))
		doc := "[[interfaces]]\nname = \"eth0\"\nadvertise = true\n  [[interfaces.rdnss]]\n  servers = [" + strings.Join(quoted, ", ") + "]\n"
		cfg, err := Parse(strings.NewReader(doc), time.Unix(1, 0))
		if err != nil {
			if valid {
				return verifkit.Violf("C14/valid-servers-rejected", "distinct IPv6 servers rejected: %v\n%s", err, doc)
			}
			return nil
		}
		if !valid {
			return verifkit.Violf("C14/duplicate-or-bad-server-accepted", "a server list with a repeated address (in another spelling) or a non-IPv6 entry was accepted:\n%s", doc)
		}
		var rd *plugin.RDNSS
		for _, p := range cfg.Interfaces[0].Plugins {
			if x, ok := p.(*plugin.RDNSS); ok {
				rd = x
			}
		}
		if rd == nil {
			return verifkit.Violf("C14/no-rdnss-plugin", "no RDNSS plugin for\n%s", doc)
		}
		var want []netip.Addr
		_, auto := seen[netip.IPv6Unspecified()]
		if len(c.Servers) == 0 {
			auto = true
		}
		for ip := range seen {
			if !ip.IsUnspecified() {
				want = append(want, ip)
			}
		}
		sort.Slice(want, func(i, j int) bool { return want[i].Less(want[j]) })
		best := netip.MustParseAddr("fd00:aaaa::1")
		if auto {
			want = append([]netip.Addr{best}, want...)
		}
		rd.Addrs = func() ([]system.IP, error) {
			return []system.IP{{Address: netip.PrefixFrom(best, 64), ValidForever: true}, {Address: netip.MustParsePrefix("fe80::1/64")}}, nil
		}
		for rep := 0; rep < 2; rep++ {
			ra := &ndp.RouterAdvertisement{}
			if err := rd.Apply(ra); err != nil {
				return verifkit.Violf("C14/apply-fails", "Apply: %v\n%s", err, doc)
			}
			if len(ra.Options) != 1 {
				return verifkit.Violf("C14/option-count", "%d options\n%s", len(ra.Options), doc)
			}
			got := ra.Options[0].(*ndp.RecursiveDNSServer).Servers
			if fmt.Sprint(got) != fmt.Sprint(want) {
				return verifkit.Violf("C14/servers-not-sorted-unique", "advertised servers %v, want %v (application %d)\n%s", got, want, rep+1, doc)
			}
		}
		return nil
	}
}

func c14cfgGen(t *rapid.T) c14cfgCase {
	var keys []string
	for k := range c14Spellings {
		keys = append(keys, k)
	}
	sort.Strings(keys)
	var c c14cfgCase
	for i, n := 0, rapid.IntRange(0, 6).Draw(t, "n"); i < n; i++ {
		key := rapid.SampledFrom(keys[:len(keys)-0]).Draw(t, "addr")
		if key == "192.0.2.1" && rapid.IntRange(0, 3).Draw(t, "v4") != 0 {
			key = "fd00::53"
		}
		c.Servers = append(c.Servers, rapid.SampledFrom(c14Spellings[key]).Draw(t, "spelling"))
	}
	return c
}

func TestVerif_C14cfg(t *testing.T) {
	k := verifkit.Start(t, "C14")
	prop := c14cfgProp(k)
	k.Regress(t, func(sub string, raw json.RawMessage) error {
		if !strings.HasPrefix(sub, "cfg-") {
			return nil
		}
		return verifkit.Decode(raw, prop)
	})
	verifkit.Rapid(k, t, "cfg-server-spellings", k.N(20000, 1000000), c14cfgGen, prop)
}

package config

// Native (coverage-guided) fuzz target for C02 on arbitrary bytes: Parse never
// panics, and whatever it accepts satisfies every documented range (c02Accepted). Used by the thorough tier only; the saved
// crasher file is the replay unit (./check C02 --replay <file>).

import (
	"bytes"
	"fmt"
	"os"
	"testing"
)

func FuzzVerif_C02(f *testing.F) {
	f.Add([]byte(fmt.Sprintf(Minimal, "verif")))
	if b, err := os.ReadFile("reference.toml"); err == nil {
		f.Add(b)
	}
	for _, s := range c02Corpus {
		f.Add([]byte(s))
	}
	for _, s := range []string{
		"[[interfaces]]\nname = \"e\"\nmax_interval = \"-9223372036854775808ns\"\n",
		"[[interfaces]]\nname = \"e\"\nhop_limit = 99999999999999999999\n",
		"[[interfaces]]\nnames = [\"a\", 1]\n",
		"[[interfaces]]\nname = \"e\"\n[[interfaces.prefix]]\nprefix = \"::/64\"\nvalid_lifetime = \"2562047h47m16.854775807s\"\n",
		"[[interfaces]]\nname = \"e\"\n[[interfaces.rdnss]]\nservers = [\"::\", \"::\"]\n",
		"[interfaces]\nname = \"e\"\n",
		"interfaces = 1\n",
		"[[interfaces]]\nname = \"e\"\nmtu = 1.5\nsource_lla = \"yes\"\n",
		"[[interfaces]]\nname = \"e\"\n[[interfaces.pref64]]\nprefix = \"::ffff:0:0/96\"\n",
		"[[interfaces]]\nname = \"e\"\ncaptive_portal = \"http://[::1]/\"\n",
		"\xff\xfe[[interfaces]]",
	} {
		f.Add([]byte(s))
	}
	f.Fuzz(func(t *testing.T, data []byte) {
		// no [debug] address: Parse would try to resolve host names
		if bytes.Contains(data, []byte("address")) {
			return
		}
		c, err := Parse(bytes.NewReader(data), c02Epoch)
		if err != nil {
			return
		}
		if err := c02Accepted(c); err != nil {
			t.Fatalf("accepted configuration violates a documented constraint: %v", err)
		}
	})
}

package netstate

// C19: link-state subscribers get exactly what they asked for and the watcher
// never blocks. Oracle: a bounded-FIFO model per subscriber (capacity 8)
// driven by the same action sequence as the real Watcher, whose OS hook is
// replaced by a scripted event source (as the repository's own test does);
// events are built from rtnetlink link messages through the real process().

import (
	"context"
	"encoding/json"
	"errors"
	"fmt"
	"sync"
	"testing"
	"testing/synctest"
	"time"

	"github.com/jsimonetti/rtnetlink"
	"github.com/mdlayher/corerad/internal/verifkit"
	"pgregory.net/rapid"
)

type c19Link struct {
	Iface string `json:"iface"`
	Oper  int    `json:"oper"` // rtnetlink operational state; 99 = unknown value; -1 = message without attributes
}

type c19Action struct {
	Kind  string    `json:"kind"` // subscribe notify drain end
	Iface string    `json:"iface,omitempty"`
	Mask  uint      `json:"mask,omitempty"`
	Links []c19Link `json:"links,omitempty"`
	Sub   int       `json:"sub,omitempty"`
	N     int       `json:"n,omitempty"`
}

type c19Case struct {
	Actions []c19Action `json:"actions"`
}

var c19OperChange = map[int]Change{
	int(rtnetlink.OperStateUnknown):        LinkUnknown,
	int(rtnetlink.OperStateNotPresent):     LinkNotPresent,
	int(rtnetlink.OperStateDown):           LinkDown,
	int(rtnetlink.OperStateLowerLayerDown): LinkLowerLayerDown,
	int(rtnetlink.OperStateTesting):        LinkTesting,
	int(rtnetlink.OperStateDormant):        LinkDormant,
	int(rtnetlink.OperStateUp):             LinkUp,
}

type c19Sub struct {
	iface  string
	mask   Change
	ch     <-chan Change
	queue  []Change
	before bool // registered before the end of the watch
}

func c19Prop(t *testing.T, k *verifkit.Kit) func(c c19Case) error {
	return func(c c19Case) error {
		delivered, filtered, dropped := 0, 0, 0
		var verr error
		fail := func(sig, format string, a ...any) { verr = verifkit.Violf(sig, format, a...) }
		func() {
			defer func() {
				if r := recover(); r != nil {
					s := fmt.Sprint(r)
					if verr == nil {
						verr = verifkit.Violf("C19/panic-or-deadlock", "%s", s)
					}
				}
			}()
			synctest.Test(t, func(*testing.T) {
				w := NewWatcher()
				var (
					mu       sync.Mutex
					notifyFn func(changeSet)
				)
				endC := make(chan struct{})
				started := make(chan struct{})
				var post []rtnetlink.Message // messages already received when the watch is cancelled
				var endErr error             // what the scripted watch function returns
				w.watch = func(ctx context.Context, notify func(changeSet)) error {
					mu.Lock()
					notifyFn = notify
					mu.Unlock()
					close(started)
					select {
					case <-endC:
					case <-ctx.Done():
					}
					// as osWatch does: a batch that Receive() had already returned when the
					// context was cancelled is still delivered before the watch function returns
					mu.Lock()
					p := post
					mu.Unlock()
					if len(p) > 0 {
						notify(process(p))
					}
					// the event source may also end with an error (a failing Receive, as osWatch reports it)
					mu.Lock()
					defer mu.Unlock()
					return endErr
				}
				// no cancellation on the failure paths: a notifier blocked while holding the
				// watcher's lock must leave every goroutine durably blocked (channel
				// operations), so that the bubble ends with a recoverable deadlock panic
				// instead of a goroutine waiting on a mutex, which synctest cannot see
				watchDone := make(chan struct{})
				wctx, wcancel := context.WithCancel(context.Background())
				_ = wcancel // only called by the "end" action, never on a failure path
				var watchErr error
				go func() { watchErr = w.Watch(wctx); close(watchDone) }()
				<-started
				var subs []*c19Sub
				ended := false
				check := func(step int) bool {
					for i, s := range subs {
						if len(s.ch) != len(s.queue) && !(ended && s.before) {
							fail("C19/queue-length-differs", "step %d: subscriber %d (%s mask %b) holds %d events, model %d", step, i, s.iface, uint(s.mask), len(s.ch), len(s.queue))
							return false
						}
					}
					return true
				}
				for step, a := range c.Actions {
					switch a.Kind {
					case "subscribe":
						if a.Mask == 0 {
							continue
						}
						ch := w.Subscribe(a.Iface, Change(a.Mask))
						subs = append(subs, &c19Sub{iface: a.Iface, mask: Change(a.Mask), ch: ch, before: !ended})
					case "notify":
						if ended {
							continue
						}
						var msgs []rtnetlink.Message
						for _, l := range a.Links {
							m := &rtnetlink.LinkMessage{}
							if l.Oper >= 0 {
								m.Attributes = &rtnetlink.LinkAttributes{Name: l.Iface, OperationalState: rtnetlink.OperationalState(l.Oper)}
							}
							msgs = append(msgs, m)
							ch, ok := c19OperChange[l.Oper]
							if !ok {
								continue
							}
							for _, s := range subs {
								switch {
								case s.iface != l.Iface || s.mask&ch == 0:
									filtered++
								case len(s.queue) >= 8:
									dropped++
								default:
									s.queue = append(s.queue, ch)
									delivered++
								}
							}
						}
						finished := false
						go func() {
							mu.Lock()
							fn := notifyFn
							mu.Unlock()
							fn(process(msgs))
							finished = true
						}()
						synctest.Wait()
						if !finished {
							fail("C19/notify-blocks", "step %d: notify is blocked (a subscriber's buffer is full?)", step)
							return
						}
					case "drain":
						if len(subs) == 0 {
							continue
						}
						s := subs[a.Sub%len(subs)]
						for i := 0; i < a.N; i++ {
							select {
							case got, ok := <-s.ch:
								if !ok {
									if !(ended && s.before) || len(s.queue) > 0 {
										fail("C19/closed-early", "step %d: channel closed with %d events outstanding (ended=%v)", step, len(s.queue), ended)
										return
									}
									i = a.N
									continue
								}
								if len(s.queue) == 0 {
									fail("C19/unexpected-event", "step %d: subscriber (%s mask %b) received %v, model expects nothing", step, s.iface, uint(s.mask), got)
									return
								}
								if got != s.queue[0] {
									fail("C19/wrong-event-or-order", "step %d: subscriber (%s mask %b) received %v, model expects %v", step, s.iface, uint(s.mask), got, s.queue[0])
									return
								}
								s.queue = s.queue[1:]
							default:
								if len(s.queue) > 0 && !(ended && s.before) {
									fail("C19/event-missing", "step %d: subscriber (%s mask %b) has nothing to read, model expects %v", step, s.iface, uint(s.mask), s.queue[0])
									return
								}
								if ended && s.before {
									fail("C19/not-closed-at-end", "step %d: channel of a subscriber registered before the end is not closed", step)
									return
								}
							}
						}
					case "end":
						if ended {
							continue
						}
						ended = true
						// a last batch in flight at the moment of cancellation
						var msgs []rtnetlink.Message
						for _, l := range a.Links {
							m := &rtnetlink.LinkMessage{}
							if l.Oper >= 0 {
								m.Attributes = &rtnetlink.LinkAttributes{Name: l.Iface, OperationalState: rtnetlink.OperationalState(l.Oper)}
							}
							msgs = append(msgs, m)
							ch, ok := c19OperChange[l.Oper]
							if !ok {
								continue
							}
							for _, s := range subs {
								switch {
								case s.iface != l.Iface || s.mask&ch == 0:
									filtered++
								case len(s.queue) >= 8:
									dropped++
								default:
									s.queue = append(s.queue, ch)
									delivered++
								}
							}
						}
						mu.Lock()
						post = msgs
						mu.Unlock()
						switch a.N % 3 {
						case 0:
							wcancel() // the watch ends because its context is cancelled (as in production)
						case 1:
							close(endC) // ... or because the event source ended
						default:
							mu.Lock()
							endErr = errors.New("verif: the event source failed") // ... or failed
							mu.Unlock()
							close(endC)
						}
						select {
						case <-watchDone:
						case <-time.After(time.Minute):
							fail("C19/watch-does-not-end", "Watch did not return")
							return
						}
						if (a.N%3 == 2) != (watchErr != nil) {
							fail("C19/watch-result", "end kind %d: Watch returned %v", a.N%3, watchErr)
							return
						}
					}
					if !check(step) {
						return
					}
				}
				if !ended {
					ended = true
					wcancel()
					<-watchDone
				}
				// every channel registered before the end drains to the model's remainder and is closed
				for i, s := range subs {
					if !s.before {
						continue
					}
					for _, want := range s.queue {
						got, ok := <-s.ch
						if !ok || got != want {
							fail("C19/remainder-differs", "subscriber %d: remainder want %v got %v (open=%v)", i, want, got, ok)
							return
						}
					}
					select {
					case _, ok := <-s.ch:
						if ok {
							fail("C19/unexpected-event", "subscriber %d: extra event after the end", i)
							return
						}
					default:
						fail("C19/not-closed-at-end", "subscriber %d: channel not closed when watching ended", i)
						return
					}
				}
			})
		}()
		cls := []string{fmt.Sprintf("actions/8=%d", min(len(c.Actions)/8, 6))}
		if dropped > 0 {
			cls = append(cls, "overflow-dropped")
		}
		k.Record(c, delivered >= 1 && (filtered >= 1 || dropped >= 1), cls...)
		return verr
	}
}

// (names that are prefixes of one another, as eth1 / eth10 / eth1.100 are on a real router: a subscription is for exactly one name)
var c19Ifaces = []string{"eth0", "eth1", "lo", "eth10", "eth1.100", "e"}

func c19Gen(t *rapid.T) c19Case {
	var c c19Case
	n := rapid.IntRange(1, 40).Draw(t, "n")
	for i := 0; i < n; i++ {
		switch rapid.IntRange(0, 9).Draw(t, "kind") {
		case 0, 1:
			// half of the masks come from a small set so that several subscribers share
			// the same (interface, mask) registration
			mask := uint(rapid.IntRange(1, 127).Draw(t, "mask"))
			if rapid.Bool().Draw(t, "commonmask") {
				mask = rapid.SampledFrom([]uint{uint(LinkDown), uint(LinkUp), uint(LinkUp | LinkDown), uint(LinkAny)}).Draw(t, "mask2")
			}
			c.Actions = append(c.Actions, c19Action{Kind: "subscribe", Iface: rapid.SampledFrom(c19Ifaces).Draw(t, "iface"), Mask: mask})
		case 2, 3:
			c.Actions = append(c.Actions, c19Action{Kind: "drain", Sub: rapid.IntRange(0, 7).Draw(t, "sub"), N: rapid.IntRange(1, 10).Draw(t, "n")})
		case 4:
			if rapid.IntRange(0, 3).Draw(t, "end") == 0 {
				a := c19Action{Kind: "end", N: rapid.IntRange(0, 2).Draw(t, "endkind")}
				for j, m := 0, rapid.IntRange(0, 3).Draw(t, "inflight"); j < m; j++ {
					a.Links = append(a.Links, c19Link{Iface: rapid.SampledFrom(c19Ifaces).Draw(t, "eiface"), Oper: rapid.SampledFrom([]int{2, 6, 5}).Draw(t, "eoper")})
				}
				c.Actions = append(c.Actions, a)
			}
		default:
			a := c19Action{Kind: "notify"}
			if rapid.IntRange(0, 4).Draw(t, "longbatch") == 0 {
				// a long batch for (mostly) one interface, dominated by one kind of
				// change: more changes than a subscriber can buffer arrive in one
				// batch, of which a selective mask matches only a few, late ones
				iface, dom := rapid.SampledFrom(c19Ifaces).Draw(t, "lbiface"), rapid.SampledFrom([]int{2, 6, 5, 1}).Draw(t, "lbdom")
				for j, m := 0, rapid.IntRange(9, 30).Draw(t, "lbn"); j < m; j++ {
					l := c19Link{Iface: iface, Oper: dom}
					if rapid.IntRange(0, 3).Draw(t, "lbother") == 0 {
						l.Oper = rapid.SampledFrom([]int{0, 1, 2, 3, 4, 5, 6}).Draw(t, "lboper")
					}
					if rapid.IntRange(0, 9).Draw(t, "lbotheriface") == 0 {
						l.Iface = rapid.SampledFrom(c19Ifaces).Draw(t, "lbiface2")
					}
					a.Links = append(a.Links, l)
				}
				c.Actions = append(c.Actions, a)
				continue
			}
			for j, m := 0, rapid.IntRange(1, 12).Draw(t, "nlinks"); j < m; j++ {
				a.Links = append(a.Links, c19Link{Iface: rapid.SampledFrom(c19Ifaces).Draw(t, "liface"), Oper: rapid.SampledFrom([]int{0, 1, 2, 3, 4, 5, 6, 6, 2, 99, -1}).Draw(t, "oper")})
			}
			c.Actions = append(c.Actions, a)
		}
	}
	return c
}

// c19Singles: 127 masks x 7 single changes x {same, other interface}.
func c19Singles(yield func(c19Case) bool) {
	for mask := uint(1); mask <= 127; mask++ {
		for oper := 0; oper <= 6; oper++ {
			for _, other := range []bool{false, true} {
				iface := "eth0"
				if other {
					iface = "eth1"
				}
				c := c19Case{Actions: []c19Action{
					{Kind: "subscribe", Iface: "eth0", Mask: mask},
					{Kind: "notify", Links: []c19Link{{Iface: iface, Oper: oper}}},
					{Kind: "drain", Sub: 0, N: 2},
					{Kind: "end"},
				}}
				if !yield(c) {
					return
				}
			}
		}
	}
	// overflow: 8 slots exactly, 9th dropped, then drained and refilled
	var many []c19Link
	for i := 0; i < 9; i++ {
		many = append(many, c19Link{Iface: "eth0", Oper: []int{6, 2}[i%2]})
	}
	for n := 0; n < 2; n++ {
		yield(c19Case{Actions: []c19Action{{Kind: "subscribe", Iface: "eth0", Mask: uint(LinkDown)}, {Kind: "notify", Links: []c19Link{{Iface: "eth0", Oper: 6}}},
			{Kind: "end", N: n, Links: []c19Link{{Iface: "eth0", Oper: 2}, {Iface: "eth0", Oper: 6}}}, {Kind: "drain", Sub: 0, N: 4}}})
	}
	yield(c19Case{Actions: []c19Action{{Kind: "subscribe", Iface: "eth0", Mask: 127}, {Kind: "notify", Links: many}, {Kind: "notify", Links: many[:3]},
		{Kind: "drain", Sub: 0, N: 3}, {Kind: "notify", Links: many[:5]}, {Kind: "end"}, {Kind: "drain", Sub: 0, N: 10}}})
}

func TestVerif_C19(t *testing.T) {
	k := verifkit.Start(t, "C19")
	prop := c19Prop(t, k)
	k.Regress(t, func(sub string, raw json.RawMessage) error { return verifkit.Decode(raw, prop) })
	verifkit.Enumerate(k, t, "mask-x-change-x-interface", true, c19Singles, prop)
	verifkit.Rapid(k, t, "subscribe-notify-drain-end-sequences", k.N(3000, 1000000), c19Gen, prop)
}

// TestVerif_C19race runs Subscribe, notify and the end of the watch from
// separate goroutines; it is built with the race detector.
func TestVerif_C19race(t *testing.T) {
	k := verifkit.Start(t, "C19")
	n := k.N(300, 2000)
	part := verifkit.Part{Name: "concurrent-subscribe-notify-end(race build)", Kind: "rapid", Requested: int64(n)}
	for i := 0; i < n; i++ {
		c := c19Case{Actions: []c19Action{{Kind: "concurrent", N: i}}}
		k.Journal(part.Name, c)
		k.Record(c, true, "race-run")
		w := NewWatcher()
		started := make(chan struct{})
		// as osWatch does, notifications are issued by the watch function itself;
		// Subscribe calls race with them and with the end of the watch
		w.watch = func(ctx context.Context, notify func(changeSet)) error {
			close(started)
			var nwg sync.WaitGroup
			for g := 0; g < 3; g++ {
				nwg.Add(1)
				go func(g int) {
					defer nwg.Done()
					for j := 0; j < 30; j++ {
						notify(changeSet{c19Ifaces[(g+j)%3]: {LinkUp, LinkDown, LinkDormant}})
					}
				}(g)
			}
			nwg.Wait()
			return nil
		}
		done := make(chan struct{})
		go func() { _ = w.Watch(context.Background()); close(done) }()
		<-started
		var wg sync.WaitGroup
		chans := make([][]<-chan Change, 4)
		for g := 0; g < 4; g++ {
			wg.Add(1)
			go func(g int) {
				defer wg.Done()
				for j := 0; j < 20; j++ {
					chans[g] = append(chans[g], w.Subscribe(c19Ifaces[(g+j)%3], Change(1+(i+j+g)%127)))
				}
			}(g)
		}
		finished := make(chan struct{})
		go func() { wg.Wait(); <-done; close(finished) }()
		select {
		case <-finished:
		case <-time.After(30 * time.Second):
			// real time is only a hang guard and never a verdict: the deterministic
			// (virtual-time) half of this check decides whether notify can block
			t.Fatalf("verif: concurrent run did not finish within 30 s of real time (inconclusive)")
		}
		// what the subscribers of the concurrent run were given: only changes inside their mask, only changes that
		// were notified, never more than the buffer holds (whether a channel is closed depends on whether its
		// subscription came before the end of the watch, which this run does not fix)
		for g := range chans {
			for j, ch := range chans[g] {
				mask := Change(1 + (i+j+g)%127)
				got := 0
			drain:
				for {
					select {
					case ev, ok := <-ch:
						if !ok {
							break drain
						}
						got++
						if ev&mask == 0 || (ev != LinkUp && ev != LinkDown && ev != LinkDormant) {
							if err := k.Judge(part.Name, c, verifkit.Violf("C19/concurrent-wrong-event", "subscriber %d/%d (mask %d) was given change %d", g, j, mask, ev)); err != nil {
								t.Fatalf("%v", err)
							}
						}
					default:
						break drain
					}
				}
				if got > 8 {
					if err := k.Judge(part.Name, c, verifkit.Violf("C19/concurrent-buffer", "subscriber %d/%d holds %d changes, more than the documented buffer of 8", g, j, got)); err != nil {
						t.Fatalf("%v", err)
					}
				}
			}
		}
		part.Done++
	}
	part.Complete = true
	k.AddPart(part)

	// Simultaneous first subscribers: several goroutines subscribe to an interface nobody has subscribed to yet, all
	// released at the same moment (they queue up behind the watcher's lock, which the test holds for an instant, as a
	// notification in progress would). Every one of them must get the change that follows and see its channel closed.
	n2 := k.N(200, 2000)
	part2 := verifkit.Part{Name: "simultaneous-first-subscribers(race build)", Kind: "rapid", Requested: int64(n2)}
	for i := 0; i < n2; i++ {
		c := c19Case{Actions: []c19Action{{Kind: "simultaneous-subscribe", N: i}}}
		k.Journal(part2.Name, c)
		k.Record(c, true, "simultaneous-first-subscribers")
		w := NewWatcher()
		iface := c19Ifaces[i%len(c19Ifaces)]
		nsub := 2 + i%5
		release := make(chan struct{})
		w.watch = func(ctx context.Context, notify func(changeSet)) error {
			<-release
			notify(changeSet{iface: {LinkUp}})
			return nil
		}
		chans := make([]<-chan Change, nsub)
		var wg sync.WaitGroup
		w.mu.Lock()
		for g := 0; g < nsub; g++ {
			wg.Add(1)
			go func() { defer wg.Done(); chans[g] = w.Subscribe(iface, LinkUp|Change(1<<uint(g%7))) }()
		}
		time.Sleep(200 * time.Microsecond) // let them reach the lock (if some have not, they simply subscribe a moment later)
		w.mu.Unlock()
		wg.Wait()
		done := make(chan struct{})
		go func() { _ = w.Watch(context.Background()); close(done) }()
		close(release)
		select {
		case <-done:
		case <-time.After(30 * time.Second):
			t.Fatalf("verif: Watch did not return within 30 s of real time (inconclusive)")
		}
		for g, ch := range chans {
			got, open := 0, true
			for open {
				select {
				case _, ok := <-ch:
					if !ok {
						open = false
					} else {
						got++
					}
				default:
					if err := k.Judge(part2.Name, c, verifkit.Violf("C19/subscriber-lost", "%d goroutines subscribed to %q at the same moment; after one link-up and the end of the watch subscriber %d has received %d changes and its channel is still open (want 1, closed)", nsub, iface, g, got)); err != nil {
						t.Fatal(err)
					}
					open = false
					got = 1
				}
			}
			if got != 1 {
				if err := k.Judge(part2.Name, c, verifkit.Violf("C19/subscriber-lost", "%d goroutines subscribed to %q at the same moment; subscriber %d received %d changes for one link-up", nsub, iface, g, got)); err != nil {
					t.Fatal(err)
				}
			}
		}
		part2.Done++
	}
	part2.Complete = true
	k.AddPart(part2)
}

package main

// Whole-process checks: the unmodified main() of cmd/corerad runs as a real
// child process (this test binary re-executed with VERIF_E2E_CHILD=1) against
// the fake operating system of internal/system/zz_verif_fakeos.go: real flag
// parsing, configuration file, epoch = process start, signal.Notify, systemd
// notification socket, HTTP debug listener, link watcher, BuildTasks, Serve,
// advertisers and monitors with the real Dialer and dial(). Cases are
// generated from the shared document model; the oracles are the same
// expected-RA builder the in-process checks use, the event log of the fake
// OS, the exit status and the notification socket.
//
// Real time is involved, so: every lifetime that counts down is compared
// against the interval implied by [spawn, ready] x [request, response]; a
// case that exceeds a generous time budget is retried and then skipped
// (counted), never reported; and a violation is reported only if it
// reproduces when the case is run a second time.

import (
	"bufio"
	"bytes"
	"encoding/hex"
	"encoding/json"
	"fmt"
	"io"
	"net"
	"net/http"
	"net/netip"
	"os"
	"os/exec"
	"path/filepath"
	"sort"
	"strings"
	"sync"
	"syscall"
	"testing"
	"time"

	"github.com/mdlayher/corerad/internal/system"
	"github.com/mdlayher/corerad/internal/verifkit"
	"github.com/mdlayher/ndp"
	"golang.org/x/net/idna"
	"pgregory.net/rapid"
)

func TestMain(m *testing.M) {
	if os.Getenv("VERIF_E2E_CHILD") == "1" {
		os.Args = []string{"corerad", "-c", os.Getenv("VERIF_E2E_CFG")}
		main() // returns after a clean shutdown; fatal errors exit(1) by themselves
		os.Exit(0)
	}
	os.Exit(m.Run())
}

type e2eCase struct {
	Doc             dDoc     `json:"doc"`
	State           sysState `json:"state"`
	Sig             string   `json:"signal"`    // TERM INT HUP
	Solicit         bool     `json:"solicit"`   // a valid and an invalid (hop limit 64) RS arrive on every advertising interface
	WaitMS          int      `json:"wait_ms"`   // time between readiness and the signal
	Missing         []int    `json:"missing"`   // indices (into the expanded interface list) of interfaces that do not exist
	PortBusy        bool     `json:"port_busy"` // the debug address is already in use: the HTTP task fails
	Prom            bool     `json:"prometheus"`
	Restart         bool     `json:"restart"`        // run the same configuration twice (the epoch is the start of each process)
	Early           bool     `json:"early"`          // the signal arrives while main() is still between signal.Notify and Serve
	FailIdx         int      `json:"fail_interface"` // >0: the (FailIdx-1)-th advertising/monitoring interface hits a fatal receive error FailMS after it came up; no signal is sent
	FailMS          int      `json:"fail_after_ms"`
	FailRecoverable bool     `json:"fail_recoverable"` // the receive error is ENETDOWN on the first connection only: the task must re-dial, and the signal is sent afterwards
	LateIdx         int      `json:"late_interface"`   // >0: the (LateIdx-1)-th advertising/monitoring interface does not exist for its first LateN lookups
	LateN           int      `json:"late_lookups"`
	Traffic         bool     `json:"traffic"` // besides the solicitations: a foreign RA with the M flag flipped (and one with hop limit 64) on advertising interfaces; an RA, its hop-limit-64 copy and an RS on monitoring interfaces; /metrics is read again afterwards
	Unspec          bool     `json:"unspec"`  // with Traffic: a solicitation from :: as well; the second scrape waits for the multicast RA that answers it (3 s after the initial RA)
	Flip            bool     `json:"flip"`    // the forwarding state of every interface is inverted once the process is up; API and /metrics are read again, and a solicitation 1.2 s after start is answered with the new state
	Overlap         bool     `json:"overlap"` // forwarding reads take 2 ms and /metrics is requested three times at once
}

type e2eProbe struct {
	Q, R   time.Time
	Status int
	Body   []byte
}

type e2eRun struct {
	Spawn, Ready, SigAt, Exit time.Time
	ExitCode                  int
	ExitSignal                string
	Stderr                    string
	Events                    []system.VkEvent
	Notes                     []string
	Probes                    []e2eProbe
	Metrics, Metrics2         e2eProbe
	MetricsPar                []e2eProbe // three requests served at the same time
	FlipAt                    time.Time
	FlipProbe, FlipMetrics    e2eProbe
	ReadyNote                 bool   // READY=1 seen before the signal was sent
	Hung                      string // non-empty: the process had to be killed (why)
	FailIface                 string // the interface whose task fails by itself (fail mode)
	RecoverIface              string // the interface whose first connection hits a recoverable receive error
	LateIface                 string // the interface that appears only after some lookups
	Ifaces                    []rIface
	World                     system.VkWorld
}

type lockedBuffer struct {
	mu sync.Mutex
	b  bytes.Buffer
}

func (l *lockedBuffer) Write(p []byte) (int, error) {
	l.mu.Lock()
	defer l.mu.Unlock()
	return l.b.Write(p)
}

func (l *lockedBuffer) String() string {
	l.mu.Lock()
	defer l.mu.Unlock()
	return l.b.String()
}

type e2eSkip struct{ why string }

func (e e2eSkip) Error() string { return "inconclusive: " + e.why }

const e2eBudget = 30 * time.Second
const e2eSentinel = "VERIF-END-OF-NOTIFICATIONS"

func e2eName(ri rIface) string { return ri.Name }

// e2eExecute runs one child process for the case.
func e2eExecute(c e2eCase, cfg rConfig) (*e2eRun, error) {
	dir, err := os.MkdirTemp("", "verif-e2e-")
	if err != nil {
		return nil, e2eSkip{err.Error()}
	}
	defer os.RemoveAll(dir)
	l, err := net.Listen("tcp", "127.0.0.1:0")
	if err != nil {
		return nil, e2eSkip{err.Error()}
	}
	addr := l.Addr().String()
	if c.PortBusy {
		defer l.Close()
	} else {
		l.Close()
	}
	d := c.Doc
	prom := c.Prom
	d.Debug = &dDebug{Address: &addr, AddrValid: true, Prometheus: &prom}
	d.DebugFirst = false
	if err := os.WriteFile(filepath.Join(dir, "corerad.toml"), []byte(d.render()), 0o644); err != nil {
		return nil, e2eSkip{err.Error()}
	}
	run := &e2eRun{Ifaces: cfg.Interfaces}
	missing := map[int]bool{}
	for _, m := range c.Missing {
		missing[m] = true
	}
	w := system.VkWorld{Log: filepath.Join(dir, "events.jsonl"), Ifaces: map[string]system.VkIface{}}
	tasks, late, scripted := 0, 0, 0
	var unspecIfaces []string
	for i, ri := range cfg.Interfaces {
		if missing[i] {
			continue
		}
		st := stFor(c.State, i)
		vi := system.VkIface{Index: 10 + i, MAC: st.MAC, Forwarding: st.Fwd, Autoconf: i%2 == 0, Addrs: st.Addrs}
		if c.Solicit && ri.Advertise {
			vi.RS = []system.VkRS{{AfterMS: 20, From: "fe80::bad", Hop: 64}, {AfterMS: 30, From: "fe80::abc", Hop: 255}}
		}
		if c.Traffic && ri.Advertise {
			// another router's RA: ours with the M flag flipped and no options -> exactly one inconsistency
			foreign := &ndp.RouterAdvertisement{CurrentHopLimit: uint8(ri.HopLimit), ManagedConfiguration: !ri.Managed, OtherConfiguration: ri.Other, RouterLifetime: 1800 * time.Second}
			vi.RS = append(vi.RS, system.VkRS{AfterMS: 40, From: "fe80::99", Hop: 255, Wire: e2eWire(foreign)}, system.VkRS{AfterMS: 45, From: "fe80::98", Hop: 64, Wire: e2eWire(foreign)})
		}
		if c.Flip && ri.Advertise {
			vi.RS = append(vi.RS, system.VkRS{AfterMS: 1200, From: "fe80::abd", Hop: 255})
		}
		if c.Traffic && c.Unspec && ri.Advertise && !ri.UnicastOnly {
			vi.RS = append(vi.RS, system.VkRS{AfterMS: 50, From: "::", Hop: 255})
			unspecIfaces = append(unspecIfaces, ri.Name)
		}
		if c.Traffic && ri.Monitor {
			heard := &ndp.RouterAdvertisement{CurrentHopLimit: 64, ManagedConfiguration: true, RouterLifetime: 1800 * time.Second, Options: []ndp.Option{
				&ndp.PrefixInformation{PrefixLength: 64, OnLink: true, AutonomousAddressConfiguration: true, ValidLifetime: 3600 * time.Second, PreferredLifetime: 1800 * time.Second, Prefix: netip.MustParseAddr("2001:db8:77::")}}}
			vi.RS = append(vi.RS, system.VkRS{AfterMS: 25, From: "fe80::77", Hop: 255, Wire: e2eWire(heard)}, system.VkRS{AfterMS: 35, From: "fe80::78", Hop: 64, Wire: e2eWire(heard)},
				system.VkRS{AfterMS: 40, From: "fe80::79", Hop: 255})
		}
		scripted += len(vi.RS)
		if c.FailIdx > 0 && (ri.Advertise || ri.Monitor) {
			tasks++
			if tasks == c.FailIdx {
				vi.ReadErrAfterMS = c.FailMS
				vi.ReadErrRecoverable = c.FailRecoverable
				if c.FailRecoverable {
					run.RecoverIface = ri.Name
				} else {
					run.FailIface = ri.Name
				}
			}
		}
		if c.LateIdx > 0 && (ri.Advertise || ri.Monitor) {
			late++
			if late == c.LateIdx {
				vi.MissingLookups = c.LateN
				run.LateIface = ri.Name
			}
		}
		w.Ifaces[ri.Name] = vi
	}
	w.Routes = c.State.Routes
	if c.Overlap {
		w.StateDelayMS = 2
	}
	run.World = w
	wb, _ := json.Marshal(w)
	if err := os.WriteFile(filepath.Join(dir, "world.json"), wb, 0o644); err != nil {
		return nil, e2eSkip{err.Error()}
	}
	// systemd notification socket
	npath := filepath.Join(dir, "notify.sock")
	pc, err := net.ListenPacket("unixgram", npath)
	if err != nil {
		return nil, e2eSkip{err.Error()}
	}
	defer pc.Close()
	var nmu sync.Mutex
	var notes []string
	var noteAt []time.Time
	nDone := make(chan struct{})
	go func() {
		defer close(nDone)
		buf := make([]byte, 8192)
		for {
			n, _, err := pc.ReadFrom(buf)
			if err != nil || string(buf[:n]) == e2eSentinel {
				return
			}
			nmu.Lock()
			notes = append(notes, string(buf[:n]))
			noteAt = append(noteAt, time.Now())
			nmu.Unlock()
		}
	}()
	readySeen := func() bool {
		nmu.Lock()
		defer nmu.Unlock()
		for _, s := range notes {
			if strings.Contains(s, "READY=1") {
				return true
			}
		}
		return false
	}

	cmd := exec.Command(os.Args[0])
	cmd.Dir = dir
	cmd.Env = append(os.Environ(), "VERIF_E2E_CHILD=1", "VERIF_E2E_CFG="+filepath.Join(dir, "corerad.toml"),
		"VERIF_WORLD="+filepath.Join(dir, "world.json"), "NOTIFY_SOCKET="+npath)
	var stderr lockedBuffer
	var pr, pw *os.File
	if c.Early {
		// the child's stderr is a pipe the parent does not drain at first: main() blocks while
		// BuildTasks logs the 3000 idle interfaces, i.e. after signal.Notify and before Serve
		pr, pw, err = os.Pipe()
		if err != nil {
			return nil, e2eSkip{err.Error()}
		}
		defer pr.Close()
		cmd.Stdout, cmd.Stderr = pw, pw
	} else {
		cmd.Stdout, cmd.Stderr = &stderr, &stderr
	}
	run.Spawn = time.Now()
	if err := cmd.Start(); err != nil {
		return nil, e2eSkip{err.Error()}
	}
	if pw != nil {
		pw.Close()
	}
	exited := make(chan error, 1)
	go func() { exited <- cmd.Wait() }()
	finish := func(werr error) {
		run.Exit = time.Now()
		run.Stderr = stderr.String()
		if cmd.ProcessState != nil {
			run.ExitCode = cmd.ProcessState.ExitCode()
			if ws, ok := cmd.ProcessState.Sys().(syscall.WaitStatus); ok && ws.Signaled() {
				run.ExitSignal = ws.Signal().String()
			}
		}
		// the child has exited: everything it sent is queued, in order; a sentinel ends the reader
		// (an expired read deadline would fail reads even with data queued)
		if sc, err := net.Dial("unixgram", npath); err == nil {
			_, _ = sc.Write([]byte(e2eSentinel))
			sc.Close()
		} else {
			pc.Close()
		}
		<-nDone
		nmu.Lock()
		run.Notes = append([]string(nil), notes...)
		nmu.Unlock()
		if b, err := os.ReadFile(w.Log); err == nil {
			for _, line := range bytes.Split(b, []byte("\n")) {
				var e system.VkEvent
				if len(line) > 0 && json.Unmarshal(line, &e) == nil {
					run.Events = append(run.Events, e)
				}
			}
		}
	}
	kill := func() {
		_ = cmd.Process.Kill()
		<-exited
	}
	client := &http.Client{Timeout: 10 * time.Second}
	get := func(path string) e2eProbe {
		p := e2eProbe{Q: time.Now()}
		resp, err := client.Get("http://" + addr + path)
		if err == nil {
			p.Body, _ = io.ReadAll(resp.Body)
			resp.Body.Close()
			p.Status = resp.StatusCode
		}
		p.R = time.Now()
		return p
	}
	if c.Early {
		br := bufio.NewReader(pr)
		sawSkip := make(chan bool, 1)
		go func() {
			for {
				line, err := br.ReadString('\n')
				stderr.Write([]byte(line))
				if strings.Contains(line, "skipping initialization") {
					sawSkip <- true
					return
				}
				if err != nil {
					sawSkip <- false
					return
				}
			}
		}()
		select {
		case ok := <-sawSkip:
			if !ok {
				kill()
				return nil, e2eSkip{"early mode: the child ended before BuildTasks:\n" + stderr.String()}
			}
		case werr := <-exited:
			finish(werr)
			return run, nil
		case <-time.After(e2eBudget):
			kill()
			return nil, e2eSkip{"early mode: BuildTasks not reached within the budget"}
		}
		sig := map[string]syscall.Signal{"TERM": syscall.SIGTERM, "INT": syscall.SIGINT, "HUP": syscall.SIGHUP}[c.Sig]
		run.SigAt = time.Now()
		_ = cmd.Process.Signal(sig)
		time.Sleep(300 * time.Millisecond) // the runtime has handed the signal to os/signal by now
		go func() { _, _ = io.Copy(&stderr, br) }()
		select {
		case werr := <-exited:
			finish(werr)
		case <-time.After(e2eBudget):
			kill()
			finish(nil)
			run.Hung = fmt.Sprintf("SIG%s arrived after signal.Notify and before Serve; the process was still running %v later", c.Sig, e2eBudget)
		}
		return run, nil
	}
	// wait until the process is up: the HTTP listener answers and (unless an interface is missing) READY=1 arrived
	wantReady := len(c.Missing) == 0
	deadline := time.Now().Add(e2eBudget)
	up := false
	for !up {
		select {
		case werr := <-exited:
			finish(werr) // ended by itself: port busy, or a fatal error
			return run, nil
		default:
		}
		if time.Now().After(deadline) {
			kill()
			if c.PortBusy {
				finish(nil)
				run.Hung = "the debug listener cannot be started, yet the process kept running"
				return run, nil
			}
			return nil, e2eSkip{"child not up within the budget:\n" + stderr.String()}
		}
		if !c.PortBusy {
			if p := get("/_/api/interfaces"); p.Status != 0 && (!wantReady || (readySeen() && p.Status == 200)) {
				up = true
				break
			}
		}
		time.Sleep(20 * time.Millisecond)
	}
	run.Ready = time.Now()
	// the solicited RA (if any) before anything else happens
	if c.Solicit && wantReady {
		for time.Now().Before(deadline) {
			b, _ := os.ReadFile(w.Log)
			need := 0
			for _, ri := range cfg.Interfaces {
				if ri.Advertise {
					need++
				}
			}
			if bytes.Count(b, []byte(`"dst":"fe80::abc"`)) >= need {
				break
			}
			time.Sleep(20 * time.Millisecond)
		}
	}
	if wantReady {
		run.Probes = append(run.Probes, get("/_/api/interfaces"))
		run.Metrics = get("/metrics")
		if c.Overlap && c.Prom {
			var wg sync.WaitGroup
			run.MetricsPar = make([]e2eProbe, 3)
			for gi := range run.MetricsPar {
				wg.Add(1)
				go func() {
					defer wg.Done()
					time.Sleep(time.Duration(gi) * time.Millisecond)
					run.MetricsPar[gi] = get("/metrics")
				}()
			}
			wg.Wait()
		}
		if c.Overlap {
			// two requests to the debug API in flight at once (the second starts while the first waits for its
			// second 2 ms state read): each answer is judged like one that ran alone
			var wg sync.WaitGroup
			par := make([]e2eProbe, 2)
			for gi := range par {
				wg.Add(1)
				go func() {
					defer wg.Done()
					time.Sleep(time.Duration(gi) * 3 * time.Millisecond)
					par[gi] = get("/_/api/interfaces")
				}()
			}
			wg.Wait()
			run.Probes = append(run.Probes, par...)
		}
		if c.Flip {
			for i, ri := range cfg.Interfaces {
				v := "1"
				if stFor(c.State, i).Fwd {
					v = "0"
				}
				_ = os.WriteFile(w.Log+".fwd."+ri.Name, []byte(v), 0o644)
			}
			run.FlipAt = time.Now()
			run.FlipProbe = get("/_/api/interfaces")
			run.FlipMetrics = get("/metrics")
			// the solicitation scripted for 1.2 s after the start is answered under the new state
			for time.Now().Before(deadline) {
				b, _ := os.ReadFile(w.Log)
				need := 0
				for _, ri := range cfg.Interfaces {
					if ri.Advertise {
						need++
					}
				}
				if bytes.Count(b, []byte(`"dst":"fe80::abd"`)) >= need {
					break
				}
				time.Sleep(20 * time.Millisecond)
			}
		}
		if c.Traffic {
			// every scripted message has been read (the handlers run right after the read): a second scrape
			for time.Now().Before(deadline) {
				b, _ := os.ReadFile(w.Log)
				if bytes.Count(b, []byte(`"ev":"read"`)) >= scripted {
					break
				}
				time.Sleep(20 * time.Millisecond)
			}
			// ... and every solicitation from :: has been answered by a (scheduled) multicast RA
			for time.Now().Before(deadline) {
				b, _ := os.ReadFile(w.Log)
				done := true
				for _, n := range unspecIfaces {
					done = done && bytes.Count(b, []byte(`"ev":"write","iface":"`+n+`","conn":`)) >= 2 && multicastWrites(b, n) >= 2
				}
				if done {
					break
				}
				time.Sleep(50 * time.Millisecond)
			}
			time.Sleep(100 * time.Millisecond)
			run.Metrics2 = get("/metrics")
		}
		time.Sleep(time.Duration(c.WaitMS) * time.Millisecond)
		if c.WaitMS > 0 {
			run.Probes = append(run.Probes, get("/_/api/interfaces"))
		}
	} else {
		time.Sleep(time.Duration(c.WaitMS) * time.Millisecond)
	}
	run.ReadyNote = readySeen()
	if run.FailIface != "" {
		// no signal: the failing task must take the whole server down
		select {
		case werr := <-exited:
			finish(werr)
		case <-time.After(e2eBudget):
			kill()
			finish(nil)
			run.Hung = fmt.Sprintf("the task of %q failed with a fatal receive error, yet the process was still running %v later", run.FailIface, e2eBudget)
		}
		return run, nil
	}
	if run.RecoverIface != "" {
		// let the fault and the recovery happen before the process is stopped
		for time.Now().Before(deadline) {
			b, _ := os.ReadFile(w.Log)
			if bytes.Count(b, []byte(`"ev":"open","iface":"`+run.RecoverIface+`"`)) >= 2 {
				break
			}
			time.Sleep(20 * time.Millisecond)
		}
	}
	sig := map[string]syscall.Signal{"TERM": syscall.SIGTERM, "INT": syscall.SIGINT, "HUP": syscall.SIGHUP}[c.Sig]
	run.SigAt = time.Now()
	if err := cmd.Process.Signal(sig); err != nil {
		kill()
		return nil, e2eSkip{"cannot signal the child: " + err.Error()}
	}
	select {
	case werr := <-exited:
		finish(werr)
	case <-time.After(e2eBudget):
		kill()
		finish(nil)
		run.Hung = fmt.Sprintf("the process was still running %v after SIG%s", e2eBudget, c.Sig)
	}
	return run, nil
}

// multicastWrites counts the all-nodes RAs of one interface in the raw event log.
func multicastWrites(log []byte, iface string) int {
	n := 0
	for _, line := range bytes.Split(log, []byte("\n")) {
		if bytes.Contains(line, []byte(`"ev":"write","iface":"`+iface+`"`)) && bytes.Contains(line, []byte(`"dst":"ff02::1"`)) {
			n++
		}
	}
	return n
}

func e2eWire(m ndp.Message) string {
	b, err := ndp.MarshalMessage(m)
	if err != nil {
		panic("verif: scripted message does not encode: " + err.Error())
	}
	return hex.EncodeToString(b)
}

// --- expected RAs with count-down intervals ------------------------------------

type e2eItem struct {
	Kind string
	Key  string
	Val  int64
}

func e2eRAItems(ra *ndp.RouterAdvertisement) []e2eItem {
	b2i := func(b bool) int64 {
		if b {
			return 1
		}
		return 0
	}
	out := []e2eItem{{"hdr", "hop", int64(ra.CurrentHopLimit)}, {"hdr", "M", b2i(ra.ManagedConfiguration)}, {"hdr", "O", b2i(ra.OtherConfiguration)},
		{"hdr", "pref=" + strings.ToLower(ra.RouterSelectionPreference.String()), 0}, {"hdr", "life", int64(ra.RouterLifetime / time.Second)},
		{"hdr", "reach", int64(ra.ReachableTime / time.Millisecond)}, {"hdr", "retrans", int64(ra.RetransmitTimer / time.Millisecond)}}
	for _, o := range ra.Options {
		switch o := o.(type) {
		case *ndp.PrefixInformation:
			k := fmt.Sprintf("%s/%d L=%v A=%v", o.Prefix, o.PrefixLength, o.OnLink, o.AutonomousAddressConfiguration)
			out = append(out, e2eItem{"prefix", k + " valid", int64(o.ValidLifetime / time.Second)}, e2eItem{"prefix", k + " preferred", int64(o.PreferredLifetime / time.Second)})
		case *ndp.RouteInformation:
			out = append(out, e2eItem{"route", fmt.Sprintf("%s/%d %s", o.Prefix, o.PrefixLength, strings.ToLower(o.Preference.String())), int64(o.RouteLifetime / time.Second)})
		case *ndp.RecursiveDNSServer:
			out = append(out, e2eItem{"rdnss", fmt.Sprint(o.Servers), int64(o.Lifetime / time.Second)})
		case *ndp.DNSSearchList:
			// punycode names legitimately read back from the wire as Unicode: compare the ASCII form
			names := make([]string, len(o.DomainNames))
			for i, n := range o.DomainNames {
				if a, err := idna.ToASCII(n); err == nil {
					n = a
				}
				names[i] = n
			}
			out = append(out, e2eItem{"dnssl", fmt.Sprint(names), int64(o.Lifetime / time.Second)})
		case *ndp.MTU:
			out = append(out, e2eItem{"mtu", "mtu", int64(o.MTU)})
		case *ndp.LinkLayerAddress:
			out = append(out, e2eItem{"slla", o.Addr.String(), 0})
		case *ndp.CaptivePortal:
			out = append(out, e2eItem{"cp", o.URI, 0})
		case *ndp.PREF64:
			out = append(out, e2eItem{"pref64", o.Prefix.String(), int64(o.Lifetime / time.Second)})
		default:
			out = append(out, e2eItem{"other", fmt.Sprintf("%T", o), 0})
		}
	}
	return out
}

var e2eKindOrder = map[string]int{"hdr": 0, "dnssl": 1, "mtu": 2, "prefix": 3, "rdnss": 4, "route": 5, "slla": 6, "cp": 7, "pref64": 8}

// e2eAPIItems renders the debug API's advertisement as items (grouped by kind, as the JSON is).
func e2eAPIItems(raw json.RawMessage) ([]e2eItem, error) {
	var j struct {
		Hop     int64  `json:"current_hop_limit"`
		M       bool   `json:"managed_configuration"`
		O       bool   `json:"other_configuration"`
		Pref    string `json:"router_selection_preference"`
		Life    int64  `json:"router_lifetime_seconds"`
		Reach   int64  `json:"reachable_time_milliseconds"`
		Retrans int64  `json:"retransmit_timer_milliseconds"`
		Options struct {
			DNSSL []struct {
				Life    int64    `json:"lifetime_seconds"`
				Domains []string `json:"domain_names"`
			} `json:"dnssl"`
			MTU      int64 `json:"mtu"`
			Prefixes []struct {
				Prefix string `json:"prefix"`
				OnLink bool   `json:"on_link"`
				Auto   bool   `json:"autonomous_address_autoconfiguration"`
				Valid  int64  `json:"valid_lifetime_seconds"`
				Pref   int64  `json:"preferred_lifetime_seconds"`
			} `json:"prefixes"`
			RDNSS []struct {
				Life    int64    `json:"lifetime_seconds"`
				Servers []string `json:"servers"`
			} `json:"rdnss"`
			Routes []struct {
				Prefix string `json:"prefix"`
				Pref   string `json:"preference"`
				Life   int64  `json:"route_lifetime_seconds"`
			} `json:"routes"`
			SLLA string `json:"source_link_layer_address"`
			CP   string `json:"captive_portal"`
		} `json:"options"`
	}
	if err := json.Unmarshal(raw, &j); err != nil {
		return nil, err
	}
	b2i := func(b bool) int64 {
		if b {
			return 1
		}
		return 0
	}
	out := []e2eItem{{"hdr", "hop", j.Hop}, {"hdr", "M", b2i(j.M)}, {"hdr", "O", b2i(j.O)}, {"hdr", "pref=" + j.Pref, 0}, {"hdr", "life", j.Life},
		{"hdr", "reach", j.Reach}, {"hdr", "retrans", j.Retrans}}
	for _, p := range j.Options.DNSSL {
		names := make([]string, len(p.Domains))
		for i, n := range p.Domains {
			if a, err := idna.ToASCII(n); err == nil {
				n = a
			}
			names[i] = n
		}
		out = append(out, e2eItem{"dnssl", fmt.Sprint(names), p.Life})
	}
	if j.Options.MTU != 0 {
		out = append(out, e2eItem{"mtu", "mtu", j.Options.MTU})
	}
	for _, p := range j.Options.Prefixes {
		k := fmt.Sprintf("%s L=%v A=%v", p.Prefix, p.OnLink, p.Auto)
		out = append(out, e2eItem{"prefix", k + " valid", p.Valid}, e2eItem{"prefix", k + " preferred", p.Pref})
	}
	for _, p := range j.Options.RDNSS {
		out = append(out, e2eItem{"rdnss", fmt.Sprint(p.Servers), p.Life})
	}
	for _, p := range j.Options.Routes {
		out = append(out, e2eItem{"route", p.Prefix + " " + p.Pref, p.Life})
	}
	if j.Options.SLLA != "" {
		out = append(out, e2eItem{"slla", j.Options.SLLA, 0})
	}
	if j.Options.CP != "" {
		out = append(out, e2eItem{"cp", j.Options.CP, 0})
	}
	return out, nil
}

// e2eCompare checks got against the interval [lo, hi] of expected advertisements
// (lo: built as late as possible, hi: as early as possible). grouped: compare
// by kind (the JSON groups options), leaving out PREF64 whose rendering is not
// prescribed.
func e2eCompare(sig, what string, lo, hi *ndp.RouterAdvertisement, got []e2eItem, grouped bool) error {
	li, hiI := e2eRAItems(lo), e2eRAItems(hi)
	if grouped {
		filter := func(in []e2eItem) []e2eItem {
			var out []e2eItem
			for _, x := range in {
				if x.Kind != "pref64" {
					out = append(out, x)
				}
			}
			sort.SliceStable(out, func(i, j int) bool { return e2eKindOrder[out[i].Kind] < e2eKindOrder[out[j].Kind] })
			return out
		}
		li, hiI, got = filter(li), filter(hiI), filter(got)
	}
	render := func(in []e2eItem) string {
		var b strings.Builder
		for _, x := range in {
			fmt.Fprintf(&b, "%s[%s]=%d; ", x.Kind, x.Key, x.Val)
		}
		return b.String()
	}
	fail := func(why string) error {
		return verifkit.Violf(sig, "%s: %s\nwant between %s\n         and %s\ngot          %s", what, why, render(li), render(hiI), render(got))
	}
	if len(li) != len(hiI) || len(li) != len(got) {
		return fail(fmt.Sprintf("%d items, want %d", len(got), len(li)))
	}
	for i := range got {
		if got[i].Kind != li[i].Kind || got[i].Key != li[i].Key || li[i].Key != hiI[i].Key {
			return fail(fmt.Sprintf("item %d is %s[%s], want %s[%s]", i, got[i].Kind, got[i].Key, li[i].Kind, li[i].Key))
		}
		hiV := hiI[i].Val
		if hiV > 1<<22 {
			hiV++ // the dependency rounds seconds through float64 (known finding F16 of C03)
		}
		if got[i].Val < li[i].Val || got[i].Val > hiV {
			return fail(fmt.Sprintf("%s[%s] = %d outside [%d, %d]", got[i].Kind, got[i].Key, got[i].Val, li[i].Val, hiV))
		}
	}
	return nil
}

// e2eExpect returns the expected RA of interface i built as early as possible
// after the epoch (hi values) and as late as possible (lo values), given that
// it was built within [tLo, tHi] and the epoch lies within [run.Spawn, run.Ready].
func e2eExpect(c e2eCase, run *e2eRun, i int, tLo, tHi time.Time) (lo, hi *ndp.RouterAdvertisement, fails bool) {
	return e2eExpectFwd(c, run, i, tLo, tHi, false)
}

// e2eExpectFwd: as e2eExpect, with the forwarding state inverted if flipped.
func e2eExpectFwd(c e2eCase, run *e2eRun, i int, tLo, tHi time.Time, flipped bool) (lo, hi *ndp.RouterAdvertisement, fails bool) {
	st := stFor(c.State, i)
	if flipped {
		st.Fwd = !st.Fwd
	}
	var v6 []system.IP
	for _, a := range st.Addrs {
		if a.Address.Addr().Is6() && !a.Address.Addr().Is4In6() {
			v6 = append(v6, a)
		}
	}
	st.Addrs = v6
	st.AddrErr, st.RouteErr = false, false
	early := tLo.Sub(run.Ready)
	if early < 0 {
		early = 0
	}
	// no slack is needed: the epoch is read after the spawn and before readiness, the RA is
	// built within [tLo, tHi], and truncation to whole seconds is monotone
	late := tHi.Sub(run.Spawn)
	stE, stL := st, st
	stE.NowNS, stL.NowNS = int64(early), int64(late)
	hi, f1 := expectRA(run.Ifaces[i], stE, run.Spawn)
	lo, f2 := expectRA(run.Ifaces[i], stL, run.Spawn)
	return lo, hi, f1 || f2
}

// --- the scenario and its oracles ----------------------------------------------

type e2eOracle func(c e2eCase, run *e2eRun) error

func e2eWrites(run *e2eRun, iface string) []system.VkEvent {
	var out []system.VkEvent
	for _, e := range run.Events {
		if e.Iface == iface && (e.Ev == "write" || e.Ev == "write-after-close") {
			out = append(out, e)
		}
	}
	return out
}

func e2eDecode(e system.VkEvent) (*ndp.RouterAdvertisement, error) {
	b, err := hex.DecodeString(e.Msg)
	if err != nil {
		return nil, err
	}
	m, err := ndp.ParseMessage(b)
	if err != nil {
		return nil, err
	}
	ra, ok := m.(*ndp.RouterAdvertisement)
	if !ok {
		return nil, fmt.Errorf("a %T was sent", m)
	}
	return ra, nil
}

func e2eDesc(c e2eCase, run *e2eRun) string {
	var b strings.Builder
	fmt.Fprintf(&b, "signal SIG%s after %d ms, missing %v, port busy %v; exit code %d %s after %v\n", c.Sig, c.WaitMS, c.Missing, c.PortBusy, run.ExitCode, run.ExitSignal, run.Exit.Sub(run.Spawn))
	for _, e := range run.Events {
		if e.Ev == "lookup" {
			continue
		}
		msg := e.Msg
		if len(msg) > 24 {
			msg = msg[:24] + "..."
		}
		fmt.Fprintf(&b, "%9.3fms %-13s %-8s conn=%d dst=%s%s value=%v %s\n", float64(e.TNS-run.Spawn.UnixNano())/1e6, e.Ev, e.Iface, e.Conn, e.Dst, e.From, e.Value, msg)
	}
	fmt.Fprintf(&b, "notifications: %q\nstderr:\n%s", run.Notes, firstN(run.Stderr, 3000))
	return b.String()
}

func firstN(s string, n int) string {
	if len(s) > n {
		return s[:n] + "..."
	}
	return s
}

// oracleC20: supervision seen from outside the process.
func oracleC20(c e2eCase, run *e2eRun) error {
	d := func() string { return e2eDesc(c, run) }
	if run.Hung != "" {
		return verifkit.Violf("C20main/does-not-stop", "%s\n%s", run.Hung, d())
	}
	if c.PortBusy {
		// the HTTP task fails: every task is stopped and the process reports the failure
		if run.ExitCode != 1 || !strings.Contains(run.Stderr, "failed to run") {
			return verifkit.Violf("C20main/task-failure-not-reported", "the debug listener could not be started, but the process exited with code %d\n%s", run.ExitCode, d())
		}
	} else if run.FailIface != "" {
		// one task failed with an unrecoverable error: all tasks stop and the failure is reported
		if run.ExitCode != 1 || !strings.Contains(run.Stderr, "failed to run") {
			return verifkit.Violf("C20main/task-failure-not-reported", "the task of %q failed fatally, but the process exited with code %d %s\n%s", run.FailIface, run.ExitCode, run.ExitSignal, d())
		}
	} else if run.ExitCode != 0 || run.ExitSignal != "" {
		return verifkit.Violf("C20main/exit-status", "SIG%s must stop the server cleanly, exit code %d signal %q\n%s", c.Sig, run.ExitCode, run.ExitSignal, d())
	}
	// the signal the server says it received is the one that was sent (what it means - terminate or reload - is
	// recorded from exactly that)
	if name := map[string]string{"TERM": "terminated", "INT": "interrupt", "HUP": "hangup"}[c.Sig]; name != "" && run.FailIface == "" {
		for _, n := range run.Notes {
			if i := strings.Index(n, "received "); i >= 0 && strings.Contains(n, "shutting down") && !strings.Contains(n[i:], "received "+name+",") {
				return verifkit.Violf("C20main/wrong-signal-recorded", "SIG%s was sent, the server announced %q\n%s", c.Sig, n, d())
			}
		}
	}
	missing := map[int]bool{}
	for _, m := range c.Missing {
		missing[m] = true
	}
	opens, closes := map[string]int{}, map[int]int{}
	open := map[int]string{}
	for _, e := range run.Events {
		switch e.Ev {
		case "open":
			opens[e.Iface]++
			open[e.Conn] = e.Iface
		case "close":
			closes[e.Conn]++
		case "write-after-close":
			return verifkit.Violf("C20main/write-after-close", "an RA was sent on a closed connection\n%s", d())
		}
	}
	for i, ri := range run.Ifaces {
		want := 0
		if (ri.Advertise || ri.Monitor) && !missing[i] {
			want = 1
			if ri.Name == run.RecoverIface {
				want = 2 // re-established once after the recoverable receive error
			}
		}
		// one task per advertising / monitoring interface, none for the others; a
		// failing HTTP task may stop the server before a task has dialled
		if got := opens[ri.Name]; got > want || (got < want && !c.PortBusy && !c.Early) {
			return verifkit.Violf("C20main/tasks-per-interface", "interface %q (advertise=%v monitor=%v exists=%v): %d connections opened, want %d\n%s", ri.Name, ri.Advertise, ri.Monitor, !missing[i], got, want, d())
		}
	}
	for id, ifc := range open {
		if closes[id] != 1 {
			return verifkit.Violf("C20main/connection-not-closed-once", "connection %d on %q closed %d times when the process ended\n%s", id, ifc, closes[id], d())
		}
	}
	ready := 0
	for _, n := range run.Notes {
		if strings.Contains(n, "READY=1") {
			ready++
		}
	}
	switch {
	case ready > 1:
		return verifkit.Violf("C20main/ready-twice", "READY=1 sent %d times\n%s", ready, d())
	case ready == 1 && (len(c.Missing) > 0 || c.PortBusy):
		// a task that never became ready (interface missing) or failed
		tasksNeverReady := false
		for i, ri := range run.Ifaces {
			if missing[i] && (ri.Advertise || ri.Monitor) {
				tasksNeverReady = true
			}
		}
		if tasksNeverReady {
			return verifkit.Violf("C20main/ready-although-a-task-is-not", "READY=1 although an interface task never initialised\n%s", d())
		}
	case ready == 0 && len(c.Missing) == 0 && !c.PortBusy && !c.Early:
		return verifkit.Violf("C20main/ready-not-announced", "every task was up (the debug API answered 200) but READY=1 was never sent\n%s", d())
	}
	return nil
}

// oracleC10: recovery policy seen from outside the process.
func oracleC10(c e2eCase, run *e2eRun) error {
	if c.PortBusy || c.Early || run.Hung != "" {
		return nil
	}
	d := func() string { return e2eDesc(c, run) }
	type conn struct {
		iface           string
		openAt, closeAt int64
		closes          int
	}
	conns := map[int]*conn{}
	var order []int
	lookups := map[string][]system.VkEvent{}
	for _, e := range run.Events {
		switch e.Ev {
		case "lookup":
			lookups[e.Iface] = append(lookups[e.Iface], e)
		case "open":
			conns[e.Conn] = &conn{iface: e.Iface, openAt: e.TNS}
			order = append(order, e.Conn)
		case "close":
			if cn := conns[e.Conn]; cn != nil {
				cn.closes++
				cn.closeAt = e.TNS
			}
		case "write", "write-after-close":
			if cn := conns[e.Conn]; cn != nil && cn.closes > 0 {
				return verifkit.Violf("C10main/old-connection-used", "connection %d of %q was written to after it had been closed\n%s", e.Conn, cn.iface, d())
			}
		}
	}
	per := map[string][]*conn{}
	for _, id := range order {
		per[conns[id].iface] = append(per[conns[id].iface], conns[id])
	}
	// back-off: attempt j+1 of one (re)initialisation follows attempt j by at least min(j*250 ms, 3 s)
	// (the initial dial and the first retry may coincide); real time can only make the gaps longer
	gapOK := func(ls []system.VkEvent) error {
		for j := 1; j+1 < len(ls); j++ {
			want := time.Duration(j) * 250 * time.Millisecond
			if want > 3*time.Second {
				want = 3 * time.Second
			}
			if got := time.Duration(ls[j+1].TNS - ls[j].TNS); got < want-2*time.Millisecond {
				return verifkit.Violf("C10main/back-off-too-short", "%q: dial attempts %d and %d are %v apart, the policy waits %v\n%s", ls[j].Iface, j, j+1, got, want, d())
			}
		}
		if len(ls) > 51 {
			return verifkit.Violf("C10main/too-many-attempts", "%q: %d dial attempts\n%s", ls[0].Iface, len(ls), d())
		}
		return nil
	}
	if run.LateIface != "" {
		ls := lookups[run.LateIface]
		if len(ls) != c.LateN+1 {
			return verifkit.Violf("C10main/late-interface", "%q does not exist for its first %d lookups: %d lookups seen, want %d\n%s", run.LateIface, c.LateN, len(ls), c.LateN+1, d())
		}
		if err := gapOK(ls); err != nil {
			return err
		}
		if cs := per[run.LateIface]; len(cs) != 1 || cs[0].openAt < ls[len(ls)-1].TNS {
			return verifkit.Violf("C10main/late-interface", "%q: %d connections, the first must follow the first successful lookup\n%s", run.LateIface, len(cs), d())
		}
	}
	if run.RecoverIface != "" {
		cs := per[run.RecoverIface]
		if len(cs) != 2 {
			return verifkit.Violf("C10main/not-re-established", "%q hit a recoverable receive error on its first connection: %d connections opened, want 2\n%s", run.RecoverIface, len(cs), d())
		}
		if cs[0].closes != 1 || cs[0].closeAt > cs[1].openAt {
			return verifkit.Violf("C10main/half-alive", "%q: the failed connection was closed %d times, and not before its successor was opened\n%s", run.RecoverIface, cs[0].closes, d())
		}
		// the lookups of the recovery: those after the first connection was closed
		var ls []system.VkEvent
		for _, l := range lookups[run.RecoverIface] {
			if l.TNS >= cs[0].closeAt {
				ls = append(ls, l)
			}
		}
		// (the re-initialisation has no separate initial dial: its first attempt is attempt 1 of the loop)
		if err := gapOK(append([]system.VkEvent{{Iface: run.RecoverIface}}, ls...)); err != nil {
			return err
		}
	}
	for iface, cs := range per {
		want := 1
		if iface == run.RecoverIface {
			want = 2
		}
		if len(cs) != want {
			return verifkit.Violf("C10main/unexpected-re-dial", "%q: %d connections opened, want %d (a fault on another interface must not disturb it; a fatal fault is not retried)\n%s", iface, len(cs), want, d())
		}
	}
	if run.FailIface != "" && (run.ExitCode != 1 || !strings.Contains(run.Stderr, "failed to run")) {
		return verifkit.Violf("C10main/fatal-fault-not-reported", "%q hit a permission-class receive error: exit code %d\n%s", run.FailIface, run.ExitCode, d())
	}
	if run.FailIface == "" && (run.ExitCode != 0 || run.ExitSignal != "") {
		return verifkit.Violf("C10main/recoverable-fault-fatal", "exit code %d %s although no fatal fault was injected\n%s", run.ExitCode, run.ExitSignal, d())
	}
	return nil
}

// e2eTraffic judges the second /metrics scrape, taken after the scripted traffic has been read:
// monitor series (C18), inconsistency reports (C12), sent / received / invalid counters (C07, C09).
func e2eTraffic(pfx string, monitor, inconsistency, counters bool) e2eOracle {
	return func(c e2eCase, run *e2eRun) error {
		if !c.Traffic || !c.Prom || c.Early || c.PortBusy || len(c.Missing) > 0 || run.Hung != "" || run.FailIface != "" || run.RecoverIface != "" {
			return nil
		}
		if run.Metrics2.Status == 0 {
			return e2eSkip{"the second /metrics request got no HTTP answer"}
		}
		d := func() string { return e2eDesc(c, run) }
		if run.Metrics2.Status != 200 {
			return verifkit.Violf(pfx+"/metrics-status", "second GET /metrics -> %d\n%s\n%s", run.Metrics2.Status, firstN(string(run.Metrics2.Body), 600), d())
		}
		for i := range run.Ifaces {
			if run.Ifaces[i].Advertise {
				if _, _, fails := e2eExpect(c, run, i, run.Spawn, run.Exit); fails {
					return nil // RA generation fails on an interface: the advertiser cannot run (judged elsewhere)
				}
			}
		}
		// a solicitation from the unspecified address (which the socket layer hands over with the interface's zone
		// attached, as package ndp does) is answered by a scheduled multicast RA, never by an RA "to ::"
		if counters && c.Unspec {
			for _, ri := range run.Ifaces {
				if !ri.Advertise || ri.UnicastOnly {
					continue
				}
				multicast := 0
				for _, e := range run.Events {
					if e.Ev != "write" || e.Iface != ri.Name || e.TNS > run.Metrics2.Q.UnixNano() {
						continue
					}
					if a, err := netip.ParseAddr(e.Dst); err == nil && a.WithZone("").IsUnspecified() {
						return verifkit.Violf(pfx+"/answer-to-unspecified", "interface %q sent an RA to %q (a solicitation from :: must be answered to all nodes)\n%s", ri.Name, e.Dst, d())
					}
					if e.Dst == "ff02::1" {
						multicast++
					}
				}
				if multicast < 2 {
					return verifkit.Violf(pfx+"/unspecified-source-not-served", "interface %q: %d multicast RAs before the second scrape (the initial one and the answer to the solicitation from :: were due)\n%s", ri.Name, multicast, d())
				}
			}
		}
		order := map[string][]string{
			"corerad_monitor_messages_received_total": {"interface", "host", "message"},
			"corerad_monitor_flag_managed":            {"interface", "router"}, "corerad_monitor_flag_other": {"interface", "router"},
			"corerad_monitor_default_route_expiration_timestamp_seconds": {"interface", "router"},
			"corerad_monitor_prefix_autonomous":                          {"interface", "prefix", "router"}, "corerad_monitor_prefix_on_link": {"interface", "prefix", "router"},
			"corerad_monitor_prefix_preferred_expiration_timestamp_seconds": {"interface", "prefix", "router"},
			"corerad_monitor_prefix_valid_expiration_timestamp_seconds":     {"interface", "prefix", "router"},
			"corerad_messages_received_invalid_total":                       {"interface", "message"},
			"corerad_advertiser_inconsistencies_total":                      {"interface", "details", "field"},
			"corerad_advertiser_messages_received_total":                    {"interface", "message"},
			"corerad_advertiser_router_advertisements_total":                {"interface", "type"},
		}
		got := e2eParseProm(run.Metrics2.Body, order)
		type rng struct{ lo, hi float64 }
		want := map[string]map[string]rng{}
		put := func(name, key string, lo, hi float64) {
			if want[name] == nil {
				want[name] = map[string]rng{}
			}
			want[name][key] = rng{lo, hi}
		}
		readAt := func(iface, from string) (float64, bool) {
			for _, e := range run.Events {
				if e.Ev == "read" && e.Iface == iface && e.From == from {
					return float64(e.TNS) / 1e9, true
				}
			}
			return 0, false
		}
		q := float64(run.Metrics2.Q.UnixNano()) / 1e9
		judged := map[string]bool{}
		for _, ri := range run.Ifaces {
			n := ri.Name
			switch {
			case ri.Monitor && monitor:
				t, ok := readAt(n, "fe80::77")
				if !ok {
					return e2eSkip{"the scripted RA was not read before the scrape"}
				}
				ra, rs := "router advertisement", "router solicitation"
				put("corerad_monitor_messages_received_total", n+"|fe80::77|"+ra, 1, 1)
				put("corerad_monitor_messages_received_total", n+"|fe80::79|"+rs, 1, 1)
				put("corerad_monitor_flag_managed", n+"|fe80::77", 1, 1)
				put("corerad_monitor_flag_other", n+"|fe80::77", 0, 0)
				fl := func(x float64) float64 { return float64(int64(x)) }
				put("corerad_monitor_default_route_expiration_timestamp_seconds", n+"|fe80::77", fl(t)+1800, fl(q)+1800)
				pk := n + "|2001:db8:77::/64|fe80::77"
				put("corerad_monitor_prefix_autonomous", pk, 1, 1)
				put("corerad_monitor_prefix_on_link", pk, 1, 1)
				put("corerad_monitor_prefix_preferred_expiration_timestamp_seconds", pk, fl(t)+1800, fl(q)+1800)
				put("corerad_monitor_prefix_valid_expiration_timestamp_seconds", pk, fl(t)+3600, fl(q)+3600)
				put("corerad_messages_received_invalid_total", n+"|"+ra, 1, 1)
				for name := range order {
					if strings.HasPrefix(name, "corerad_monitor_") {
						judged[name] = true
					}
				}
				judged["corerad_messages_received_invalid_total"] = true
			case ri.Advertise:
				if inconsistency {
					put("corerad_advertiser_inconsistencies_total", n+"||managed_configuration", 1, 1)
					judged["corerad_advertiser_inconsistencies_total"] = true
					// (the one inconsistency - the M flag - is logged once: a line of this interface that names the field, however worded)
					got := 0
					for _, line := range strings.Split(run.Stderr, "\n") {
						if strings.Contains(line, n+":") && strings.Contains(line, "managed_configuration") {
							got++
						}
					}
					if got != 1 {
						return verifkit.Violf(pfx+"/inconsistency-log", "%q: %d log lines naming the managed_configuration inconsistency for one inconsistent RA (and one with hop limit 64)\n%s", n, got, d())
					}
				}
				if counters {
					put("corerad_messages_received_invalid_total", n+"|router advertisement", 1, 1)
					put("corerad_advertiser_messages_received_total", n+"|router advertisement", 1, 1)
					rs := 0.0
					if c.Solicit {
						put("corerad_messages_received_invalid_total", n+"|router solicitation", 1, 1)
						rs++
					}
					if c.Unspec && !ri.UnicastOnly {
						rs++
					}
					if rs > 0 {
						put("corerad_advertiser_messages_received_total", n+"|router solicitation", rs, rs)
					}
					// sent by type: between the writes logged well before the scrape and those logged before it ended
					// (only scheduled transmissions are counted: the initial RA of a connection - its first
					// multicast write - is sent outside the scheduler)
					lo, hi := map[string]float64{}, map[string]float64{}
					initialSeen := map[int]bool{}
					for _, e := range run.Events {
						if e.Ev != "write" || e.Iface != n {
							continue
						}
						typ := "unicast"
						if e.Dst == "ff02::1" {
							typ = "multicast"
							if !initialSeen[e.Conn] {
								initialSeen[e.Conn] = true
								continue
							}
						}
						if e.TNS <= run.Metrics2.R.UnixNano() {
							hi[typ]++
						}
						if e.TNS <= run.Metrics2.Q.UnixNano()-int64(100*time.Millisecond) {
							lo[typ]++
						}
					}
					for _, typ := range []string{"unicast", "multicast"} {
						if hi[typ] > 0 {
							put("corerad_advertiser_router_advertisements_total", n+"|"+typ, lo[typ], hi[typ])
						}
					}
					judged["corerad_messages_received_invalid_total"] = true
					judged["corerad_advertiser_messages_received_total"] = true
					judged["corerad_advertiser_router_advertisements_total"] = true
				}
			}
		}
		kinds := map[string]bool{}
		for _, ri := range run.Ifaces {
			kinds[ri.Name] = (ri.Monitor && monitor) || (ri.Advertise && (inconsistency || counters))
		}
		for name := range judged {
			for key, r := range want[name] {
				v, ok := got[name][key]
				if !ok && r.lo > 0 {
					return verifkit.Violf(pfx+"/series-missing", "/metrics has no sample %s{%s} after the scripted traffic\n%s", name, key, d())
				}
				if v < r.lo || v > r.hi {
					return verifkit.Violf(pfx+"/series-differs", "/metrics: %s{%s} = %v, want within [%v, %v]\n%s", name, key, v, r.lo, r.hi, d())
				}
			}
			for key, v := range got[name] {
				iface, _, _ := strings.Cut(key, "|")
				if _, ok := want[name][key]; !ok && kinds[iface] {
					// only interfaces of the kind this oracle judges; the other kind's series belong to another property
					for _, ri := range run.Ifaces {
						if ri.Name == iface && ((ri.Monitor && strings.HasPrefix(name, "corerad_monitor_")) || (ri.Advertise && strings.HasPrefix(name, "corerad_advertiser_")) ||
							(name == "corerad_messages_received_invalid_total" && ((ri.Monitor && monitor) || (ri.Advertise && counters)))) {
							return verifkit.Violf(pfx+"/series-unexpected", "/metrics: unexpected sample %s{%s} = %v\n%s", name, key, v, d())
						}
					}
				}
			}
		}
		return nil
	}
}

// oracleC04: the forwarding state of a running process changes; every path that generates an RA follows.
func oracleC04(c e2eCase, run *e2eRun) error {
	if !c.Flip || c.Early || c.PortBusy || len(c.Missing) > 0 || run.Hung != "" || run.FailIface != "" || run.RecoverIface != "" || run.FlipAt.IsZero() {
		return nil
	}
	d := func() string { return e2eDesc(c, run) }
	if run.FlipProbe.Status == 0 || (c.Prom && run.FlipMetrics.Status == 0) {
		return e2eSkip{"a request after the forwarding change got no HTTP answer"}
	}
	var body struct {
		Interfaces []struct {
			Interface     string          `json:"interface"`
			Advertisement json.RawMessage `json:"advertisement"`
		} `json:"interfaces"`
	}
	if run.FlipProbe.Status != 200 || json.Unmarshal(run.FlipProbe.Body, &body) != nil || len(body.Interfaces) != len(run.Ifaces) {
		return verifkit.Violf("C04main/api", "debug API after the forwarding change: status %d %s\n%s", run.FlipProbe.Status, firstN(string(run.FlipProbe.Body), 300), d())
	}
	for i, ri := range run.Ifaces {
		if !ri.Advertise {
			continue
		}
		lo, hi, fails := e2eExpectFwd(c, run, i, run.FlipProbe.Q, run.FlipProbe.R, true)
		if fails {
			return nil
		}
		items, err := e2eAPIItems(body.Interfaces[i].Advertisement)
		if err != nil {
			return verifkit.Violf("C04main/api", "%q: %v\n%s", ri.Name, err, d())
		}
		if err := e2eCompare("C04main/api-ignores-forwarding-change", fmt.Sprintf("debug API after the forwarding state of %q became %v", ri.Name, !stFor(c.State, i).Fwd), lo, hi, items, true); err != nil {
			return fmt.Errorf("%w\n%s", err, d())
		}
		// the wire: RAs generated before the change carry the old state, those generated after it the new one
		var openAt time.Time
		for _, e := range run.Events {
			if e.Ev == "open" && e.Iface == ri.Name {
				openAt = time.Unix(0, e.TNS)
				break
			}
		}
		for j, e := range e2eWrites(run, ri.Name) {
			ra, err := e2eDecode(e)
			if err != nil {
				return verifkit.Violf("C04main/wire", "%q: %v\n%s", ri.Name, err, d())
			}
			at := time.Unix(0, e.TNS)
			var candidates []bool
			switch {
			case at.Before(run.FlipAt.Add(-50 * time.Millisecond)):
				candidates = []bool{false}
			case at.After(run.FlipAt.Add(50 * time.Millisecond)):
				candidates = []bool{true}
			default:
				candidates = []bool{false, true} // generated around the change: either state
			}
			var last error
			for _, fl := range candidates {
				lo, hi, _ := e2eExpectFwd(c, run, i, openAt, at, fl)
				if ra.RouterLifetime == 0 && c.Sig != "HUP" && at.After(run.SigAt) {
					lo.RouterLifetime, hi.RouterLifetime = 0, 0
				}
				if last = e2eCompare("C04main/wire-ignores-forwarding-change", fmt.Sprintf("RA %d on %q to %s, %v relative to the forwarding change", j, ri.Name, e.Dst, at.Sub(run.FlipAt)), lo, hi, e2eRAItems(ra), false); last == nil {
					break
				}
			}
			if last != nil {
				return fmt.Errorf("%w\n%s", last, d())
			}
		}
	}
	if c.Prom {
		if run.FlipMetrics.Status != 200 {
			return verifkit.Violf("C04main/metrics", "GET /metrics after the forwarding change -> %d\n%s", run.FlipMetrics.Status, d())
		}
		got := e2eParseProm(run.FlipMetrics.Body, map[string][]string{"corerad_interface_forwarding": {"interface"}, "corerad_advertiser_misconfiguration": {"interface", "details"}})
		for i, ri := range run.Ifaces {
			fwd := !stFor(c.State, i).Fwd
			if v, ok := got["corerad_interface_forwarding"][ri.Name]; !ok || (v == 1) != fwd {
				return verifkit.Violf("C04main/forwarding-gauge", "interface_forwarding{%s} = %v (present %v) after the state became %v\n%s", ri.Name, v, ok, fwd, d())
			}
			_, mis := got["corerad_advertiser_misconfiguration"][ri.Name+"|interface_not_forwarding"]
			if want := ri.Advertise && !fwd && ri.DefaultLifetime > 0; mis != want {
				return verifkit.Violf("C04main/misconfiguration-gauge", "interface_not_forwarding{%s} present=%v, want %v (forwarding %v, lifetime %v)\n%s", ri.Name, mis, want, fwd, ri.DefaultLifetime, d())
			}
		}
	}
	return nil
}

// oracleC11: what is left behind in the operating system when the process has ended.
func oracleC11(c e2eCase, run *e2eRun) error {
	if run.Hung != "" {
		return nil
	}
	d := func() string { return e2eDesc(c, run) }
	type st struct {
		iface          string
		leaves, closes int
	}
	conns := map[int]*st{}
	openNow := map[string]int{}
	sets := map[string][]bool{}
	gets := map[string]int{}
	for _, e := range run.Events {
		switch e.Ev {
		case "open":
			if openNow[e.Iface] > 0 {
				return verifkit.Violf("C11main/two-connections-open", "%q: a connection is opened while another one is still open\n%s", e.Iface, d())
			}
			openNow[e.Iface]++
			conns[e.Conn] = &st{iface: e.Iface}
		case "leave":
			if cn := conns[e.Conn]; cn != nil {
				cn.leaves++
			}
		case "close":
			if cn := conns[e.Conn]; cn != nil {
				cn.closes++
				openNow[cn.iface]--
			}
		case "set-autoconf":
			sets[e.Iface] = append(sets[e.Iface], e.Value)
		case "get-autoconf":
			gets[e.Iface]++
		}
	}
	for id, cn := range conns {
		if cn.closes != 1 || cn.leaves > 1 {
			return verifkit.Violf("C11main/cleanup-count", "connection %d of %q: closed %d times, left the group %d times when the process had ended\n%s", id, cn.iface, cn.closes, cn.leaves, d())
		}
	}
	per := map[string]int{}
	for _, cn := range conns {
		per[cn.iface]++
	}
	for i, ri := range run.Ifaces {
		if !ri.Advertise {
			if len(sets[ri.Name]) > 0 {
				return verifkit.Violf("C11main/autoconf-touched", "%q does not advertise but its autoconf setting was written: %v\n%s", ri.Name, sets[ri.Name], d())
			}
			continue
		}
		// per connection: disabled at dial time, the previous value restored at clean-up
		orig := i%2 == 0
		var want []bool
		for k := 0; k < per[ri.Name]; k++ {
			want = append(want, false, orig)
		}
		if fmt.Sprint(sets[ri.Name]) != fmt.Sprint(want) {
			return verifkit.Violf("C11main/autoconf-not-restored", "%q (autoconf %v before): writes %v, want %v for %d connection(s)\n%s", ri.Name, orig, sets[ri.Name], want, per[ri.Name], d())
		}
	}
	return nil
}

// oracleC08: the final advertisement.
func oracleC08(c e2eCase, run *e2eRun) error {
	if c.PortBusy || c.Early || run.Hung != "" || run.FailIface != "" {
		return nil
	}
	missing := map[int]bool{}
	for _, m := range c.Missing {
		missing[m] = true
	}
	for i, ri := range run.Ifaces {
		if !ri.Advertise || missing[i] || ri.UnicastOnly || ri.DefaultLifetime == 0 || !stFor(c.State, i).Fwd {
			continue // the final RA is suppressed or indistinguishable there
		}
		ws := e2eWrites(run, ri.Name)
		zero := 0
		lastZero := false
		for j, e := range ws {
			ra, err := e2eDecode(e)
			if err != nil {
				return verifkit.Violf("C08main/undecodable", "interface %q: %v\n%s", ri.Name, err, e2eDesc(c, run))
			}
			if e.Ev == "write-after-close" {
				return verifkit.Violf("C08main/transmits-after-close", "interface %q: an RA was written after its connection had been closed\n%s", ri.Name, e2eDesc(c, run))
			}
			if ra.RouterLifetime == 0 {
				zero++
				lastZero = j == len(ws)-1
				if e.Dst != "ff02::1" {
					return verifkit.Violf("C08main/final-ra-destination", "interface %q: zero-lifetime RA sent to %s\n%s", ri.Name, e.Dst, e2eDesc(c, run))
				}
				// identical to the normal RA except for the router lifetime
				var openAt time.Time
				for _, o := range run.Events {
					if o.Ev == "open" && o.Iface == ri.Name {
						openAt = time.Unix(0, o.TNS)
						break
					}
				}
				if lo, hi, fails := e2eExpect(c, run, i, openAt, time.Unix(0, e.TNS)); !fails {
					lo.RouterLifetime, hi.RouterLifetime = 0, 0
					if err := e2eCompare("C08main/final-ra-content", fmt.Sprintf("final RA on %q", ri.Name), lo, hi, e2eRAItems(ra), false); err != nil {
						return fmt.Errorf("%w\n%s", err, e2eDesc(c, run))
					}
				}
			}
		}
		if c.Sig == "HUP" {
			if zero != 0 {
				return verifkit.Violf("C08main/final-ra-on-reload", "interface %q: %d zero-lifetime RA(s) on SIGHUP (reload)\n%s", ri.Name, zero, e2eDesc(c, run))
			}
			continue
		}
		if zero != 1 || !lastZero {
			return verifkit.Violf("C08main/final-ra", "interface %q: SIG%s must produce exactly one zero-lifetime RA, sent last: %d such RAs among %d, last=%v\n%s", ri.Name, c.Sig, zero, len(ws), lastZero, e2eDesc(c, run))
		}
	}
	return nil
}

// oracleC17: the debug API and the wire agree with the expected RA under the real wiring.
func oracleC17(c e2eCase, run *e2eRun) error { return e2eRAOracle(c, run, "C17main", true) }

// oracleC16: only what the advertisements say (API and wire), where the deprecated
// lifetimes must count down from the start of this process.
func oracleC16(c e2eCase, run *e2eRun) error { return e2eRAOracle(c, run, "C16main", false) }

func e2eRAOracle(c e2eCase, run *e2eRun, pfx string, full bool) error {
	if c.PortBusy || c.Early || len(c.Missing) > 0 || run.Hung != "" || run.FailIface != "" {
		return nil
	}
	d := func() string { return e2eDesc(c, run) }
	for pi, p := range run.Probes {
		if p.Status == 0 {
			return e2eSkip{"a debug API request got no HTTP answer within the client's 10 s"}
		}
		if p.Status != 200 {
			return verifkit.Violf(pfx+"/api-status", "probe %d: GET /_/api/interfaces -> %d %s\n%s", pi, p.Status, firstN(string(p.Body), 300), d())
		}
		var body struct {
			Interfaces []struct {
				Interface     string          `json:"interface"`
				Advertising   bool            `json:"advertise"`
				Advertisement json.RawMessage `json:"advertisement"`
			} `json:"interfaces"`
		}
		if err := json.Unmarshal(p.Body, &body); err != nil {
			return verifkit.Violf(pfx+"/api-body", "probe %d: %v\n%s", pi, err, d())
		}
		if len(body.Interfaces) != len(run.Ifaces) {
			return verifkit.Violf(pfx+"/api-interfaces", "probe %d: %d interfaces listed, %d configured\n%s", pi, len(body.Interfaces), len(run.Ifaces), d())
		}
		for i, ri := range run.Ifaces {
			x := body.Interfaces[i]
			if x.Interface != ri.Name || x.Advertising != ri.Advertise {
				return verifkit.Violf(pfx+"/api-interfaces", "probe %d entry %d: %q advertise=%v, configured %q advertise=%v\n%s", pi, i, x.Interface, x.Advertising, ri.Name, ri.Advertise, d())
			}
			if !ri.Advertise {
				if len(x.Advertisement) != 0 && string(x.Advertisement) != "null" {
					return verifkit.Violf(pfx+"/api-ra-for-non-advertising", "probe %d: %q does not advertise but has an advertisement\n%s", pi, ri.Name, d())
				}
				continue
			}
			lo, hi, fails := e2eExpect(c, run, i, p.Q, p.R)
			if fails {
				continue // no eligible address for the RDNSS wildcard: the API reports an error for everything (judged in-process)
			}
			items, err := e2eAPIItems(x.Advertisement)
			if err != nil {
				return verifkit.Violf(pfx+"/api-body", "probe %d %q: %v\n%s", pi, ri.Name, err, d())
			}
			if err := e2eCompare(pfx+"/api-differs-from-expected-ra", fmt.Sprintf("probe %d (%.0f ms after start) interface %q", pi, float64(p.R.Sub(run.Spawn))/1e6, ri.Name), lo, hi, items, true); err != nil {
				return fmt.Errorf("%w\n%s", err, d())
			}
		}
	}
	if full && run.Metrics.Status == 0 {
		return e2eSkip{"the /metrics request got no HTTP answer within the client's 10 s"}
	}
	if want := map[bool]int{true: 200, false: 404}[c.Prom]; full && run.Metrics.Status != want {
		return verifkit.Violf(pfx+"/metrics-status", "GET /metrics -> %d, want %d (prometheus=%v)\n%s\n%s", run.Metrics.Status, want, c.Prom, firstN(string(run.Metrics.Body), 1500), d())
	}
	if full && c.Prom && !bytes.Contains(run.Metrics.Body, []byte("corerad_build_info")) {
		return verifkit.Violf(pfx+"/metrics-body", "/metrics lacks corerad_build_info\n%s", d())
	}
	if full && c.Prom {
		if err := e2eMetrics(c, run, pfx); err != nil {
			return fmt.Errorf("%w\n%s", err, d())
		}
	}
	// the wire
	for i, ri := range run.Ifaces {
		if !ri.Advertise {
			continue
		}
		var openAt time.Time
		for _, e := range run.Events {
			if e.Ev == "open" && e.Iface == ri.Name {
				openAt = time.Unix(0, e.TNS)
				break
			}
		}
		solicited := 0
		for j, e := range e2eWrites(run, ri.Name) {
			ra, err := e2eDecode(e)
			if err != nil {
				return verifkit.Violf(pfx+"/wire-undecodable", "interface %q: %v\n%s", ri.Name, err, d())
			}
			if e.Dst == "fe80::bad" {
				return verifkit.Violf(pfx+"/invalid-rs-answered", "interface %q answered a solicitation with hop limit 64\n%s", ri.Name, d())
			}
			if e.Dst == "fe80::abc" {
				solicited++
			}
			if ri.UnicastOnly && e.Dst == "ff02::1" {
				return verifkit.Violf(pfx+"/unicast-only-multicast", "interface %q (unicast_only) sent to ff02::1\n%s", ri.Name, d())
			}
			lo, hi, fails := e2eExpect(c, run, i, openAt, time.Unix(0, e.TNS))
			if fails {
				return verifkit.Violf(pfx+"/ra-sent-although-generation-fails", "interface %q sent an RA although it has no eligible address for the RDNSS wildcard\n%s", ri.Name, d())
			}
			if ra.RouterLifetime == 0 && c.Sig != "HUP" && time.Unix(0, e.TNS).After(run.SigAt) {
				lo.RouterLifetime, hi.RouterLifetime = 0, 0 // the final RA
			}
			if err := e2eCompare(pfx+"/wire-differs-from-expected-ra", fmt.Sprintf("RA %d on %q to %s", j, ri.Name, e.Dst), lo, hi, e2eRAItems(ra), false); err != nil {
				return fmt.Errorf("%w\n%s", err, d())
			}
		}
		if _, _, fails := e2eExpect(c, run, i, openAt, run.Exit); full && c.Solicit && !fails && solicited != 1 {
			return verifkit.Violf(pfx+"/solicitation", "interface %q: %d RAs to the solicitor, want 1\n%s", ri.Name, solicited, d())
		}
	}
	// host state
	for i, ri := range run.Ifaces {
		if !full {
			break
		}
		var sets []bool
		for _, e := range run.Events {
			if e.Ev == "set-autoconf" && e.Iface == ri.Name {
				sets = append(sets, e.Value)
			}
		}
		if !ri.Advertise {
			if len(sets) > 0 {
				return verifkit.Violf(pfx+"/autoconf-touched", "interface %q does not advertise but its autoconf setting was written\n%s", ri.Name, d())
			}
			continue
		}
		want := []bool{false, i%2 == 0}
		if ri.Name == run.RecoverIface {
			want = []bool{false, i%2 == 0, false, i%2 == 0} // restored when the first connection is given up, disabled again for the second
		}
		if fmt.Sprint(sets) != fmt.Sprint(want) {
			return verifkit.Violf(pfx+"/autoconf-not-restored", "interface %q: autoconf writes %v, want %v (disable, then restore the initial value)\n%s", ri.Name, sets, want, d())
		}
	}
	return nil
}

// e2eParseProm reads the samples of a Prometheus text exposition: name -> "label values joined by |" -> value.
func e2eParseProm(body []byte, labelOrder map[string][]string) map[string]map[string]float64 {
	out := map[string]map[string]float64{}
	for _, line := range strings.Split(string(body), "\n") {
		if line == "" || line[0] == '#' {
			continue
		}
		name, rest := line, ""
		labels := map[string]string{}
		if i := strings.IndexByte(line, '{'); i >= 0 {
			name = line[:i]
			j := i + 1
			for j < len(line) && line[j] != '}' {
				eq := strings.IndexByte(line[j:], '=')
				if eq < 0 {
					break
				}
				key := strings.TrimLeft(line[j:j+eq], ", ")
				j += eq + 2 // past ="
				var v strings.Builder
				for j < len(line) && line[j] != '"' {
					if line[j] == '\\' && j+1 < len(line) {
						j++
						switch line[j] {
						case 'n':
							v.WriteByte('\n')
						default:
							v.WriteByte(line[j])
						}
					} else {
						v.WriteByte(line[j])
					}
					j++
				}
				j++ // closing quote
				labels[key] = v.String()
			}
			rest = strings.TrimSpace(line[j+1:])
		} else if i := strings.IndexByte(line, ' '); i >= 0 {
			name, rest = line[:i], strings.TrimSpace(line[i+1:])
		}
		order, ok := labelOrder[name]
		if !ok {
			continue
		}
		var f float64
		if _, err := fmt.Sscan(strings.Fields(rest)[0], &f); err != nil {
			continue
		}
		var key []string
		for _, l := range order {
			key = append(key, labels[l])
		}
		if out[name] == nil {
			out[name] = map[string]float64{}
		}
		out[name][strings.Join(key, "|")] = f
	}
	return out
}

// e2eMetrics: the scrape of the real /metrics endpoint mirrors the expected RAs.
func e2eMetrics(c e2eCase, run *e2eRun, pfx string) error {
	order := map[string][]string{
		"corerad_interface_advertising": {"interface"}, "corerad_interface_monitoring": {"interface"}, "corerad_interface_forwarding": {"interface"},
		"corerad_interface_autoconfiguration": {"interface"}, "corerad_advertiser_misconfiguration": {"interface", "details"},
		"corerad_advertiser_dnssl_lifetime_seconds": {"interface", "domains"}, "corerad_advertiser_prefix_autonomous": {"interface", "prefix"},
		"corerad_advertiser_prefix_on_link": {"interface", "prefix"}, "corerad_advertiser_prefix_valid_seconds": {"interface", "prefix"},
		"corerad_advertiser_prefix_preferred_seconds": {"interface", "prefix"}, "corerad_advertiser_rdnss_lifetime_seconds": {"interface", "servers"},
		"corerad_advertiser_route_lifetime_seconds": {"interface", "route"},
	}
	got := e2eParseProm(run.Metrics.Body, order)
	type rng struct{ lo, hi float64 }
	want := map[string]map[string][]rng{}
	put := func(name, key string, lo, hi float64) {
		if want[name] == nil {
			want[name] = map[string][]rng{}
		}
		want[name][key] = append(want[name][key], rng{lo, hi})
	}
	b2f := func(b bool) float64 {
		if b {
			return 1
		}
		return 0
	}
	for i, ri := range run.Ifaces {
		n := ri.Name
		st := stFor(c.State, i)
		put("corerad_interface_advertising", n, b2f(ri.Advertise), b2f(ri.Advertise))
		put("corerad_interface_monitoring", n, b2f(ri.Monitor), b2f(ri.Monitor))
		put("corerad_interface_forwarding", n, b2f(st.Fwd), b2f(st.Fwd))
		auto := i%2 == 0 && !ri.Advertise // advertising interfaces have autoconfiguration disabled while they run
		put("corerad_interface_autoconfiguration", n, b2f(auto), b2f(auto))
		if !ri.Advertise {
			continue
		}
		lo, hi, fails := e2eExpect(c, run, i, run.Metrics.Q, run.Metrics.R)
		if fails {
			return nil // the scrape reports an error for an interface without an eligible RDNSS address (judged in-process)
		}
		if !st.Fwd && ri.DefaultLifetime > 0 {
			put("corerad_advertiser_misconfiguration", n+"|interface_not_forwarding", 1, 1)
		}
		for j, o := range hi.Options {
			switch h := o.(type) {
			case *ndp.PrefixInformation:
				l := lo.Options[j].(*ndp.PrefixInformation)
				key := n + "|" + fmt.Sprintf("%s/%d", h.Prefix, h.PrefixLength)
				put("corerad_advertiser_prefix_autonomous", key, b2f(h.AutonomousAddressConfiguration), b2f(h.AutonomousAddressConfiguration))
				put("corerad_advertiser_prefix_on_link", key, b2f(h.OnLink), b2f(h.OnLink))
				put("corerad_advertiser_prefix_valid_seconds", key, l.ValidLifetime.Seconds(), h.ValidLifetime.Seconds())
				put("corerad_advertiser_prefix_preferred_seconds", key, l.PreferredLifetime.Seconds(), h.PreferredLifetime.Seconds())
			case *ndp.RouteInformation:
				l := lo.Options[j].(*ndp.RouteInformation)
				put("corerad_advertiser_route_lifetime_seconds", n+"|"+fmt.Sprintf("%s/%d", h.Prefix, h.PrefixLength), l.RouteLifetime.Seconds(), h.RouteLifetime.Seconds())
			case *ndp.RecursiveDNSServer:
				var ss []string
				for _, x := range h.Servers {
					ss = append(ss, x.String())
				}
				put("corerad_advertiser_rdnss_lifetime_seconds", n+"|"+strings.Join(ss, ", "), h.Lifetime.Seconds(), h.Lifetime.Seconds())
			case *ndp.DNSSearchList:
				put("corerad_advertiser_dnssl_lifetime_seconds", n+"|"+strings.Join(h.DomainNames, ", "), h.Lifetime.Seconds(), h.Lifetime.Seconds())
			}
		}
	}
	for pi, par := range run.MetricsPar {
		if par.Status == 0 {
			continue
		}
		if par.Status != 200 {
			return verifkit.Violf(pfx+"/overlapping-scrape-fails", "request %d of three simultaneous GET /metrics -> %d", pi, par.Status)
		}
		pg := e2eParseProm(par.Body, order)
		for name := range order {
			for key := range want[name] {
				if _, ok := pg[name][key]; !ok {
					return verifkit.Violf(pfx+"/overlapping-scrape-incomplete", "request %d of three simultaneous GET /metrics lacks the sample %s{%s}", pi, name, key)
				}
			}
			for key := range pg[name] {
				if _, ok := want[name][key]; !ok {
					return verifkit.Violf(pfx+"/overlapping-scrape-incomplete", "request %d of three simultaneous GET /metrics has an unexpected sample %s{%s}", pi, name, key)
				}
			}
		}
	}
	for name := range order {
		for key, rs := range want[name] {
			v, ok := got[name][key]
			if !ok {
				return verifkit.Violf(pfx+"/metrics-sample-missing", "/metrics has no sample %s{%s}\n%s", name, key, firstN(string(run.Metrics.Body), 0))
			}
			in := false
			for _, r := range rs {
				// (float seconds: a microsecond of slack for the conversion)
				in = in || (v >= r.lo-1e-6 && v <= r.hi+1e-6)
			}
			if !in {
				return verifkit.Violf(pfx+"/metrics-sample-differs", "/metrics: %s{%s} = %v, want within %v", name, key, v, rs)
			}
		}
		for key, v := range got[name] {
			if _, ok := want[name][key]; !ok {
				return verifkit.Violf(pfx+"/metrics-sample-unexpected", "/metrics: unexpected sample %s{%s} = %v", name, key, v)
			}
		}
	}
	return nil
}

func e2eGen(forC16 bool) func(t *rapid.T) e2eCase { return e2eGenMode(forC16, false) }

func e2eGenMode(forC16, forC10 bool) func(t *rapid.T) e2eCase {
	return func(t *rapid.T) e2eCase {
		g := &vg{t: t}
		c := e2eCase{Doc: g.genDoc(rapid.IntRange(0, 2).Draw(t, "all-advertise") == 0, 0), State: genSysState(t),
			Sig: rapid.SampledFrom([]string{"TERM", "INT", "HUP", "TERM", "HUP"}).Draw(t, "sig"), Solicit: rapid.Bool().Draw(t, "solicit"),
			WaitMS: rapid.SampledFrom([]int{0, 0, 50, 300, 1200}).Draw(t, "wait"), Prom: rapid.IntRange(0, 3).Draw(t, "prom") != 0}
		c.State.AddrErr, c.State.RouteErr, c.State.NowNS = false, false, 0
		c.Overlap = rapid.IntRange(0, 2).Draw(t, "overlap") == 0
		if rapid.IntRange(0, 4).Draw(t, "repeatlabels") == 0 {
			g.repeatLabels(&c.Doc) // options that share their metric labels without being neighbours in the RA
		}
		if forC16 {
			// short deprecated lifetimes on the first prefix / route stanza of every interface, and time to see them count down
			c.WaitMS = rapid.SampledFrom([]int{1100, 2100}).Draw(t, "c16wait")
			tr := true
			for i := range c.Doc.Interfaces {
				ifi := &c.Doc.Interfaces[i]
				life := func(l string) dDur {
					s := rapid.SampledFrom([]int64{1, 2, 3, 5, 3600}).Draw(t, l)
					return dDur{Kind: "value", NS: s * int64(time.Second), Text: fmt.Sprintf("%ds", s)}
				}
				if len(ifi.Prefixes) == 0 {
					ifi.Prefixes = append(ifi.Prefixes, dPrefix{Prefix: dCIDR{Kind: "value", Text: "2001:db8:c16::/64", Addr: "2001:db8:c16::", Bits: 64}})
					ifi.Order = append(ifi.Order, 0)
				}
				p := &ifi.Prefixes[0]
				p.Deprecated = &tr
				p.Valid = life("c16valid")
				p.Preferred = dDur{Kind: "value", NS: p.Valid.NS, Text: p.Valid.Text}
				if len(ifi.Routes) > 0 {
					ifi.Routes[0].Deprecated = &tr
					ifi.Routes[0].Lifetime = life("c16route")
				}
			}
			c.Restart = rapid.Bool().Draw(t, "restart")
			return c
		}
		// (PortBusy stays in the case type for hand-written replays only: the HTTP task
		// retries a busy address 40 times, it is not a quick way to make a task fail)
		special := rapid.IntRange(0, 7).Draw(t, "special")
		if forC10 {
			special = rapid.SampledFrom([]int{3, 4, 4, 5, 5, 6}).Draw(t, "c10special")
		}
		switch special {
		case 4:
			// a recoverable receive error on the first connection of one interface: the task re-dials
			c.FailIdx = rapid.IntRange(1, 3).Draw(t, "recidx")
			c.FailMS = rapid.SampledFrom([]int{100, 400}).Draw(t, "recms")
			c.FailRecoverable = true
			c.Solicit = false // (the scripted solicitations would be delivered again on the second connection)
		case 5:
			// an interface that appears only at the 2nd..4th dial attempt
			c.LateIdx = rapid.IntRange(1, 3).Draw(t, "lateidx")
			c.LateN = rapid.IntRange(1, 3).Draw(t, "laten")
		case 3:
			// a task fails by itself (fatal receive error) some time after everything came up
			c.FailIdx = rapid.IntRange(1, 3).Draw(t, "failidx")
			c.FailMS = rapid.SampledFrom([]int{300, 600, 1500}).Draw(t, "failms")
			c.Solicit, c.WaitMS = false, 0
		case 0:
			c.Early = true
		case 1, 2:
			c.Missing = []int{rapid.IntRange(0, 3).Draw(t, "missing")}
		}
		return c
	}
}

func e2eProp(k *verifkit.Kit, id string, oracles ...e2eOracle) func(c e2eCase) error {
	return func(c e2eCase) error {
		if c.Early {
			// 3000 idle interfaces: BuildTasks logs a line for each
			var names []string
			for i := 0; i < 3000; i++ {
				names = append(names, fmt.Sprintf("idle%d", i))
			}
			c.Doc.Interfaces = append(append([]dIface(nil), c.Doc.Interfaces...), dIface{HasNames: true, Names: names})
		}
		res := reference(c.Doc, time.Unix(0, 0))
		if res.V != vAccept {
			k.Class("not-an-accepted-configuration")
			return nil
		}
		cfg := res.Cfg
		var miss []int
		for _, m := range c.Missing {
			if m < len(cfg.Interfaces) {
				miss = append(miss, m)
			}
		}
		c.Missing = miss
		adv := 0
		for _, ri := range cfg.Interfaces {
			if ri.Advertise {
				adv++
			}
		}
		cls := []string{"signal=" + c.Sig, fmt.Sprintf("interfaces=%d", min(len(cfg.Interfaces), 4))}
		if c.PortBusy {
			cls = append(cls, "debug-port-busy")
		}
		if len(c.Missing) > 0 {
			cls = append(cls, "interface-missing")
		}
		if c.Restart {
			cls = append(cls, "restart")
		}
		if c.Early {
			cls = append(cls, "signal-before-serve")
		}
		if c.FailIdx > 0 && !c.FailRecoverable {
			cls = append(cls, "task-fails-by-itself")
		}
		if c.FailIdx > 0 && c.FailRecoverable {
			cls = append(cls, "recoverable-receive-error")
		}
		if c.LateIdx > 0 {
			cls = append(cls, "interface-appears-late")
		}
		k.Record(c, adv >= 1, cls...)
		once := func() error {
			runs := 1
			if c.Restart {
				runs = 2
			}
			for r := 0; r < runs; r++ {
				var run *e2eRun
				var err error
				for try := 0; try < 2; try++ {
					run, err = e2eExecute(c, cfg)
					if _, skip := err.(e2eSkip); !skip {
						break
					}
				}
				if err != nil {
					return err
				}
				for _, o := range oracles {
					if err := o(c, run); err != nil {
						return err
					}
				}
			}
			return nil
		}
		err := once()
		if err == nil {
			return nil
		}
		if s, ok := err.(e2eSkip); ok {
			k.Skip("whole-process case exceeded its real-time budget twice: " + firstN(s.why, 200))
			return nil
		}
		// real time is involved: a violation counts only if it reproduces
		err2 := once()
		if err2 == nil {
			k.Skip("whole-process violation did not reproduce (real-time effect): " + firstN(err.Error(), 300))
			return nil
		}
		if _, ok := err2.(e2eSkip); ok {
			k.Skip("whole-process violation could not be re-run within the budget")
			return nil
		}
		return err
	}
}

func e2eTest(t *testing.T, id string, n func(k *verifkit.Kit) int, forC16 bool, oracles ...e2eOracle) {
	k := verifkit.Start(t, id)
	k.WholeProcess = true
	prop := e2eProp(k, id, oracles...)
	k.Regress(t, func(sub string, raw json.RawMessage) error { return verifkit.Decode(raw, prop) })
	verifkit.Rapid(k, t, "whole-process", n(k), e2eGen(forC16), prop)
}

func TestVerif_C10main(t *testing.T) {
	k := verifkit.Start(t, "C10")
	k.WholeProcess = true
	prop := e2eProp(k, "C10", oracleC10, oracleC20)
	k.Regress(t, func(sub string, raw json.RawMessage) error { return verifkit.Decode(raw, prop) })
	verifkit.Rapid(k, t, "whole-process", k.N(24, 1200), e2eGenMode(false, true), prop)
}

// e2eGenTraffic: ordinary runs (no special mode) with the scripted traffic and Prometheus on.
func e2eGenTraffic(t *rapid.T) e2eCase {
	c := e2eGenMode(false, false)(t)
	c.Early, c.Missing, c.FailIdx, c.LateIdx, c.FailRecoverable = false, nil, 0, 0, false
	c.Prom, c.Traffic, c.Solicit = true, true, rapid.Bool().Draw(t, "traffic-solicit")
	c.Unspec = rapid.IntRange(0, 5).Draw(t, "traffic-unspec") == 0
	return c
}

func e2eTrafficTest(t *testing.T, id string, o e2eOracle) {
	k := verifkit.Start(t, id)
	k.WholeProcess = true
	prop := e2eProp(k, id, o)
	k.Regress(t, func(sub string, raw json.RawMessage) error { return verifkit.Decode(raw, prop) })
	verifkit.Rapid(k, t, "whole-process", k.N(24, 1200), e2eGenTraffic, prop)
}

func TestVerif_C18main(t *testing.T) {
	e2eTrafficTest(t, "C18", e2eTraffic("C18main", true, false, false))
}
func TestVerif_C12main(t *testing.T) {
	e2eTrafficTest(t, "C12", e2eTraffic("C12main", false, true, false))
}
func TestVerif_C07main(t *testing.T) {
	e2eTrafficTest(t, "C07", e2eTraffic("C07main", false, false, true))
}

func e2eGenFlip(t *rapid.T) e2eCase {
	c := e2eGenMode(false, false)(t)
	c.Early, c.Missing, c.FailIdx, c.LateIdx, c.FailRecoverable = false, nil, 0, 0, false
	c.Flip, c.Solicit, c.WaitMS = true, rapid.Bool().Draw(t, "flip-solicit"), 0
	return c
}

func TestVerif_C04main(t *testing.T) {
	k := verifkit.Start(t, "C04")
	k.WholeProcess = true
	prop := e2eProp(k, "C04", oracleC04)
	k.Regress(t, func(sub string, raw json.RawMessage) error { return verifkit.Decode(raw, prop) })
	verifkit.Rapid(k, t, "whole-process", k.N(24, 1200), e2eGenFlip, prop)
}

func TestVerif_C11main(t *testing.T) {
	k := verifkit.Start(t, "C11")
	k.WholeProcess = true
	prop := e2eProp(k, "C11", oracleC11)
	k.Regress(t, func(sub string, raw json.RawMessage) error { return verifkit.Decode(raw, prop) })
	verifkit.Rapid(k, t, "whole-process", k.N(24, 1200), e2eGenMode(false, false), prop)
}

func TestVerif_C20main(t *testing.T) {
	e2eTest(t, "C20", func(k *verifkit.Kit) int { return k.N(32, 1600) }, false, oracleC20)
}
func TestVerif_C08main(t *testing.T) {
	e2eTest(t, "C08", func(k *verifkit.Kit) int { return k.N(32, 1600) }, false, oracleC08)
}
func TestVerif_C17main(t *testing.T) {
	e2eTest(t, "C17", func(k *verifkit.Kit) int { return k.N(32, 1600) }, false, oracleC17)
}
func TestVerif_C16main(t *testing.T) {
	e2eTest(t, "C16", func(k *verifkit.Kit) int { return k.N(16, 600) }, true, oracleC16)
}

var _ = netip.Addr{}

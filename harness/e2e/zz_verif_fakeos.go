package system

// Fake operating system for the whole-process checks (/verif, part
// "main-process"): the staged copy renames dial()'s three OS-facing callees,
// NewState and the rtnetlink execute hook to the functions below, so that the
// unmodified cmd/corerad main() runs as a real process - real flag parsing,
// signal handling, HTTP listener, systemd notification, link watcher, task
// supervision, advertisers and monitors - without opening a raw socket,
// touching /proc/sys or sending a packet. The world is read from the JSON file
// named by VERIF_WORLD; everything the program does to it is appended to the
// world's log file, one JSON object per line.

import (
	"encoding/hex"
	"encoding/json"
	"fmt"
	"net"
	"net/netip"
	"os"
	"sync"
	"time"

	"github.com/jsimonetti/rtnetlink"
	"github.com/mdlayher/ndp"
	"github.com/mdlayher/netlink"
	"golang.org/x/net/ipv6"
	"golang.org/x/sys/unix"
)

type VkRS struct {
	AfterMS int    `json:"after_ms"` // after the connection was opened
	From    string `json:"from"`
	Hop     int    `json:"hop"`
	Wire    string `json:"wire,omitempty"` // hex of a marshalled NDP message to deliver instead of a plain RS
}

type VkIface struct {
	Index      int    `json:"index"`
	MAC        []byte `json:"mac"`
	Forwarding bool   `json:"forwarding"`
	Autoconf   bool   `json:"autoconf"`
	Addrs      []IP   `json:"addrs"`
	RS         []VkRS `json:"rs"`
	// ReadErrAfterMS > 0: this long after the connection was opened, reads fail with a
	// permission-class system call error (which the recovery policy treats as fatal)
	ReadErrAfterMS int `json:"read_err_after_ms,omitempty"`
	// ReadErrRecoverable: the error is ENETDOWN (recoverable: the task re-dials) instead of EPERM,
	// and it hits only the first connection of the interface
	ReadErrRecoverable bool `json:"read_err_recoverable,omitempty"`
	// MissingLookups: the first n lookups of the interface report that it does not exist yet
	MissingLookups int `json:"missing_lookups,omitempty"`
}

type VkWorld struct {
	Log    string             `json:"log"`
	Ifaces map[string]VkIface `json:"ifaces"`
	Routes []Route            `json:"routes"` // the loopback routes
	// StateDelayMS: every read of an interface's forwarding state takes this long (a slow sysctl read),
	// so that requests that are served at the same time really overlap
	StateDelayMS int `json:"state_delay_ms,omitempty"`
}

type VkEvent struct {
	TNS   int64  `json:"t_ns"` // wall clock, UnixNano
	Ev    string `json:"ev"`   // lookup open close leave write get-autoconf set-autoconf get-forwarding
	Iface string `json:"iface,omitempty"`
	Conn  int    `json:"conn,omitempty"`
	Dst   string `json:"dst,omitempty"`
	From  string `json:"from,omitempty"` // read: the sender
	Msg   string `json:"msg,omitempty"`  // marshalled NDP message, hex
	Value bool   `json:"value,omitempty"`
}

var vk struct {
	once  sync.Once
	mu    sync.Mutex
	w     VkWorld
	log   *os.File
	conns int
	auto  map[string]bool
	looks map[string]int
	dials map[string]int
}

func vkInit() {
	vk.once.Do(func() {
		b, err := os.ReadFile(os.Getenv("VERIF_WORLD"))
		if err != nil {
			panic("verif: cannot read world: " + err.Error())
		}
		if err := json.Unmarshal(b, &vk.w); err != nil {
			panic("verif: cannot decode world: " + err.Error())
		}
		f, err := os.OpenFile(vk.w.Log, os.O_APPEND|os.O_CREATE|os.O_WRONLY, 0o644)
		if err != nil {
			panic("verif: cannot open log: " + err.Error())
		}
		vk.log = f
		vk.auto = map[string]bool{}
		vk.looks, vk.dials = map[string]int{}, map[string]int{}
		for n, i := range vk.w.Ifaces {
			vk.auto[n] = i.Autoconf
		}
	})
}

// vkLog appends one event; the caller must not hold vk.mu.
func vkLog(e VkEvent) {
	vkInit()
	vk.mu.Lock()
	defer vk.mu.Unlock()
	e.TNS = time.Now().UnixNano()
	b, _ := json.Marshal(e)
	_, _ = vk.log.Write(append(b, '\n'))
}

// --- dial() callees --------------------------------------------------------

func vkLookupInterface(iface string) (*net.Interface, error) {
	vkInit()
	i, ok := vk.w.Ifaces[iface]
	if ok {
		vk.mu.Lock()
		vk.looks[iface]++
		if vk.looks[iface] <= i.MissingLookups {
			ok = false
		}
		vk.mu.Unlock()
	}
	vkLog(VkEvent{Ev: "lookup", Iface: iface, Value: ok})
	if !ok {
		return nil, fmt.Errorf("interface %q does not exist: %w", iface, ErrLinkNotReady)
	}
	ifi := &net.Interface{Index: i.Index, Name: iface, MTU: 1500, Flags: net.FlagUp | net.FlagMulticast}
	if len(i.MAC) > 0 {
		ifi.HardwareAddr = net.HardwareAddr(i.MAC)
	}
	return ifi, nil
}

func vkCheckInterface(ifi *net.Interface, _ func() ([]net.Addr, error)) error { return nil }

type vkTimeout struct{}

func (vkTimeout) Error() string   { return "verif: i/o timeout" }
func (vkTimeout) Timeout() bool   { return true }
func (vkTimeout) Temporary() bool { return true }

// vkNDPConn stands in for *ndp.Conn.
type vkNDPConn struct {
	iface  string
	id     int
	opened time.Time

	mu              sync.Mutex
	deadline        time.Time
	closed          bool
	wake            chan struct{}
	rs              []VkRS
	failAt          time.Time
	failRecoverable bool
}

func vkDialNDP(ifi *net.Interface) (*vkNDPConn, netip.Addr, error) {
	vkInit()
	vk.mu.Lock()
	vk.conns++
	id := vk.conns
	vk.mu.Unlock()
	c := &vkNDPConn{iface: ifi.Name, id: id, opened: time.Now(), wake: make(chan struct{}, 1), rs: append([]VkRS(nil), vk.w.Ifaces[ifi.Name].RS...)}
	vk.mu.Lock()
	vk.dials[ifi.Name]++
	nth := vk.dials[ifi.Name]
	vk.mu.Unlock()
	if wi := vk.w.Ifaces[ifi.Name]; wi.ReadErrAfterMS > 0 && (!wi.ReadErrRecoverable || nth == 1) {
		c.failAt = c.opened.Add(time.Duration(wi.ReadErrAfterMS) * time.Millisecond)
		c.failRecoverable = wi.ReadErrRecoverable
	}
	vkLog(VkEvent{Ev: "open", Iface: ifi.Name, Conn: id})
	return c, netip.MustParseAddr("fe80::1").WithZone(ifi.Name), nil
}

func (c *vkNDPConn) poke() {
	select {
	case c.wake <- struct{}{}:
	default:
	}
}

func (c *vkNDPConn) ReadFrom() (ndp.Message, *ipv6.ControlMessage, netip.Addr, error) {
	for {
		c.mu.Lock()
		now := time.Now()
		if c.closed {
			c.mu.Unlock()
			return nil, nil, netip.Addr{}, net.ErrClosed
		}
		if !c.deadline.IsZero() && !now.Before(c.deadline) {
			c.mu.Unlock()
			return nil, nil, netip.Addr{}, vkTimeout{}
		}
		wait := time.Hour
		if !c.failAt.IsZero() {
			if !now.Before(c.failAt) {
				c.mu.Unlock()
				errno := unix.EPERM
				if c.failRecoverable {
					errno = unix.ENETDOWN
				}
				vkLog(VkEvent{Ev: "read-error", Iface: c.iface, Conn: c.id, Value: c.failRecoverable})
				return nil, nil, netip.Addr{}, &net.OpError{Op: "read", Net: "ip6:ipv6-icmp", Err: os.NewSyscallError("recvmsg", errno)}
			}
			wait = c.failAt.Sub(now)
		}
		if len(c.rs) > 0 {
			due := c.opened.Add(time.Duration(c.rs[0].AfterMS) * time.Millisecond)
			if !now.Before(due) {
				r := c.rs[0]
				c.rs = c.rs[1:]
				c.mu.Unlock()
				hop := r.Hop
				if hop == 0 {
					hop = 255
				}
				var m ndp.Message = &ndp.RouterSolicitation{}
				if r.Wire != "" {
					b, err := hex.DecodeString(r.Wire)
					if err == nil {
						m, err = ndp.ParseMessage(b)
					}
					if err != nil {
						panic("verif: scripted message does not parse: " + err.Error())
					}
				}
				vkLog(VkEvent{Ev: "read", Iface: c.iface, Conn: c.id, From: r.From, Msg: m.Type().String(), Value: hop == 255})
				return m, &ipv6.ControlMessage{HopLimit: hop}, netip.MustParseAddr(r.From).WithZone(c.iface), nil
			}
			if d := due.Sub(now); d < wait {
				wait = d
			}
		}
		if !c.deadline.IsZero() {
			if d := c.deadline.Sub(now); d < wait {
				wait = d
			}
		}
		c.mu.Unlock()
		t := time.NewTimer(wait)
		select {
		case <-t.C:
		case <-c.wake:
			t.Stop()
		}
	}
}

func (c *vkNDPConn) SetReadDeadline(t time.Time) error {
	c.mu.Lock()
	c.deadline = t
	c.mu.Unlock()
	c.poke()
	return nil
}

func (c *vkNDPConn) WriteTo(m ndp.Message, cm *ipv6.ControlMessage, dst netip.Addr) error {
	b, err := ndp.MarshalMessage(m)
	if err != nil {
		return err
	}
	c.mu.Lock()
	closed := c.closed
	c.mu.Unlock()
	if closed {
		vkLog(VkEvent{Ev: "write-after-close", Iface: c.iface, Conn: c.id, Dst: dst.String(), Msg: hex.EncodeToString(b)})
		return net.ErrClosed
	}
	vkLog(VkEvent{Ev: "write", Iface: c.iface, Conn: c.id, Dst: dst.WithZone("").String(), Msg: hex.EncodeToString(b)})
	return nil
}

func (c *vkNDPConn) LeaveGroup(netip.Addr) error {
	vkLog(VkEvent{Ev: "leave", Iface: c.iface, Conn: c.id})
	return nil
}

func (c *vkNDPConn) Close() error {
	c.mu.Lock()
	c.closed = true
	c.mu.Unlock()
	c.poke()
	vkLog(VkEvent{Ev: "close", Iface: c.iface, Conn: c.id})
	return nil
}

// --- State -------------------------------------------------------------------

type vkState struct{}

func vkNewState() State { vkInit(); return vkState{} }

func (vkState) IPv6Autoconf(iface string) (bool, error) {
	vk.mu.Lock()
	v, ok := vk.auto[iface]
	vk.mu.Unlock()
	if !ok {
		return false, fmt.Errorf("verif: %s: %w", iface, os.ErrNotExist)
	}
	vkLog(VkEvent{Ev: "get-autoconf", Iface: iface, Value: v})
	return v, nil
}

func (vkState) IPv6Forwarding(iface string) (bool, error) {
	i, ok := vk.w.Ifaces[iface]
	if !ok {
		return false, fmt.Errorf("verif: %s: %w", iface, os.ErrNotExist)
	}
	if vk.w.StateDelayMS > 0 {
		time.Sleep(time.Duration(vk.w.StateDelayMS) * time.Millisecond)
	}
	// the harness changes the forwarding state of a running process by writing <log>.fwd.<interface>
	if b, err := os.ReadFile(vk.w.Log + ".fwd." + iface); err == nil && len(b) > 0 {
		return b[0] == '1', nil
	}
	return i.Forwarding, nil
}

func (vkState) SetIPv6Autoconf(iface string, enable bool) error {
	vk.mu.Lock()
	_, ok := vk.auto[iface]
	if ok {
		vk.auto[iface] = enable
	}
	vk.mu.Unlock()
	if !ok {
		return fmt.Errorf("verif: %s: %w", iface, os.ErrNotExist)
	}
	vkLog(VkEvent{Ev: "set-autoconf", Iface: iface, Value: enable})
	return nil
}

// --- rtnetlink ---------------------------------------------------------------

func vkExecute(m rtnetlink.Message, family uint16, flags netlink.HeaderFlags) ([]rtnetlink.Message, error) {
	vkInit()
	var out []rtnetlink.Message
	switch req := m.(type) {
	case *rtnetlink.AddressMessage:
		for _, i := range vk.w.Ifaces {
			if uint32(i.Index) != req.Index {
				continue
			}
			for _, a := range i.Addrs {
				var fl uint32
				if a.Temporary {
					fl |= unix.IFA_F_TEMPORARY
				}
				if a.Deprecated {
					fl |= unix.IFA_F_DEPRECATED
				}
				if a.Tentative {
					fl |= unix.IFA_F_TENTATIVE
				}
				if a.ManageTemporaryAddresses {
					fl |= unix.IFA_F_MANAGETEMPADDR
				}
				if a.StablePrivacy {
					fl |= unix.IFA_F_STABLE_PRIVACY
				}
				valid := uint32(86400)
				if a.ValidForever {
					valid = 0xffffffff
				}
				if !a.Address.Addr().Is6() || a.Address.Addr().Is4In6() {
					continue // the kernel filters by the requested family
				}
				out = append(out, &rtnetlink.AddressMessage{Family: unix.AF_INET6, PrefixLength: uint8(a.Address.Bits()), Index: req.Index,
					Attributes: &rtnetlink.AddressAttributes{Address: a.Address.Addr().AsSlice(), Flags: fl,
						CacheInfo: rtnetlink.CacheInfo{Valid: valid, Prefered: valid}}})
			}
		}
	case *rtnetlink.RouteMessage:
		for _, r := range vk.w.Routes {
			if !r.Prefix.Addr().Is6() || r.Prefix.Addr().Is4In6() {
				continue // the kernel filters by family
			}
			rm := &rtnetlink.RouteMessage{Family: unix.AF_INET6, DstLength: uint8(r.Prefix.Bits()),
				Attributes: rtnetlink.RouteAttributes{Dst: r.Prefix.Addr().AsSlice(), OutIface: req.Attributes.OutIface}}
			// (The kernel sends no destination attribute for a default route, and the addresser panics on that:
			// known finding F21, recorded under C15's OS part, which reproduces the kernel's shape.  Here the
			// attribute is sent all the same, so that the finding is excluded by construction and the whole-process
			// parts of the other properties keep exploring states with a default route on loopback.)
			out = append(out, rm)
		}
	}
	return out, nil
}

package system

// OS-facing half of C13/C14 (address flags from rtnetlink) and C15 (loopback
// route dump): the real addresser with its rtnetlink execute hook replaced by
// generated kernel replies. Oracle: the field-by-field mapping the statements
// rely on (which addresses are deprecated / temporary / tentative / stable,
// prefix lengths, route destinations and preferences), independent of order.

import (
	"encoding/json"
	"fmt"
	"math"
	"net/netip"
	"strings"
	"sync"
	"testing"
	"time"

	"github.com/jsimonetti/rtnetlink"
	"github.com/mdlayher/corerad/internal/verifkit"
	"github.com/mdlayher/netlink"
	"golang.org/x/sys/unix"
	"pgregory.net/rapid"
)

type osAddr struct {
	Addr  string `json:"addr"`
	Bits  uint8  `json:"bits"`
	Flags uint32 `json:"flags"`
	Valid uint32 `json:"valid_lft"`
	Pref  uint32 `json:"preferred_lft"`
	// a point-to-point address (`ip addr add <addr> peer <peer>/<bits>`): the kernel then reports the peer in
	// IFA_ADDRESS and the interface's own address in IFA_LOCAL (linux/if_addr.h; seen on this sandbox's kernel)
	Peer string `json:"peer,omitempty"`
}

// attrs is the address reply as the kernel builds it (inet6_fill_ifaddr).
func (x osAddr) attrs() *rtnetlink.AddressAttributes {
	a := &rtnetlink.AddressAttributes{Address: netip.MustParseAddr(x.Addr).AsSlice(), Flags: x.Flags, CacheInfo: rtnetlink.CacheInfo{Valid: x.Valid, Prefered: x.Pref}}
	if x.Peer != "" {
		a.Local, a.Address = a.Address, netip.MustParseAddr(x.Peer).AsSlice()
	}
	return a
}

type osRoute struct {
	Dst   string `json:"dst"`
	Bits  uint8  `json:"bits"`
	Pref  int    `json:"pref"` // -1 = attribute absent
	OutIf uint32 `json:"oif"`
}

type osCase struct {
	Addrs  []osAddr  `json:"addrs"`
	Routes []osRoute `json:"routes"`
	Index  int       `json:"index"`
	// the first FailN dump requests of each kind fail with the system call error Errno (99 = every request fails)
	Errno string `json:"errno,omitempty"`
	FailN int    `json:"fail_n,omitempty"`
}

func osProp(k *verifkit.Kit) func(c osCase) error {
	return func(c osCase) error {
		flagged := 0
		for _, a := range c.Addrs {
			if a.Flags != 0 || a.Valid == math.MaxUint32 {
				flagged++
			}
		}
		k.Record(c, flagged > 0 || len(c.Routes) > 1, fmt.Sprintf("addrs=%d", min(len(c.Addrs), 6)), fmt.Sprintf("routes=%d", min(len(c.Routes), 6)))
		routes := c.Routes
		if k.ID != "C15" {
			// (a default route is C15's business - finding F21; the address properties see the dump without it)
			routes = nil
			for _, x := range c.Routes {
				if x.Bits != 0 {
					routes = append(routes, x)
				}
			}
		}
		var gotReq []string
		failed := map[string]int{}
		fails := func(kind string) error {
			if c.Errno == "" || failed[kind] >= c.FailN {
				return nil
			}
			failed[kind]++
			errno := map[string]unix.Errno{"EINTR": unix.EINTR, "EAGAIN": unix.EAGAIN, "ENODEV": unix.ENODEV, "EPERM": unix.EPERM, "ENOBUFS": unix.ENOBUFS}[c.Errno]
			// as package netlink reports it: an *netlink.OpError around the errno
			return &netlink.OpError{Op: "receive", Err: errno}
		}
		a := &addresser{execute: func(m rtnetlink.Message, family uint16, flags netlink.HeaderFlags) ([]rtnetlink.Message, error) {
			var out []rtnetlink.Message
			switch req := m.(type) {
			case *rtnetlink.AddressMessage:
				gotReq = append(gotReq, fmt.Sprintf("addr family=%d index=%d", req.Family, req.Index))
				if err := fails("addr"); err != nil {
					return nil, err
				}
				for _, x := range c.Addrs {
					out = append(out, &rtnetlink.AddressMessage{Family: unix.AF_INET6, PrefixLength: x.Bits, Index: req.Index, Attributes: x.attrs()})
				}
			case *rtnetlink.RouteMessage:
				gotReq = append(gotReq, fmt.Sprintf("route family=%d oif=%d table=%d", req.Family, req.Attributes.OutIface, req.Attributes.Table))
				if err := fails("route"); err != nil {
					return nil, err
				}
				for _, x := range routes {
					ip := netip.MustParseAddr(x.Dst)
					rm := &rtnetlink.RouteMessage{Family: unix.AF_INET6, DstLength: x.Bits,
						Attributes: rtnetlink.RouteAttributes{Dst: ip.AsSlice(), OutIface: x.OutIf}}
					if x.Bits == 0 {
						// as the kernel reports a default route (rt6_fill_node puts RTA_DST only if dst_len != 0; seen on
						// this sandbox's kernel with `ip -6 route add blackhole default`): no destination attribute
						rm.Attributes.Dst = nil
					}
					if x.Pref >= 0 {
						p := uint8(x.Pref)
						rm.Attributes.Pref = &p
					}
					out = append(out, rm)
				}
			}
			return out, nil
		}}
		ips, err := a.AddressesByIndex(c.Index)
		persistent := c.Errno != "" && c.FailN >= 99
		if persistent {
			// a dump that keeps failing must surface as an error (the wildcards then fail RA generation instead of
			// advertising nothing); how often it is retried is the code's business
			if err == nil {
				return verifkit.Violf("OS/dump-failure-swallowed", "every address dump fails with %s, yet AddressesByIndex returned %v and no error (%d requests)", c.Errno, ips, len(gotReq))
			}
			n := len(gotReq)
			rts, err := a.routesByIndex(c.Index)
			if err == nil {
				return verifkit.Violf("OS/dump-failure-swallowed", "every route dump fails with %s, yet routesByIndex returned %v and no error (%d requests)", c.Errno, rts, len(gotReq)-n)
			}
			return nil
		}
		if err != nil && c.Errno != "" {
			return nil // a transient failure may be reported (the code as it stands does not retry) ...
		}
		if err != nil {
			return verifkit.Violf("OS/addresses-error", "AddressesByIndex: %v", err)
		}
		if len(ips) != len(c.Addrs) {
			return verifkit.Violf("OS/address-count", "kernel listed %d addresses, addresser returned %d", len(c.Addrs), len(ips))
		}
		// (the listing is compared as a multiset: nothing obliges the addresser to keep the kernel's order - the plugins'
		// results do not depend on it, which is what C13 and C14 say)
		gotIPs := map[IP]int{}
		for _, ip := range ips {
			gotIPs[ip]++
		}
		for i, x := range c.Addrs {
			want := IP{
				Address:                  netip.PrefixFrom(netip.MustParseAddr(x.Addr), int(x.Bits)),
				Deprecated:               x.Flags&0x20 != 0,  // IFA_F_DEPRECATED
				Temporary:                x.Flags&0x01 != 0,  // IFA_F_TEMPORARY (secondary)
				Tentative:                x.Flags&0x40 != 0,  // IFA_F_TENTATIVE
				ManageTemporaryAddresses: x.Flags&0x100 != 0, // IFA_F_MANAGETEMPADDR
				StablePrivacy:            x.Flags&0x800 != 0, // IFA_F_STABLE_PRIVACY
				ValidForever:             x.Valid == math.MaxUint32,
			}
			if gotIPs[want] == 0 {
				return verifkit.Violf("OS/address-flags-mapping", "address %d (%s/%d flags %#x valid %d): want %+v, the addresser returned %+v", i, x.Addr, x.Bits, x.Flags, x.Valid, want, ips)
			}
			gotIPs[want]--
		}
		var rts []Route
		defaults := 0
		for _, x := range routes {
			if x.Bits == 0 {
				defaults++
			}
		}
		var pan any
		func() {
			defer func() { pan = recover() }()
			rts, err = a.routesByIndex(c.Index)
		}()
		if pan != nil {
			if defaults > 0 && strings.Contains(fmt.Sprint(pan), `invalid IPv6 route from rtnetlink: "<nil>"`) {
				// (finding F21: listed in known_findings.json under this signature for C15)
				return verifkit.Violf("OS/default-route-on-loopback-panics", "the dump lists a default route (no destination attribute, as the kernel sends it): routesByIndex panics: %v", pan)
			}
			return verifkit.Violf("panic", "routesByIndex panics: %v", pan)
		}
		if err != nil && c.Errno != "" {
			return nil
		}
		if err != nil {
			return verifkit.Violf("OS/routes-error", "routesByIndex: %v", err)
		}
		if len(rts) != len(routes) {
			return verifkit.Violf("OS/route-count", "kernel listed %d routes, addresser returned %d", len(routes), len(rts))
		}
		gotRts := map[string]int{}
		for _, rt := range rts {
			gotRts[fmt.Sprintf("%v %d %d", rt.Prefix, rt.Index, int(rt.Preference))]++
		}
		for i, x := range routes {
			pref := 0
			if x.Pref >= 0 {
				pref = x.Pref
			}
			want := fmt.Sprintf("%v %d %d", netip.PrefixFrom(netip.MustParseAddr(x.Dst), int(x.Bits)), x.OutIf, pref)
			if gotRts[want] == 0 {
				return verifkit.Violf("OS/route-mapping", "route %d: want %s, the addresser returned %v", i, want, rts)
			}
			gotRts[want]--
		}
		wantReq := []string{fmt.Sprintf("addr family=%d index=%d", unix.AF_INET6, c.Index), fmt.Sprintf("route family=%d oif=%d table=%d", unix.AF_INET6, c.Index, unix.RT_TABLE_MAIN)}
		if c.Errno != "" {
			// ... or overcome by asking again: then the same two requests, possibly repeated
			var dedup []string
			for _, r := range gotReq {
				if len(dedup) == 0 || dedup[len(dedup)-1] != r {
					dedup = append(dedup, r)
				}
			}
			gotReq = dedup
		}
		if fmt.Sprint(gotReq) != fmt.Sprint(wantReq) {
			return verifkit.Violf("OS/request", "requests sent to the kernel: want %v got %v", wantReq, gotReq)
		}
		return nil
	}
}

func osGen(t *rapid.T) osCase {
	c := osCase{Index: rapid.IntRange(1, 9).Draw(t, "index")}
	if rapid.IntRange(0, 4).Draw(t, "bigindex") == 0 {
		c.Index = rapid.SampledFrom([]int{255, 256, 65535, 65536, 70000, 1<<31 - 1}).Draw(t, "indexv") // (interface indices only grow on a long-lived host)
	}
	nets := []string{"2001:db8:1::", "2001:db8:2::", "fd00:1::", "fe80::"}
	for i, n := 0, rapid.IntRange(0, 8).Draw(t, "naddrs"); i < n; i++ {
		base := netip.MustParseAddr(rapid.SampledFrom(nets).Draw(t, "net")).As16()
		base[15] = byte(rapid.IntRange(1, 250).Draw(t, "host"))
		var fl uint32
		for _, bit := range []uint32{0x01, 0x02, 0x04, 0x08, 0x10, 0x20, 0x40, 0x80, 0x100, 0x200, 0x400, 0x800} {
			if rapid.IntRange(0, 4).Draw(t, "flag") == 0 {
				fl |= bit
			}
		}
		c.Addrs = append(c.Addrs, osAddr{Addr: netip.AddrFrom16(base).String(), Bits: uint8(rapid.SampledFrom([]int{64, 64, 128, 48, 56, 0, 1, 63, 65, 127}).Draw(t, "bits")), Flags: fl,
			Valid: rapid.SampledFrom([]uint32{math.MaxUint32, math.MaxUint32 - 1, 0, 86400}).Draw(t, "valid"), Pref: rapid.SampledFrom([]uint32{math.MaxUint32, 0, 14400}).Draw(t, "pref")})
		if rapid.IntRange(0, 5).Draw(t, "ptp") == 0 {
			peer := netip.MustParseAddr(rapid.SampledFrom(nets).Draw(t, "peernet")).As16()
			peer[15] = byte(rapid.IntRange(1, 250).Draw(t, "peerhost"))
			c.Addrs[len(c.Addrs)-1].Peer = netip.AddrFrom16(peer).String()
		}
	}
	for i, n := 0, rapid.IntRange(0, 6).Draw(t, "nroutes"); i < n; i++ {
		p := netip.PrefixFrom(netip.MustParseAddr(rapid.SampledFrom([]string{"2001:db8::", "2001:db8:0:1::", "fd00::", "::"}).Draw(t, "dst")), rapid.SampledFrom([]int{0, 32, 48, 64, 128}).Draw(t, "rbits")).Masked()
		c.Routes = append(c.Routes, osRoute{Dst: p.Addr().String(), Bits: uint8(p.Bits()), Pref: rapid.SampledFrom([]int{-1, 0, 1, 3}).Draw(t, "rpref"), OutIf: uint32(c.Index)})
	}
	if rapid.IntRange(0, 3).Draw(t, "dumpfails") == 0 {
		c.Errno = rapid.SampledFrom([]string{"EINTR", "EAGAIN", "ENODEV", "EPERM", "ENOBUFS"}).Draw(t, "errno")
		c.FailN = rapid.SampledFrom([]int{1, 2, 3, 5, 99, 99}).Draw(t, "failn")
	}
	return c
}

// osFlags: every single flag bit and every pair, on one address.
func osFlags(yield func(osCase) bool) {
	bits := []uint32{0x01, 0x02, 0x04, 0x08, 0x10, 0x20, 0x40, 0x80, 0x100, 0x200, 0x400, 0x800}
	for i := -1; i < len(bits); i++ {
		for j := i; j < len(bits); j++ {
			var fl uint32
			if i >= 0 {
				fl |= bits[i]
			}
			if j >= 0 {
				fl |= bits[j]
			}
			for _, valid := range []uint32{math.MaxUint32, 3600} {
				if !yield(osCase{Index: 2, Addrs: []osAddr{{Addr: "2001:db8:1::1", Bits: 64, Flags: fl, Valid: valid, Pref: valid}}}) {
					return
				}
			}
		}
	}
}

// osOverlapProp: two address listings for one interface at the same time (two RA builds: the advertiser's and a
// scrape's), the first one still waiting for the kernel when the second one starts; the dump fails for both, or succeeds
// for both. Whatever the code shares between the two calls, each caller must get the error, or the full listing.
func osOverlapProp(k *verifkit.Kit) func(c osCase) error {
	return func(c osCase) error {
		fails := c.Errno != ""
		k.Record(c, true, fmt.Sprintf("os-overlap:dump-fails=%v", fails))
		entered, release := make(chan struct{}), make(chan struct{})
		var once sync.Once
		a := &addresser{execute: func(m rtnetlink.Message, family uint16, flags netlink.HeaderFlags) ([]rtnetlink.Message, error) {
			first := false
			once.Do(func() { first = true })
			if first {
				close(entered)
				<-release
			}
			if fails {
				return nil, &netlink.OpError{Op: "receive", Err: unix.ENOBUFS}
			}
			var out []rtnetlink.Message
			if req, ok := m.(*rtnetlink.AddressMessage); ok {
				for _, x := range c.Addrs {
					out = append(out, &rtnetlink.AddressMessage{Family: unix.AF_INET6, PrefixLength: x.Bits, Index: req.Index,
						Attributes: x.attrs()})
				}
			}
			return out, nil
		}}
		type res struct {
			ips []IP
			err error
		}
		r1, r2 := make(chan res, 1), make(chan res, 1)
		go func() { ips, err := a.AddressesByIndex(c.Index); r1 <- res{ips, err} }()
		<-entered
		go func() { ips, err := a.AddressesByIndex(c.Index); r2 <- res{ips, err} }()
		time.Sleep(300 * time.Microsecond) // (if the second caller waits for the first one's result, let it get there)
		close(release)
		for i, ch := range []chan res{r1, r2} {
			r := <-ch
			switch {
			case fails && r.err == nil:
				return verifkit.Violf("OS/dump-failure-swallowed", "two listings at once and the dump fails: caller %d got %v and no error", i+1, r.ips)
			case !fails && (r.err != nil || len(r.ips) != len(c.Addrs)):
				return verifkit.Violf("OS/overlapping-listings", "two listings at once: caller %d got %d of %d addresses, error %v", i+1, len(r.ips), len(c.Addrs), r.err)
			}
		}
		return nil
	}
}

func testVerifOS(t *testing.T, id string) {
	k := verifkit.Start(t, id)
	prop := osProp(k)
	k.Regress(t, func(sub string, raw json.RawMessage) error {
		if len(sub) < 2 || sub[:2] != "os" {
			return nil
		}
		if strings.HasPrefix(sub, "os-overlapping") {
			return verifkit.Decode(raw, osOverlapProp(k))
		}
		return verifkit.Decode(raw, prop)
	})
	verifkit.Enumerate(k, t, "os-flag-singles-and-pairs", true, osFlags, prop)
	verifkit.Rapid(k, t, "os-rtnetlink-replies", k.N(2000, 300000), osGen, prop)
	verifkit.Rapid(k, t, "os-overlapping-listings", k.N(300, 20000), osGen, osOverlapProp(k))
}

func TestVerif_C13os(t *testing.T) { testVerifOS(t, "C13") }
func TestVerif_C14os(t *testing.T) { testVerifOS(t, "C14") }
func TestVerif_C15os(t *testing.T) { testVerifOS(t, "C15") }

package system

// C04, the bottom of its chain: "tracks forwarding changes between consecutive RAs" rests on the real State reading
// the kernel's value afresh every time.  The per-interface sysctl file is reached here through the real
// NewState().IPv6Forwarding and the real file primitives, on a directory tree of real files (the interface name is a
// relative path from /proc/sys/net/ipv6/conf to a temporary directory - sysctl() joins and cleans it).  Between reads
// the file is rewritten the way the kernel changes such a value: in place, and half of the time without the file's
// timestamps moving (writing conf/all/forwarding flips every interface's value and touches none of their files).

import (
	"encoding/json"
	"fmt"
	"os"
	"path/filepath"
	"testing"
	"time"

	"github.com/mdlayher/corerad/internal/verifkit"
	"pgregory.net/rapid"
)

type c04SysctlStep struct {
	Value     string `json:"value"`      // what the file holds from now on ("0\n", "1\n")
	KeepMtime bool   `json:"keep_mtime"` // the timestamps stay what they were (a kernel-side change)
	Reads     int    `json:"reads"`
}

type c04Sysctl struct {
	Steps []c04SysctlStep `json:"steps"`
}

func c04SysctlProp(t *testing.T, k *verifkit.Kit) func(c c04Sysctl) error {
	return func(c c04Sysctl) error {
		flips := 0
		for i := 1; i < len(c.Steps); i++ {
			if c.Steps[i].Value != c.Steps[i-1].Value {
				flips++
			}
		}
		k.Record(c, flips > 0, fmt.Sprintf("flips=%d", min(flips, 4)))
		dir := t.TempDir()
		if err := os.MkdirAll(filepath.Join(dir, "eth9"), 0o755); err != nil {
			return fmt.Errorf("verif: %v", err)
		}
		file := filepath.Join(dir, "eth9", "forwarding")
		rel, err := filepath.Rel("/proc/sys/net/ipv6/conf", filepath.Join(dir, "eth9"))
		if err != nil {
			return fmt.Errorf("verif: %v", err)
		}
		if sysctl(rel, "forwarding") != file {
			k.Unspecified("the sysctl path of an interface name with path separators")
			return nil
		}
		st := NewState()
		stamp := time.Unix(1700000000, 0)
		for i, s := range c.Steps {
			if err := os.WriteFile(file, []byte(s.Value), 0o644); err != nil {
				return fmt.Errorf("verif: %v", err)
			}
			if s.KeepMtime || i == 0 {
				if err := os.Chtimes(file, stamp, stamp); err != nil {
					return fmt.Errorf("verif: %v", err)
				}
			}
			for r := 0; r < max(s.Reads, 1); r++ {
				got, err := st.IPv6Forwarding(rel)
				if err != nil {
					return verifkit.Violf("C04/sysctl-read-error", "step %d: reading the forwarding state failed: %v", i, err)
				}
				if want := s.Value == "1\n"; got != want {
					return verifkit.Violf("C04/forwarding-state-stale", "step %d (file rewritten in place, timestamps kept: %v), read %d: the file holds %q, IPv6Forwarding says %v", i, s.KeepMtime, r, s.Value, got)
				}
			}
		}
		return nil
	}
}

func TestVerif_C04sysctl(t *testing.T) {
	k := verifkit.Start(t, "C04")
	prop := c04SysctlProp(t, k)
	k.Regress(t, func(sub string, raw json.RawMessage) error {
		if sub != "forwarding-sysctl-rereads" {
			return nil
		}
		return verifkit.Decode(raw, prop)
	})
	verifkit.Rapid(k, t, "forwarding-sysctl-rereads", k.N(300, 20000), func(t *rapid.T) c04Sysctl {
		var c c04Sysctl
		for i, n := 0, rapid.IntRange(1, 8).Draw(t, "nsteps"); i < n; i++ {
			c.Steps = append(c.Steps, c04SysctlStep{Value: rapid.SampledFrom([]string{"0\n", "1\n"}).Draw(t, "value"),
				KeepMtime: rapid.Bool().Draw(t, "keepmtime"), Reads: rapid.IntRange(1, 3).Draw(t, "reads")})
		}
		return c
	}, prop)
}

package system

// C10 (policy layer) and C11: the real Dialer.Dial on virtual time with
// scripted dial and task outcomes. C10 compares the observed trace (dial
// attempts with their times, task invocations, final result) with a reference
// model of the recovery policy in the statement. C11 runs the real dial()
// (its three OS-facing callees renamed to fakes in the staged copy) against a
// recording State and checks the host-state model: every connection closed
// exactly once before the next is opened, autoconf restored.

import (
	"context"
	"encoding/json"
	"errors"
	"fmt"
	"io"
	"log"
	"net"
	"net/netip"
	"os"
	"path/filepath"
	"strings"
	"sync"
	"syscall"
	"testing"
	"testing/synctest"
	"time"

	"github.com/mdlayher/corerad/internal/verifkit"
	"github.com/mdlayher/ndp"
	"golang.org/x/net/ipv6"
	"pgregory.net/rapid"
)

// outcome encodings ------------------------------------------------------------

// dial outcomes
const (
	dOK = iota
	dNotReady
	dSyscall
	dPerm
	dOther
	nDial
)

// task outcomes
const (
	tNil = iota
	tLinkChange
	tSyscall
	tPerm
	tExhausted // the listener's "exhausted receive retries": a plain error
	tOther
	tCanceledErr     // only produced by cancellation: task returns ctx.Err()
	nTask        = 6 // choices available to a script (cancellation is driven by CancelNS)
)

var dialNames = []string{"ok", "link-not-ready", "syscall", "permission", "other"}
var taskNames = []string{"nil", "link-change", "syscall", "permission", "retries-exhausted", "other", "canceled"}

var (
	pErrSyscall = &os.SyscallError{Syscall: "recvmsg", Err: syscall.ENETDOWN}
	pErrPerm    = &os.SyscallError{Syscall: "socket", Err: syscall.EPERM}
	pErrOther   = errors.New("verif: other failure")
	pErrExh     = errors.New("exhausted receive retries")
)

// pShape selects which system call error (and in which wrapping) the scripted "syscall" and "permission"
// outcomes of the current case carry; 0 is a bare ENETDOWN / EPERM. Every shape is "a system call error"
// (resp. "a permission error") for the policy: the errno and the *net.OpError a socket operation really
// fails with must not matter (EINTR, EMFILE report Temporary(); EACCES is a permission error like EPERM).
var pShape int

func pSyscallErr() error {
	switch pShape {
	case 1:
		return &net.OpError{Op: "read", Net: "ip6:ipv6-icmp", Err: os.NewSyscallError("recvmsg", syscall.EINTR)}
	case 2:
		return &net.OpError{Op: "read", Net: "ip6:ipv6-icmp", Err: os.NewSyscallError("recvmsg", syscall.EMFILE)}
	case 3:
		return os.NewSyscallError("sendmsg", syscall.ENOBUFS)
	case 4:
		return &net.OpError{Op: "write", Net: "ip6:ipv6-icmp", Err: os.NewSyscallError("sendmsg", syscall.ENETDOWN)}
	}
	return pErrSyscall
}

func pPermErr() error {
	switch pShape {
	case 1, 3:
		return os.NewSyscallError("socket", syscall.EACCES)
	case 2, 4:
		return &net.OpError{Op: "listen", Net: "ip6:ipv6-icmp", Err: os.NewSyscallError("socket", syscall.EPERM)}
	}
	return pErrPerm
}

func dialErr(o int) error {
	switch o {
	case dNotReady:
		return fmt.Errorf("verif: interface missing: %w", ErrLinkNotReady)
	case dSyscall:
		return fmt.Errorf("verif: listen: %w", pSyscallErr())
	case dPerm:
		return fmt.Errorf("verif: listen: %w", pPermErr())
	case dOther:
		return pErrOther
	}
	return nil
}

func taskErr(o int) error {
	switch o {
	case tLinkChange:
		return fmt.Errorf("failed to run advertiser: %w", ErrLinkChange)
	case tSyscall:
		return fmt.Errorf("failed to run advertiser: %w", pSyscallErr())
	case tPerm:
		return fmt.Errorf("failed to run advertiser: %w", pPermErr())
	case tExhausted:
		return fmt.Errorf("failed to read NDP messages: %w", pErrExh)
	case tOther:
		return pErrOther
	}
	return nil
}

// A polCase is a script of decisions consumed in order (one per dial attempt
// or task run; when exhausted: dial ok, task nil), a task duration, and an
// optional cancellation instant.
type polCase struct {
	Script     []int `json:"script"`
	TaskNS     int64 `json:"task_ns"`
	DialNS     int64 `json:"dial_ns"`    // time one dial attempt takes (a shutdown can arrive while a dial is in flight)
	CancelNS   int64 `json:"cancel_ns"`  // 0 = never
	CancelNil  bool  `json:"cancel_nil"` // cancelled task returns nil (as Advertiser/Monitor do) instead of ctx.Err()
	Mode       int   `json:"mode"`       // Advertise / Monitor
	Autoconf0  bool  `json:"autoconf_initial"`
	StateFails []int `json:"state_failures,omitempty"` // per State call, consumed in order: 0 none 1 permission 2 not-exist 3 other
	RealDial   bool  `json:"real_dial"`                // C11: DialFunc is the real dial() with fake OS callees
	RealState  bool  `json:"real_state,omitempty"`     // C11 (sysctl part): the State is the real NewState(); its file reads and writes go to a simulated /proc/sys
	ErrShape   int   `json:"err_shape,omitempty"`      // which errno / wrapping the "syscall" and "permission" outcomes carry (pShape)
	CleanupNS  int64 `json:"cleanup_ns,omitempty"`     // closing a connection takes this long (a socket that is slow to close): the next dial, or the return, comes after it
}

type polEvent struct {
	At   time.Duration
	What string
}

type polTrace struct {
	Events      []polEvent
	Result      string // nil | error:<class>
	ReturnAt    time.Duration
	Unspecified string
	Ask         int // kind of the decision requested beyond the script (0 none, 1 dial, 2 task)
}

func (tr polTrace) String() string {
	var b strings.Builder
	for _, e := range tr.Events {
		fmt.Fprintf(&b, "%v %s; ", e.At, e.What)
	}
	fmt.Fprintf(&b, "=> %s at %v", tr.Result, tr.ReturnAt)
	return b.String()
}

// polModel is the reference model of the recovery policy.
func polModel(c polCase) polTrace {
	var tr polTrace
	t := time.Duration(0)
	k := 0
	cancel := time.Duration(c.CancelNS)
	next := func(kind, n int) int {
		if k < len(c.Script) {
			v := c.Script[k] % n
			k++
			return v
		}
		if tr.Ask == 0 {
			tr.Ask = kind
		}
		return 0
	}
	ev := func(format string, a ...any) { tr.Events = append(tr.Events, polEvent{t, fmt.Sprintf(format, a...)}) }
	recoverable := func(class string) (bool, bool) { // recoverable, fatal
		switch class {
		case "link-not-ready", "link-change", "syscall":
			return true, false
		}
		return false, true
	}
	cause := ""
	first := true
	for {
		ok := false
		dialLat := time.Duration(c.DialNS)
		if first {
			first = false
			o := next(1, nDial)
			ev("dial:%s", dialNames[o])
			t += dialLat // the dial itself is not interruptible
			if o == dOK {
				ok = true
			} else {
				cause = dialNames[o]
			}
		}
		if !ok {
			if rec, _ := recoverable(cause); !rec {
				tr.Result, tr.ReturnAt = "error:"+cause, t
				return tr
			}
			for i := 0; i < 50 && !ok; i++ {
				wait := time.Duration(i) * 250 * time.Millisecond
				if wait > 3*time.Second {
					wait = 3 * time.Second
				}
				if cancel > 0 && cancel <= t {
					// (also before the zero-length first wait: once cancelled, nothing is dialled any more - finding F25;
					// until then both select cases were ready there and the outcome was left unjudged)
					tr.Result, tr.ReturnAt = "nil", t
					return tr
				}
				if cancel > 0 && cancel > t && cancel <= t+wait {
					tr.Result, tr.ReturnAt = "nil", cancel
					return tr
				}
				t += wait
				o := next(1, nDial)
				ev("dial:%s", dialNames[o])
				t += dialLat
				switch o {
				case dOK:
					ok = true
				case dPerm, dOther:
					tr.Unspecified = "non-recoverable dial error inside a back-off loop"
				}
			}
			if !ok {
				tr.Result, tr.ReturnAt = "error:timed-out", t
				return tr
			}
		}
		ev("task-start")
		o := next(2, nTask)
		dur := time.Duration(c.TaskNS)
		if cancel > 0 && cancel <= t {
			// the shutdown arrived while the dial was in flight: the task sees a cancelled context
			o = tCanceledErr
			if c.CancelNil {
				o = tNil
			}
			if dur == 0 {
				tr.Unspecified = "cancelled context and a zero-length task (either branch may win)"
			}
		} else if cancel > 0 && cancel > t && cancel <= t+dur {
			t = cancel
			o = tCanceledErr
			if c.CancelNil {
				o = tNil
			}
		} else {
			t += dur
		}
		ev("task-end:%s", taskNames[o])
		t += time.Duration(c.CleanupNS) // cleaning up is not interruptible, and nothing else happens until it is done
		ev("cleanup")
		switch o {
		case tNil:
			tr.Result, tr.ReturnAt = "nil", t
			return tr
		case tCanceledErr:
			tr.Result, tr.ReturnAt = "nil", t
			return tr
		}
		cause = taskNames[o]
		if o == tExhausted {
			cause = "retries-exhausted"
		}
	}
}

// --- fakes for the real dial() -------------------------------------------------

// polHost is the recording host: connections and the State.
type polHost struct {
	mu           sync.Mutex
	t0           time.Time
	autoconf     bool
	fails        []int
	calls        int
	log          []string
	conns        []*vkNDPConn
	script       func(stage string) error // failure of lookup / check / dialNDP for the current attempt
	dialLatency  time.Duration
	closeLatency time.Duration
	onClose      func() // real-dial mode: the "cleanup" step of the trace
	checks       int
	procRoot     string // real-state mode: directory standing in for /proc/sys/net/ipv6/conf
	procEnd      string // content of eth0/autoconf when Dial had returned
	badIO        []string
}

func (h *polHost) now() time.Duration { return time.Since(h.t0) }
func (h *polHost) logf(format string, a ...any) {
	h.log = append(h.log, fmt.Sprintf("%v ", h.now())+fmt.Sprintf(format, a...))
}

func (h *polHost) fail() error {
	i := h.calls
	h.calls++
	if i < len(h.fails) {
		switch h.fails[i] {
		case 1:
			return &os.PathError{Op: "open", Path: fmt.Sprintf("/proc/sys/net/ipv6/conf/eth0/autoconf#call%d#", i), Err: os.ErrPermission} // (the call number makes each injected failure recognisable in whatever error ends the run)
		case 2:
			return &os.PathError{Op: "open", Path: fmt.Sprintf("/proc/sys/net/ipv6/conf/eth0/autoconf#call%d#", i), Err: os.ErrNotExist}
		case 3:
			return errors.New("verif: sysctl I/O error")
		}
	}
	return nil
}

type polState struct{ h *polHost }

func (s polState) IPv6Autoconf(iface string) (bool, error) {
	s.h.mu.Lock()
	defer s.h.mu.Unlock()
	if err := s.h.fail(); err != nil {
		s.h.logf("get-autoconf fails: %v", err)
		return false, err
	}
	s.h.logf("get-autoconf -> %v", s.h.autoconf)
	return s.h.autoconf, nil
}
func (s polState) IPv6Forwarding(string) (bool, error) { return true, nil }
func (s polState) SetIPv6Autoconf(iface string, v bool) error {
	s.h.mu.Lock()
	defer s.h.mu.Unlock()
	if err := s.h.fail(); err != nil {
		s.h.logf("set-autoconf(%v) fails: %v", v, err)
		return err
	}
	s.h.autoconf = v
	s.h.logf("set-autoconf(%v)", v)
	return nil
}

// --- simulated /proc/sys for the real State (sysctl part of C11) -------------------

const vkProcPrefix = "/proc/sys/net/ipv6/conf/"

// vkSysctlPath maps the path the code computed to the scratch directory and
// records anything that is not <prefix>/<interface>/<key>.
func vkSysctlPath(file string) (real, iface, key string) {
	h := vkHost
	rest, ok := strings.CutPrefix(file, vkProcPrefix)
	parts := strings.Split(rest, "/")
	if !ok || len(parts) != 2 || parts[0] == "" || strings.Contains(rest, "..") {
		h.badIO = append(h.badIO, fmt.Sprintf("path %q is not %s<interface>/<key>", file, vkProcPrefix))
		return filepath.Join(h.procRoot, "invalid"), "", ""
	}
	return filepath.Join(h.procRoot, parts[0], parts[1]), parts[0], parts[1]
}

// vkReadSysctl stands in for os.ReadFile in interface_linux.go.
func vkReadSysctl(file string) ([]byte, error) {
	h := vkHost
	h.mu.Lock()
	defer h.mu.Unlock()
	real, _, key := vkSysctlPath(file)
	if key == "autoconf" {
		if err := h.fail(); err != nil {
			h.logf("get-autoconf fails: %v", err)
			return nil, err
		}
	}
	b, err := os.ReadFile(real)
	if key == "autoconf" {
		if err != nil {
			h.logf("get-autoconf fails: %v", err)
		} else {
			h.logf("get-autoconf -> %v", string(b) == "1\n")
		}
	}
	return b, err
}

// vkWriteSysctl stands in for os.WriteFile in interface_linux.go: like the kernel
// it accepts an integer with optional trailing newline and reads back "N\n".
func vkWriteSysctl(file string, data []byte, _ os.FileMode) error {
	h := vkHost
	h.mu.Lock()
	defer h.mu.Unlock()
	real, _, key := vkSysctlPath(file)
	v := strings.TrimSuffix(string(data), "\n")
	if key != "autoconf" {
		h.badIO = append(h.badIO, fmt.Sprintf("write of %q to %s: only autoconf is ever to be written", data, file))
		return nil
	}
	if v != "0" && v != "1" {
		h.badIO = append(h.badIO, fmt.Sprintf("write of %q to %s: not 0 or 1", data, file))
		return &os.PathError{Op: "write", Path: file, Err: syscall.EINVAL}
	}
	if err := h.fail(); err != nil {
		h.logf("set-autoconf(%v) fails: %v", v == "1", err)
		return err
	}
	if _, err := os.Stat(real); err != nil {
		h.logf("set-autoconf(%v) fails: %v", v == "1", err)
		return err // /proc files cannot be created
	}
	if err := os.WriteFile(real, []byte(v+"\n"), 0o644); err != nil {
		return err
	}
	h.autoconf = v == "1"
	h.logf("set-autoconf(%v)", v == "1")
	return nil
}

// vkNDPConn stands in for *ndp.Conn in the staged dial().
type vkNDPConn struct {
	h              *polHost
	id             int
	opened         time.Duration
	closes, leaves int
	closedAt       time.Duration
}

func (c *vkNDPConn) ReadFrom() (ndp.Message, *ipv6.ControlMessage, netip.Addr, error) {
	return nil, nil, netip.Addr{}, io.EOF
}
func (c *vkNDPConn) SetReadDeadline(time.Time) error                             { return nil }
func (c *vkNDPConn) WriteTo(ndp.Message, *ipv6.ControlMessage, netip.Addr) error { return nil }
func (c *vkNDPConn) LeaveGroup(netip.Addr) error {
	c.h.mu.Lock()
	defer c.h.mu.Unlock()
	c.leaves++
	return nil
}
func (c *vkNDPConn) Close() error {
	if d := c.h.closeLatency; d > 0 {
		time.Sleep(d)
	}
	if f := c.h.onClose; f != nil {
		f()
	}
	c.h.mu.Lock()
	defer c.h.mu.Unlock()
	c.closes++
	c.closedAt = c.h.now()
	c.h.logf("close conn %d", c.id)
	return nil
}

var vkHost *polHost // the host of the case being run (one case at a time per process)

func vkLookupInterface(iface string) (*net.Interface, error) {
	if err := vkHost.script("lookup"); err != nil {
		return nil, err
	}
	return &net.Interface{Index: 7, Name: iface, Flags: net.FlagUp, HardwareAddr: net.HardwareAddr{2, 0, 0, 0, 0, 1}}, nil
}

// vkCheckInterface runs the REAL checkInterface on scripted inputs: the outcome the
// script asks for at this stage is produced by the interface flags and the
// address listing the real function sees (link down / no link-local address /
// a failing address dump of the scripted error class), so that its own
// classification and error wrapping are part of the checked path.
func vkCheckInterface(ifi *net.Interface, _ func() ([]net.Addr, error)) error {
	want := vkHost.script("check")
	in := *ifi
	ll := &net.IPNet{IP: net.ParseIP("fe80::1"), Mask: net.CIDRMask(64, 128)}
	gua := &net.IPNet{IP: net.ParseIP("2001:db8::1"), Mask: net.CIDRMask(64, 128)}
	v4 := &net.IPNet{IP: net.ParseIP("192.0.2.1"), Mask: net.CIDRMask(24, 32)}
	addrs := func() ([]net.Addr, error) { return []net.Addr{v4, gua, ll}, nil }
	var serr *os.SyscallError
	switch {
	case want == nil:
	case errors.Is(want, ErrLinkNotReady):
		vkHost.mu.Lock()
		n := vkHost.checks
		vkHost.checks++
		vkHost.mu.Unlock()
		if n%2 == 0 {
			in.Flags &^= net.FlagUp
		} else {
			addrs = func() ([]net.Addr, error) { return []net.Addr{v4, gua}, nil }
		}
	case errors.As(want, &serr):
		// as package net reports a failing netlink dump
		e := &net.OpError{Op: "route", Net: "ip+net", Err: os.NewSyscallError("netlinkrib", serr.Err)}
		addrs = func() ([]net.Addr, error) { return nil, e }
	default:
		addrs = func() ([]net.Addr, error) { return nil, want }
	}
	return checkInterface(&in, addrs)
}

func vkDialNDP(ifi *net.Interface) (*vkNDPConn, netip.Addr, error) {
	if err := vkHost.script("socket"); err != nil {
		return nil, netip.Addr{}, err
	}
	vkHost.mu.Lock()
	defer vkHost.mu.Unlock()
	c := &vkNDPConn{h: vkHost, id: len(vkHost.conns), opened: vkHost.now()}
	vkHost.conns = append(vkHost.conns, c)
	vkHost.logf("open conn %d", c.id)
	return c, netip.MustParseAddr("fe80::1"), nil
}

// --- running one case ---------------------------------------------------------

type polRun struct {
	Trace   polTrace
	Err     error
	Host    *polHost
	Leaked  bool
	Panic   any
	Blocked bool
}

func polExecute(t *testing.T, c polCase) polRun {
	pShape = c.ErrShape
	var out polRun
	defer func() {
		if r := recover(); r != nil {
			if s := fmt.Sprint(r); strings.Contains(s, "deadlock") || strings.Contains(s, "blocked") {
				out.Leaked = true
				return
			}
			out.Panic = r
		}
	}()
	// polWall: the same run on the wall clock, outside a bubble (the real-clock part: timer semantics of the shipped binary)
	runner := func(f func(*testing.T)) { synctest.Test(t, f) }
	if polWall {
		runner = func(f func(*testing.T)) { f(t) }
	}
	runner(func(*testing.T) {
		h := &polHost{t0: time.Now(), autoconf: c.Autoconf0, fails: c.StateFails, dialLatency: time.Duration(c.DialNS)}
		out.Host = h
		vkHost = h
		mode := Advertise
		if c.Mode == int(Monitor) {
			mode = Monitor
		}
		var state State = polState{h}
		if c.RealState && (!strings.Contains(os.Getenv("VERIF_PATCHES"), "sysctl-write") || strings.Contains(os.Getenv("VERIF_NOPATCH"), "sysctl")) {
			panic("verif: real-state case in a stage whose sysctl primitives are not simulated (it would touch the sandbox's own /proc/sys)")
		}
		if c.RealState {
			// the real system state; its two file primitives are renamed (staged copy) to
			// vkReadSysctl / vkWriteSysctl, which act like the kernel on a scratch directory
			root, err := os.MkdirTemp("", "verif-proc-")
			if err != nil {
				panic("verif: " + err.Error())
			}
			defer func() {
				b, err := os.ReadFile(filepath.Join(root, "eth0", "autoconf"))
				h.mu.Lock()
				h.procEnd = fmt.Sprintf("%q %v", b, err)
				h.mu.Unlock()
				os.RemoveAll(root)
			}()
			h.procRoot = root
			_ = os.MkdirAll(filepath.Join(root, "eth0"), 0o755)
			_ = os.WriteFile(filepath.Join(root, "eth0", "autoconf"), []byte(map[bool]string{true: "1\n", false: "0\n"}[c.Autoconf0]), 0o644)
			_ = os.WriteFile(filepath.Join(root, "eth0", "forwarding"), []byte("1\n"), 0o644)
			state = NewState()
		}
		d := NewDialer("eth0", state, mode, log.New(io.Discard, "", 0))
		k := 0
		var tr polTrace
		var mu sync.Mutex
		ev := func(format string, a ...any) {
			mu.Lock()
			tr.Events = append(tr.Events, polEvent{h.now(), fmt.Sprintf(format, a...)})
			mu.Unlock()
			h.mu.Lock()
			h.logf("# "+format, a...)
			h.mu.Unlock()
		}
		next := func(n int) int {
			mu.Lock()
			defer mu.Unlock()
			if k < len(c.Script) {
				v := c.Script[k] % n
				k++
				return v
			}
			return 0
		}
		cleanups := 0
		if c.RealDial {
			h.closeLatency = time.Duration(c.CleanupNS)
			h.onClose = func() { ev("cleanup") }
			real := d.DialFunc
			d.DialFunc = func() (*DialContext, error) {
				o := next(nDial)
				ev("dial:%s", dialNames[o])
				h.script = func(stage string) error {
					// the scripted dial failure hits one of the three OS-facing stages
					switch {
					case o == dNotReady && stage == "lookup" && len(c.Script)%2 == 0:
						return dialErr(o)
					case o == dNotReady && stage == "check" && len(c.Script)%2 == 1:
						return dialErr(o)
					case (o == dSyscall || o == dPerm || o == dOther) && stage == "check" && len(c.Script)%3 == 0:
						return dialErr(o) // the address dump of the readiness check fails
					case (o == dSyscall || o == dPerm || o == dOther) && stage == "socket" && len(c.Script)%3 != 0:
						return dialErr(o)
					}
					return nil
				}
				// every attempt takes the dial latency, whichever stage fails (as the model assumes)
				if h.dialLatency > 0 {
					time.Sleep(h.dialLatency)
				}
				return real()
			}
		} else {
			d.DialFunc = func() (*DialContext, error) {
				o := next(nDial)
				ev("dial:%s", dialNames[o])
				if c.DialNS > 0 {
					time.Sleep(time.Duration(c.DialNS))
				}
				if err := dialErr(o); err != nil {
					return nil, err
				}
				return &DialContext{Conn: &vkNDPConn{h: h}, Interface: &net.Interface{Index: 7, Name: "eth0"}, IP: netip.MustParseAddr("fe80::1"),
					done: func() error {
						if c.CleanupNS > 0 {
							time.Sleep(time.Duration(c.CleanupNS))
						}
						ev("cleanup")
						cleanups++
						return nil
					}}, nil
			}
		}
		ctx, cancel := context.WithCancel(context.Background())
		defer cancel()
		if c.CancelNS > 0 {
			go func() {
				select {
				case <-time.After(time.Duration(c.CancelNS)):
					cancel()
				case <-ctx.Done():
				}
			}()
		}
		done := make(chan struct{})
		go func() {
			defer close(done)
			out.Err = d.Dial(ctx, func(ctx context.Context, dctx *DialContext) error {
				ev("task-start")
				o := next(nTask)
				select {
				case <-ctx.Done():
					if c.CancelNil {
						ev("task-end:nil")
						return nil
					}
					ev("task-end:canceled")
					return ctx.Err()
				case <-time.After(time.Duration(c.TaskNS)):
				}
				ev("task-end:%s", taskNames[o])
				// (with the real dial() the "cleanup" step is logged by the fake connection when it is closed)
				return taskErr(o)
			})
			mu.Lock()
			tr.ReturnAt = h.now()
			mu.Unlock()
		}()
		select {
		case <-done:
		case <-time.After(30*time.Minute + 64*time.Duration(c.CleanupNS) + 400*time.Duration(c.DialNS)): // (the harness's patience: at most 60 connections are closed)
			out.Blocked = true
		}
		cancel()
		mu.Lock()
		out.Trace = tr
		mu.Unlock()
	})
	return out
}

// polClass names the kind of error Dial returned by what the error *is* (the injected sentinels and their types), not
// by how the code words it.  The error after the 50th failed attempt carries the last cause only as text (`%v`), or,
// should the code come to wrap it, as a cause: polSame treats the two as the same outcome.
func polClass(err error) string {
	switch {
	case err == nil:
		return "nil"
	case strings.Contains(err.Error(), "sysctl I/O error"):
		return "error:cleanup"
	case errors.Is(err, ErrLinkNotReady):
		return "error:link-not-ready"
	case errors.Is(err, ErrLinkChange):
		return "error:link-change"
	case errors.Is(err, os.ErrPermission):
		return "error:permission"
	case errors.Is(err, pErrSyscall), errors.As(err, new(*os.SyscallError)):
		return "error:syscall"
	case errors.Is(err, pErrExh):
		return "error:retries-exhausted"
	case errors.Is(err, pErrOther):
		return "error:other"
	}
	for _, cause := range []error{ErrLinkNotReady, ErrLinkChange, pErrSyscall} {
		if strings.Contains(err.Error(), cause.Error()) {
			return "error:timed-out" // a recoverable cause, flattened into the text of the error that ends the retries
		}
	}
	return "error:unknown(" + err.Error() + ")"
}

// polSame: do the modelled and the observed result name the same outcome?
func polSame(want, got string) bool {
	if want == got {
		return true
	}
	// after the last of the 50 attempts the error may carry the last cause as text or as a wrapped cause
	return want == "error:timed-out" && (got == "error:link-not-ready" || got == "error:link-change" || got == "error:syscall")
}

// --- C10 property ---------------------------------------------------------------

func polCaseClasses(c polCase, want polTrace) (bool, []string) {
	faults := 0
	for _, e := range want.Events {
		if strings.HasPrefix(e.What, "dial:") && e.What != "dial:ok" {
			faults++
		}
		if strings.HasPrefix(e.What, "task-end:") && e.What != "task-end:nil" {
			faults++
		}
	}
	cls := []string{"result=" + want.Result, fmt.Sprintf("faults=%d", min(faults, 8))}
	if c.CancelNS > 0 {
		cls = append(cls, "with-cancellation")
	}
	if len(want.Events) > 40 {
		cls = append(cls, "long-back-off")
	}
	return faults >= 1, cls
}

func c10Prop(t *testing.T, k *verifkit.Kit) func(c polCase) error {
	return func(c polCase) error {
		// (the real dial() only where the enumeration asks for it and its OS-facing callees are faked)
		c.RealDial = c.RealDial && os.Getenv("VERIF_NOPATCH") == "" && strings.Contains(os.Getenv("VERIF_PATCHES"), "dial-dialNDP")
		want := polModel(c)
		nt, cls := polCaseClasses(c, want)
		k.Record(c, nt, cls...)
		got := polExecute(t, c)
		if got.Panic != nil {
			return verifkit.Violf("panic", "panic: %v", got.Panic)
		}
		if got.Blocked || got.Leaked {
			return verifkit.Violf("C10/dial-does-not-return", "Dial still running after 30 virtual minutes (leaked=%v); expected %s", got.Leaked, want)
		}
		if want.Unspecified != "" {
			k.Unspecified(want.Unspecified)
			return nil
		}
		got.Trace.Result = polClass(got.Err)
		if polSame(want.Result, got.Trace.Result) {
			got.Trace.Result = want.Result
		}
		if g, w := got.Trace.String(), want.String(); g != w {
			sig := "C10/policy-trace-differs"
			switch {
			case got.Trace.Result != want.Result:
				sig = "C10/wrong-result"
			case len(got.Trace.Events) != len(want.Events):
				sig = "C10/wrong-number-of-attempts"
			case got.Trace.ReturnAt != want.ReturnAt:
				sig = "C10/wrong-timing"
			}
			return verifkit.Violf(sig, "script %v task=%v cancel=%v:\nwant %s\ngot  %s", c.Script, time.Duration(c.TaskNS), time.Duration(c.CancelNS), w, g)
		}
		if want.Result != "nil" && got.Err == nil {
			return verifkit.Violf("C10/wrong-result", "expected an error")
		}
		return nil
	}
}

// polEnumerate walks every distinct execution of at most depth decisions,
// driven by the reference model (it tells which kind of decision comes next),
// x cancellation points.
func polEnumerate(depth int, cancels []int64, real bool) func(yield func(polCase) bool) {
	return func(yield func(polCase) bool) {
		var rec func(script []int) bool
		rec = func(script []int) bool {
			base := polCase{Script: script, TaskNS: int64(100 * time.Millisecond), Mode: int(Advertise), Autoconf0: true, RealDial: real}
			tr := polModel(base)
			if tr.Ask != 0 && len(script) < depth {
				n := nDial
				if tr.Ask == 2 {
					n = nTask
				}
				for o := 0; o < n; o++ {
					if !rec(append(append([]int(nil), script...), o)) {
						return false
					}
				}
				return true
			}
			for _, cn := range cancels {
				c := base
				c.Script = append([]int(nil), script...)
				c.CancelNS = cn
				c.CancelNil = cn%2 == 0
				if cn > 0 && time.Duration(cn) >= tr.ReturnAt {
					continue // cancellation after the end changes nothing
				}
				if !yield(c) {
					return false
				}
			}
			// the same execution with dials that take 20 ms, cancelled while the k-th dial is in flight
			withLat := base
			withLat.DialNS = int64(20 * time.Millisecond)
			lat := polModel(withLat)
			for _, e := range lat.Events {
				if !strings.HasPrefix(e.What, "dial:") {
					continue
				}
				c := withLat
				c.Script = append([]int(nil), script...)
				c.CancelNS = int64(e.At) + int64(7*time.Millisecond) + 1
				c.CancelNil = len(script)%2 == 0
				if !yield(c) {
					return false
				}
			}
			return true
		}
		rec(nil)
	}
}

func polGen(real bool) func(t *rapid.T) polCase {
	return func(t *rapid.T) polCase {
		n := rapid.IntRange(0, 60).Draw(t, "len")
		c := polCase{TaskNS: rapid.SampledFrom([]int64{0, int64(time.Millisecond), int64(100 * time.Millisecond), int64(5 * time.Second)}).Draw(t, "task"),
			Mode: rapid.SampledFrom([]int{int(Advertise), int(Advertise), int(Monitor)}).Draw(t, "mode"), Autoconf0: rapid.Bool().Draw(t, "autoconf"), RealDial: real}
		// long failing runs are needed to reach the 50-attempt bound
		failRun := rapid.IntRange(0, 3).Draw(t, "failrun") == 0
		for i := 0; i < n; i++ {
			if failRun {
				c.Script = append(c.Script, rapid.SampledFrom([]int{dNotReady, dSyscall, dNotReady, dSyscall, dOK}).Draw(t, "f"))
			} else {
				c.Script = append(c.Script, rapid.IntRange(0, 6).Draw(t, "d"))
			}
		}
		if rapid.IntRange(0, 2).Draw(t, "diallat") == 0 {
			c.DialNS = rapid.SampledFrom([]int64{int64(10 * time.Millisecond), int64(40 * time.Millisecond), int64(10 * time.Millisecond), int64(2 * time.Second), int64(20 * time.Second)}).Draw(t, "dialns")
		}
		if rapid.Bool().Draw(t, "cancel") {
			c.CancelNS = rapid.Int64Range(0, 400).Draw(t, "cancelslot")*int64(125*time.Millisecond) + 1
			c.CancelNil = rapid.Bool().Draw(t, "cancelnil")
		}
		c.ErrShape = rapid.IntRange(0, 4).Draw(t, "errshape")
		if rapid.IntRange(0, 3).Draw(t, "slowcleanup") == 0 {
			c.CleanupNS = rapid.SampledFrom([]int64{int64(time.Millisecond), int64(900 * time.Millisecond), int64(1100 * time.Millisecond), int64(2 * time.Second), int64(5 * time.Second),
				int64(5*time.Second + 2), int64(11 * time.Second), int64(31 * time.Second), int64(91 * time.Second)}).Draw(t, "cleanupns")
		}
		if real {
			for i, m := 0, rapid.IntRange(0, 12).Draw(t, "nfails"); i < m; i++ {
				c.StateFails = append(c.StateFails, rapid.SampledFrom([]int{0, 0, 0, 1, 2, 3}).Draw(t, "sf"))
			}
		}
		return c
	}
}

// polLongBackoff: a recoverable cause followed by 48..53 consecutive failing
// dial attempts (the bound is 50), then success; from a failed first dial and
// from a failed task; with and without a late cancellation.
func polLongBackoff(yield func(polCase) bool) {
	for n := 48; n <= 53; n++ {
		for _, kind := range []int{dNotReady, dSyscall} {
			for _, afterTask := range []bool{false, true} {
				for _, cancel := range []int64{0, int64(100*time.Second) + 1} {
					var script []int
					if afterTask {
						script = append(script, dOK, tLinkChange)
					}
					for i := 0; i < n; i++ {
						script = append(script, kind)
					}
					script = append(script, dOK, tNil)
					if !yield(polCase{Script: script, TaskNS: int64(time.Second), CancelNS: cancel, Mode: int(Advertise), Autoconf0: true}) {
						return
					}
				}
			}
		}
	}
}

// polManyCycles: a long-lived task that is re-established again and again -
// 1..300 rounds of (task fails recoverably, 0..2 failing dial attempts, dial
// succeeds) within ONE Dial call - then ends (nil, fatal error or
// cancellation). Nothing in the statement bounds the number of recoveries.
func polManyCycles(real bool) func(yield func(polCase) bool) {
	return func(yield func(polCase) bool) {
		for _, rounds := range []int{1, 2, 3, 10, 49, 50, 51, 52, 60, 101, 300} {
			for _, cause := range []int{tLinkChange, tSyscall} {
				for _, failing := range []int{0, 1, 2} {
					for _, end := range []int{tNil, tOther, -1} {
						script := []int{dOK}
						for r := 0; r < rounds; r++ {
							c := cause
							if r%3 == 2 {
								c = tLinkChange + tSyscall - cause // mix the two recoverable causes
							}
							script = append(script, c)
							for f := 0; f < failing; f++ {
								script = append(script, []int{dNotReady, dSyscall}[(r+f)%2])
							}
							script = append(script, dOK)
						}
						c := polCase{TaskNS: int64(10 * time.Millisecond), Mode: int(Advertise), Autoconf0: rounds%2 == 0, RealDial: real}
						if end >= 0 {
							script = append(script, end)
						} else {
							// cancelled while the last task runs
							c.Script = script
							c.CancelNS = int64(polModel(c).ReturnAt) - int64(5*time.Millisecond)
							c.CancelNil = rounds%2 == 1
						}
						c.Script = script
						if !yield(c) {
							return
						}
					}
				}
			}
		}
	}
}

var polCancels = []int64{0, 1, int64(50*time.Millisecond) + 1, int64(125*time.Millisecond) + 1, int64(300*time.Millisecond) + 1, int64(900*time.Millisecond) + 1, int64(2*time.Second) + 1}

// polWall selects the wall clock for polExecute (set only by the real-clock part, whose binary runs nothing else).
var polWall bool

type polWallCase struct {
	Cases []polCase `json:"cases"` // all run at the same time
}

// TestVerif_C10real: the recovery policy on the wall clock with the timer channels of the shipped binary (the bubble parts
// need the Go 1.23 ones; see corerad/zz_verif_C05real_test.go). 24 scripted Dial runs at once per case, each at most 8 s by
// the model, without cancellation. Oracle: the same sequence of attempts, task runs and clean-ups and the same result as the
// reference policy, and no event earlier than the model says (every wait of the policy is a lower bound on the wall clock;
// all instants are taken in the goroutine that performs the step).
func TestVerif_C10real(t *testing.T) {
	k := verifkit.Start(t, "C10")
	polWall = true
	k.Special = "real-clock"
	gen := func(t *rapid.T) polWallCase {
		var wc polWallCase
		shape := rapid.IntRange(0, 4).Draw(t, "errshape")
		for len(wc.Cases) < 24 {
			c := polCase{TaskNS: rapid.SampledFrom([]int64{0, int64(time.Millisecond), int64(100 * time.Millisecond)}).Draw(t, "task"), Mode: int(Monitor), ErrShape: shape}
			for i, n := 0, rapid.IntRange(1, 12).Draw(t, "len"); i < n; i++ {
				if rapid.Bool().Draw(t, "failing") {
					c.Script = append(c.Script, rapid.SampledFrom([]int{dNotReady, dSyscall}).Draw(t, "f"))
				} else {
					c.Script = append(c.Script, rapid.IntRange(0, 6).Draw(t, "d"))
				}
			}
			if tr := polModel(c); tr.Unspecified == "" && tr.ReturnAt <= 8*time.Second && tr.ReturnAt >= 250*time.Millisecond {
				wc.Cases = append(wc.Cases, c)
			}
		}
		return wc
	}
	prop := func(wc polWallCase) error {
		k.Record(wc, true, "real-clock:policy-runs")
		errs := make([]error, len(wc.Cases))
		var wg sync.WaitGroup
		for i, c := range wc.Cases {
			wg.Add(1)
			go func() {
				defer wg.Done()
				want := polModel(c)
				got := polExecute(t, c)
				got.Trace.Result = polClass(got.Err)
				if polSame(want.Result, got.Trace.Result) {
					got.Trace.Result = want.Result
				}
				desc := fmt.Sprintf("script %v task=%v (wall clock, old timer semantics):\nwant %s\ngot  %s", c.Script, time.Duration(c.TaskNS), want.String(), got.Trace.String())
				switch {
				case got.Panic != nil:
					errs[i] = verifkit.Violf("panic", "panic: %v", got.Panic)
				case got.Trace.Result != want.Result:
					errs[i] = verifkit.Violf("C10/real-clock/wrong-result", "%s", desc)
				case len(got.Trace.Events) != len(want.Events):
					errs[i] = verifkit.Violf("C10/real-clock/wrong-number-of-attempts", "%s", desc)
				default:
					for j, e := range got.Trace.Events {
						if e.What != want.Events[j].What {
							errs[i] = verifkit.Violf("C10/real-clock/policy-trace-differs", "%s", desc)
							break
						}
						if e.At < want.Events[j].At-time.Millisecond {
							errs[i] = verifkit.Violf("C10/real-clock/too-early", "step %d (%s) at %v, the policy waits until %v\n%s", j, e.What, e.At, want.Events[j].At, desc)
							break
						}
					}
				}
			}()
		}
		wg.Wait()
		for _, err := range errs {
			if err != nil {
				return err
			}
		}
		return nil
	}
	k.Regress(t, func(sub string, raw json.RawMessage) error { return verifkit.Decode(raw, prop) })
	verifkit.Rapid(k, t, "real-clock-policy-runs(old timer semantics)", k.N(1, 10), gen, prop)
}

func TestVerif_C10policy(t *testing.T) {
	k := verifkit.Start(t, "C10")
	prop := c10Prop(t, k)
	k.Regress(t, func(sub string, raw json.RawMessage) error {
		if strings.HasPrefix(sub, "liveness") || strings.HasPrefix(sub, "fault") {
			return nil // belongs to the corerad half of C10
		}
		return verifkit.Decode(raw, prop)
	})
	depth := 4
	if k.Thorough() {
		depth = 6
	}
	verifkit.Enumerate(k, t, fmt.Sprintf("policy-executions-depth<=%d", depth), true, polEnumerate(depth, polCancels, false), prop)
	if os.Getenv("VERIF_NOPATCH") == "" {
		// the same policy with the real dial() (real checkInterface and error wrapping) under the scripted DialFunc
		verifkit.Enumerate(k, t, "policy-executions-depth<=3-real-dial", true, polEnumerate(3, []int64{0, int64(300*time.Millisecond) + 1}, true), prop)
	}
	verifkit.Enumerate(k, t, "attempt-bound-48..53-failures", true, polLongBackoff, prop)
	verifkit.Enumerate(k, t, "many-recovery-rounds-in-one-dial", true, polManyCycles(false), prop)
	verifkit.Rapid(k, t, "policy-random-depth<=60", k.N(3000, 400000), polGen(false), prop)
}

// --- C11 property ---------------------------------------------------------------

func c11Oracle(c polCase, run polRun) error {
	h := run.Host
	h.mu.Lock()
	defer h.mu.Unlock()
	logtxt := strings.Join(h.log, "\n")
	fail := func(sig, format string, a ...any) error {
		return verifkit.Violf(sig, fmt.Sprintf(format, a...)+"\nscript %v state-failures %v mode=%d autoconf0=%v result=%v\n%s", c.Script, c.StateFails, c.Mode, c.Autoconf0, run.Err, logtxt)
	}
	if len(h.badIO) > 0 {
		return fail("C11/sysctl-io", "unexpected sysctl access: %v", h.badIO)
	}
	if h.procRoot != "" {
		// the simulated kernel's final value is what the file says
		if want := fmt.Sprintf("%q %v", map[bool]string{true: "1\n", false: "0\n"}[h.autoconf], nil); h.procEnd != want {
			return fail("C11/sysctl-io", "autoconf file holds %s but the last successful write was %v", h.procEnd, h.autoconf)
		}
	}
	open := -1 // connection currently open (-1 none)
	inTask := false
	var prev *bool // value read at the current dial
	restorePending := false
	restoreFailedOther, restoreFailed := false, false
	var toleratedTokens []string // what identifies each tolerated restore failure that was injected
	disabledBy := -1
	for _, line := range h.log {
		_, msg, _ := strings.Cut(line, " ")
		switch {
		case strings.HasPrefix(msg, "open conn "):
			if open >= 0 {
				return fail("C11/connection-not-closed-before-next-open", "connection %d still open when the next one is opened", open)
			}
			if restorePending {
				return fail("C11/autoconf-not-restored", "next connection opened before autoconf was restored")
			}
			fmt.Sscanf(msg, "open conn %d", &open)
			prev = nil
		case strings.HasPrefix(msg, "close conn "):
			var id int
			fmt.Sscanf(msg, "close conn %d", &id)
			if id != open {
				return fail("C11/double-or-stray-close", "close of connection %d while %d is open", id, open)
			}
			open = -1
		case strings.HasPrefix(msg, "get-autoconf"):
			if c.Mode == int(Monitor) {
				return fail("C11/monitor-touches-autoconf", "monitor mode read the autoconf setting")
			}
			if open < 0 || inTask {
				return fail("C11/autoconf-read-outside-dial", "autoconf read while no connection is being set up")
			}
			if strings.Contains(msg, "->") {
				v := strings.HasSuffix(msg, "true")
				prev = &v
			}
		case strings.HasPrefix(msg, "set-autoconf("):
			if c.Mode == int(Monitor) {
				return fail("C11/monitor-touches-autoconf", "monitor mode wrote the autoconf setting")
			}
			val := strings.HasPrefix(msg, "set-autoconf(true)")
			failed := strings.Contains(msg, "fails")
			if restorePending {
				// this must be the restore of the value read at dial time
				if prev == nil || val != *prev {
					return fail("C11/wrong-value-restored", "restore wrote %v, the value before was %v", val, prev)
				}
				restorePending = false
				if failed {
					restoreFailed = true
					if strings.Contains(msg, "I/O error") {
						restoreFailedOther = true
					} else if i := strings.Index(msg, "autoconf#call"); i >= 0 {
						if j := strings.Index(msg[i+len("autoconf#"):], "#"); j >= 0 {
							toleratedTokens = append(toleratedTokens, msg[i:i+len("autoconf#")+j+1])
						}
					}
				}
				continue
			}
			if open < 0 || inTask || prev == nil {
				return fail("C11/autoconf-written-outside-dial", "autoconf written (%v) outside of a dial / restore", val)
			}
			if val {
				return fail("C11/autoconf-enabled-during-dial", "autoconf set to true during dial")
			}
			disabledBy = open
		case msg == "# task-start":
			inTask = true
			if c.Mode == int(Advertise) && disabledBy != open {
				// "disabled ... while a connection is held": the task runs on connection `open`, so its dial must have
				// written false (a permission error on that write is tolerated, the attempt is not optional)
				return fail("C11/autoconf-not-disabled", "the task starts on connection %d although autoconf was not disabled for it", open)
			}
		case strings.HasPrefix(msg, "# task-end"):
			inTask = false
			if c.Mode == int(Advertise) {
				restorePending = true
			}
		}
	}
	if open >= 0 {
		return fail("C11/connection-leaked", "connection %d is still open when Dial returned", open)
	}
	if restorePending {
		return fail("C11/autoconf-not-restored", "Dial returned without restoring autoconf")
	}
	for _, cn := range h.conns {
		if cn.closes != 1 {
			return fail("C11/close-count", "connection %d closed %d times", cn.id, cn.closes)
		}
		if cn.leaves > 1 {
			return fail("C11/close-count", "connection %d left the multicast group %d times", cn.id, cn.leaves)
		}
	}
	if !restoreFailed && h.autoconf != c.Autoconf0 {
		return fail("C11/autoconf-changed", "autoconf is %v after Dial returned, it was %v before", h.autoconf, c.Autoconf0)
	}
	// (the injected failure is recognised by its own text, "sysctl I/O error", wherever the code puts it)
	if restoreFailedOther && (run.Err == nil || !strings.Contains(run.Err.Error(), "sysctl I/O error")) {
		return fail("C11/restore-error-not-reported", "a restore failed with a non-tolerated error but Dial returned %v", run.Err)
	}
	// (a tolerated restore failure is recognised in the result by the call number its error carries, not by the
	// wording the code wraps it in)
	for _, tok := range toleratedTokens {
		if run.Err != nil && strings.Contains(run.Err.Error(), tok) {
			return fail("C11/tolerated-restore-error-reported", "Dial reported a tolerated restore failure (%s): %v", tok, run.Err)
		}
	}
	return nil
}

func c11Prop(t *testing.T, k *verifkit.Kit) func(c polCase) error {
	return func(c polCase) error {
		c.RealDial = true
		dials, fails := 0, 0
		for _, v := range c.StateFails {
			if v != 0 {
				fails++
			}
		}
		got := polExecute(t, c)
		// classified by the model's trace, not the observed one: where a cancellation and a
		// zero-length timer are ready together Go's select picks at random, and the counts
		// reported as evidence should not depend on that
		for _, e := range polModel(c).Events {
			if strings.HasPrefix(e.What, "dial:") {
				dials++
			}
		}
		cls := []string{fmt.Sprintf("dials=%d", min(dials, 6)), fmt.Sprintf("state-failures=%d", min(fails, 4)), fmt.Sprintf("mode=%d", c.Mode)}
		k.Record(c, dials >= 2 || fails >= 1, cls...)
		if got.Panic != nil {
			return verifkit.Violf("panic", "panic: %v", got.Panic)
		}
		if got.Blocked || got.Leaked {
			return verifkit.Violf("C11/dial-does-not-return", "Dial still running after 30 virtual minutes")
		}
		return c11Oracle(c, got)
	}
}

// c11Enumerate: the C10 executions x initial autoconf x one state failure at each call position.
func c11Enumerate(depth int) func(yield func(polCase) bool) {
	return func(yield func(polCase) bool) {
		polEnumerate(depth, []int64{0, int64(125*time.Millisecond) + 1}, true)(func(c polCase) bool {
			for _, mode := range []int{int(Advertise), int(Monitor)} {
				for _, a0 := range []bool{true, false} {
					c2 := c
					c2.Mode, c2.Autoconf0 = mode, a0
					if !yield(c2) {
						return false
					}
					if mode == int(Monitor) {
						continue
					}
					for pos := 0; pos < 6; pos++ {
						for kind := 1; kind <= 3; kind++ {
							c3 := c2
							c3.StateFails = make([]int, pos+1)
							c3.StateFails[pos] = kind
							if !yield(c3) {
								return false
							}
						}
					}
				}
			}
			return true
		})
	}
}

// TestVerif_C11sysctl: the same executions with the real system.NewState() and
// interface_linux.go on a simulated /proc/sys (file paths, file contents, error
// classes of real file I/O) instead of the recording State.
func TestVerif_C11sysctl(t *testing.T) {
	k := verifkit.Start(t, "C11")
	if os.Getenv("VERIF_NOPATCH") != "" {
		k.Skip("the sysctl primitives could not be renamed in the staged copy: " + os.Getenv("VERIF_NOPATCH"))
		t.Skip("stage patch not applied")
	}
	base := c11Prop(t, k)
	prop := func(c polCase) error {
		c.RealState = true
		return base(c)
	}
	k.Regress(t, func(sub string, raw json.RawMessage) error {
		if !strings.HasPrefix(sub, "sysctl") {
			return nil
		}
		return verifkit.Decode(raw, prop)
	})
	verifkit.Enumerate(k, t, "sysctl-executions-depth<=3-x-state-failures", true, c11Enumerate(3), prop)
	verifkit.Enumerate(k, t, "sysctl-many-recovery-rounds", true, polManyCycles(true), prop)
	verifkit.Rapid(k, t, "sysctl-random-sequences-x-state-failures", k.N(1500, 200000), polGen(true), prop)
}

func TestVerif_C11(t *testing.T) {
	k := verifkit.Start(t, "C11")
	if os.Getenv("VERIF_NOPATCH") != "" {
		k.Skip("real dial() could not be made runnable in the staged copy (call sites not found): " + os.Getenv("VERIF_NOPATCH"))
		t.Skip("stage patch not applied")
	}
	prop := c11Prop(t, k)
	k.Regress(t, func(sub string, raw json.RawMessage) error {
		if strings.HasPrefix(sub, "sysctl") {
			return nil // belongs to the sysctl part
		}
		return verifkit.Decode(raw, prop)
	})
	depth := 3
	if k.Thorough() {
		depth = 5
	}
	verifkit.Enumerate(k, t, fmt.Sprintf("executions-depth<=%d-x-state-failures", depth), true, c11Enumerate(depth), prop)
	verifkit.Enumerate(k, t, "many-recovery-rounds-in-one-dial", true, polManyCycles(true), prop)
	verifkit.Rapid(k, t, "random-sequences-x-state-failures", k.N(3000, 1000000), polGen(true), prop)
}

//go:build verif

package system

// C11, several interfaces: every advertising interface has its own Dialer, and they run at the same time. What one
// of them does - dial, re-dial after a link change, clean up - must leave the other's autoconfiguration handling
// alone: each interface's setting is disabled only while that interface holds a connection and is back at its own
// previous value when its Dial returns.  (The other C11 parts run one Dialer at a time.)

import (
	"context"
	"encoding/json"
	"fmt"
	"io"
	"log"
	"sync"
	"testing"
	"testing/synctest"
	"time"

	"github.com/mdlayher/corerad/internal/verifkit"
	"pgregory.net/rapid"
)

type twoIface struct {
	Autoconf0 bool    `json:"autoconf_initial"`
	StartNS   int64   `json:"start_ns"`
	Tasks     []int64 `json:"task_ns"` // one connection per entry, each ended by a link change; the last one by a nil return
	Monitor   bool    `json:"monitor,omitempty"`
}

type twoCase struct {
	Ifaces []twoIface `json:"interfaces"`
}

type twoState struct {
	mu   sync.Mutex
	val  map[string]bool
	held map[string]int
	bad  []string
}

func (s *twoState) IPv6Autoconf(iface string) (bool, error) {
	s.mu.Lock()
	defer s.mu.Unlock()
	return s.val[iface], nil
}
func (s *twoState) IPv6Forwarding(string) (bool, error) { return true, nil }
func (s *twoState) SetIPv6Autoconf(iface string, enable bool) error {
	s.mu.Lock()
	defer s.mu.Unlock()
	s.val[iface] = enable
	return nil
}

func twoProp(t *testing.T, k *verifkit.Kit) func(c twoCase) error {
	return func(c twoCase) error {
		conns := 0
		for _, x := range c.Ifaces {
			conns += len(x.Tasks)
		}
		k.Record(c, len(c.Ifaces) > 1 && conns > len(c.Ifaces), fmt.Sprintf("interfaces=%d", len(c.Ifaces)))
		st := &twoState{val: map[string]bool{}, held: map[string]int{}}
		var verr error
		synctest.Test(t, func(t *testing.T) {
			var wg sync.WaitGroup
			errs := make([]error, len(c.Ifaces))
			for i, x := range c.Ifaces {
				st.val[fmt.Sprintf("if%d", i)] = x.Autoconf0 // (all of them before the first Dialer runs)
			}
			for i, x := range c.Ifaces {
				name := fmt.Sprintf("if%d", i)
				mode := Advertise
				if x.Monitor {
					mode = Monitor
				}
				d := NewDialer(name, st, mode, log.New(io.Discard, "", 0))
				d.DialFunc = func() (*DialContext, error) {
					// what dial() does, minus the socket: the real setAutoconf and its restore closure
					var restore func() error
					if mode == Advertise {
						r, err := d.setAutoconf()
						if err != nil {
							return nil, err
						}
						restore = r
					}
					st.mu.Lock()
					st.held[name]++
					st.mu.Unlock()
					return &DialContext{done: func() error {
						st.mu.Lock()
						st.held[name]--
						st.mu.Unlock()
						if restore != nil {
							return restore()
						}
						return nil
					}}, nil
				}
				wg.Add(1)
				go func() {
					defer wg.Done()
					time.Sleep(time.Duration(x.StartNS))
					n := 0
					errs[i] = d.Dial(context.Background(), func(ctx context.Context, _ *DialContext) error {
						// while this interface holds a connection its setting is off (Advertise) or untouched (Monitor)
						if got, _ := st.IPv6Autoconf(name); mode == Advertise && got {
							st.mu.Lock()
							st.bad = append(st.bad, fmt.Sprintf("%s: autoconfiguration is on while connection %d is held", name, n))
							st.mu.Unlock()
						}
						time.Sleep(time.Duration(x.Tasks[n]))
						n++
						if n < len(x.Tasks) {
							return ErrLinkChange
						}
						return nil
					})
				}()
			}
			wg.Wait()
			for i, x := range c.Ifaces {
				name := fmt.Sprintf("if%d", i)
				if errs[i] != nil {
					verr = verifkit.Violf("C11/two/dial-error", "%s: Dial returned %v", name, errs[i])
					return
				}
				if got := st.val[name]; got != x.Autoconf0 {
					verr = verifkit.Violf("C11/two/autoconf-not-restored", "%s: autoconfiguration was %v before, is %v after its Dial returned (the other interfaces: %+v)", name, x.Autoconf0, got, c.Ifaces)
					return
				}
				if st.held[name] != 0 {
					verr = verifkit.Violf("C11/two/cleanup-count", "%s: %d connections not cleaned up exactly once", name, st.held[name])
					return
				}
			}
			if len(st.bad) > 0 {
				verr = verifkit.Violf("C11/two/autoconf-on-while-held", "%v", st.bad)
			}
		})
		return verr
	}
}

func twoGen(t *rapid.T) twoCase {
	var c twoCase
	for i, n := 0, rapid.IntRange(1, 4).Draw(t, "nifaces"); i < n; i++ {
		x := twoIface{Autoconf0: rapid.Bool().Draw(t, "autoconf"), StartNS: rapid.SampledFrom([]int64{0, 0, 1, int64(time.Millisecond), int64(300 * time.Millisecond)}).Draw(t, "start"),
			Monitor: rapid.IntRange(0, 4).Draw(t, "monitor") == 0}
		for j, m := 0, rapid.IntRange(1, 4).Draw(t, "nconns"); j < m; j++ {
			x.Tasks = append(x.Tasks, rapid.SampledFrom([]int64{0, 1, int64(time.Millisecond), int64(100 * time.Millisecond), int64(time.Second)}).Draw(t, "task"))
		}
		c.Ifaces = append(c.Ifaces, x)
	}
	return c
}

func TestVerif_C11two(t *testing.T) {
	k := verifkit.Start(t, "C11")
	prop := twoProp(t, k)
	k.Regress(t, func(sub string, raw json.RawMessage) error {
		if sub != "several-dialers" {
			return nil
		}
		return verifkit.Decode(raw, prop)
	})
	verifkit.Rapid(k, t, "several-dialers", k.N(1500, 200000), twoGen, prop)
}

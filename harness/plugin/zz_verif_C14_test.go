package plugin

// C14: the :: RDNSS wildcard picks the best eligible interface address
// deterministically. Oracle: verifref.BestRDNSS (total-order specification:
// minimum of (not stable, class rank, address)) + permutation invariance.

import (
	"encoding/json"
	"fmt"
	"net/netip"
	"slices"
	"strings"
	"testing"
	"time"

	"github.com/mdlayher/corerad/internal/system"
	"github.com/mdlayher/corerad/internal/verifkit"
	"github.com/mdlayher/corerad/internal/verifref"
	"github.com/mdlayher/ndp"
	"pgregory.net/rapid"
)

type c14Case struct {
	Addrs    []system.IP  `json:"addrs"`
	Static   []netip.Addr `json:"static"` // as the parser hands them over: sorted, unique, no ::
	Lifetime int64        `json:"lifetime_ns"`
	Perm     []int        `json:"perm"`
	SrcErr   bool         `json:"src_err"`
}

var c14Pool = func() []system.IP {
	var out []system.IP
	// class x stability source x exclusion flag
	bases := []string{"fd00:1::%s/64", "2001:db8:1::%s/64", "fe80::%s/64"}
	for bi, b := range bases {
		out = append(out,
			ip(fmt.Sprintf(b, "5"), nil), // unstable, eligible
			ip(fmt.Sprintf(b, "4"), func(i *system.IP) { i.ValidForever = true }),
			ip(fmt.Sprintf(b, "200:ff:fe00:9"), nil), // EUI-64 => stable
			ip(fmt.Sprintf(b, "3"), func(i *system.IP) { i.Deprecated = true; i.ValidForever = true }),
		)
		switch bi {
		case 0:
			// same class and stability as "5", interface identifier more than 2^63 away
			out = append(out, ip(fmt.Sprintf("fd00:1::%s/64", "8000:0:0:1"), nil), ip(fmt.Sprintf("fd00:1::%s/64", "ffff:ffff:ffff:fffe"), func(i *system.IP) { i.ValidForever = true }))
			out = append(out, ip(fmt.Sprintf(b, "2"), func(i *system.IP) { i.Temporary = true }))
			out = append(out, ip(fmt.Sprintf(b, "6"), func(i *system.IP) { i.StablePrivacy = true }))
		case 1:
			out = append(out, ip(fmt.Sprintf(b, "2"), func(i *system.IP) { i.Tentative = true; i.StablePrivacy = true }))
			out = append(out, ip(fmt.Sprintf(b, "6"), func(i *system.IP) { i.ManageTemporaryAddresses = true }))
		}
	}
	out = append(out, ip("192.0.2.53/24", func(i *system.IP) { i.ValidForever = true }))
	return out
}()

func c14Eligible(a system.IP) bool {
	return a.Address.Addr().Is6() && !a.Deprecated && !a.Temporary && !a.Tentative
}

func c14Plugin(c c14Case, cur *[]system.IP) *RDNSS {
	// spare capacity, as a slice filled by append (the parser's) usually has
	static := make([]netip.Addr, len(c.Static), len(c.Static)+4)
	copy(static, c.Static)
	if len(c.Static) == 0 {
		static = nil
	}
	return &RDNSS{
		Auto:     true,
		Lifetime: time.Duration(c.Lifetime),
		Servers:  static,
		Addrs: func() ([]system.IP, error) {
			if c.SrcErr {
				return nil, errVerifSource
			}
			return vkCopyIPs(*cur), nil
		},
	}
}

func c14Apply(c c14Case, addrs []system.IP) ([]ndp.Option, error) {
	cur := addrs
	return c14ApplyOn(c, c14Plugin(c, &cur))
}

func c14ApplyOn(c c14Case, r *RDNSS) ([]ndp.Option, error) {
	ra := &ndp.RouterAdvertisement{Options: []ndp.Option{vkSentinel()}}
	err := r.Apply(ra)
	if len(ra.Options) == 0 || fmt.Sprint(ra.Options[0]) != fmt.Sprint(vkSentinel()) {
		return nil, verifkit.Violf("C14/existing-option-lost", "Apply removed or changed an existing option: %s", vkOptsString(ra.Options))
	}
	if !slices.Equal(r.Servers, c.Static) || !r.Auto || r.Lifetime != time.Duration(c.Lifetime) {
		return nil, verifkit.Violf("C14/plugin-mutated", "Apply changed the plugin configuration: servers %v -> %v", c.Static, r.Servers)
	}
	return ra.Options[1:], err
}

func c14Prop(k *verifkit.Kit) func(c c14Case) error {
	return func(c c14Case) error {
		ranks := map[[2]int]bool{}
		for _, a := range c.Addrs {
			if c14Eligible(a) {
				st := 1
				if verifref.Stable(a) {
					st = 0
				}
				ranks[[2]int{st, verifref.ClassRank(a.Address.Addr())}] = true
			}
		}
		cls := []string{fmt.Sprintf("eligible-ranks=%d", min(len(ranks), 4))}
		if len(c.Static) > 0 {
			cls = append(cls, "with-static")
		}
		if c.SrcErr {
			cls = append(cls, "source-error")
		}
		k.Record(c, len(ranks) >= 2, cls...)

		got, err := c14Apply(c, c.Addrs)
		if v, ok := err.(*verifkit.Violation); ok {
			return v
		}
		want, ok := verifref.BestRDNSS(c.Addrs)
		if c.SrcErr || !ok {
			sig := "C14/no-eligible-address-accepted"
			if c.SrcErr {
				sig = "C14/source-error-swallowed"
			}
			if err == nil {
				return verifkit.Violf(sig, "expected RA generation to fail, got options %s", vkOptsString(got))
			}
			if len(got) != 0 {
				return verifkit.Violf("C14/options-on-error", "Apply failed but appended %s", vkOptsString(got))
			}
			return nil
		}
		if err != nil {
			return verifkit.Violf("C14/unexpected-error", "Apply failed although %v is eligible: %v", want, err)
		}
		if len(got) != 1 {
			return verifkit.Violf("C14/option-count", "want exactly one RDNSS option, got %s", vkOptsString(got))
		}
		o, isR := got[0].(*ndp.RecursiveDNSServer)
		if !isR {
			return verifkit.Violf("C14/wrong-option-kind", "option is %T", got[0])
		}
		if o.Lifetime != time.Duration(c.Lifetime) {
			return verifkit.Violf("C14/wrong-lifetime", "lifetime want %v got %v", time.Duration(c.Lifetime), o.Lifetime)
		}
		if len(o.Servers) == 0 || o.Servers[0] != want {
			return verifkit.Violf("C14/wrong-pick", "first server want %v got %v", want, o.Servers)
		}
		if slices.Contains(c.Static, want) {
			k.Unspecified("automatic pick equals a static server")
		} else if !slices.Equal(o.Servers[1:], c.Static) {
			return verifkit.Violf("C14/static-servers", "static servers want %v got %v", c.Static, o.Servers[1:])
		}
		// history on ONE plugin object with a changing listing (and repeated builds)
		if len(c.Addrs) > 1 && !slices.Contains(c.Static, want) {
			cur := c.Addrs
			pl := c14Plugin(c, &cur)
			for step, list := range [][]system.IP{c.Addrs, c.Addrs, c.Addrs[1:], c.Addrs[:len(c.Addrs)/2], c.Addrs,
				vkReflag(c.Addrs, 0), vkReflag(c.Addrs, 3), vkReflag(c.Addrs, 2), vkReflag(c.Addrs, 4), vkReflag(c.Addrs, 1), c.Addrs} { // (... and flags change while the addresses stay)
				cur = list
				g, err := c14ApplyOn(c, pl)
				if v, ok := err.(*verifkit.Violation); ok {
					return v
				}
				w, ok := verifref.BestRDNSS(list)
				if !ok {
					if err == nil {
						return verifkit.Violf("C14/no-eligible-address-accepted", "Apply %d on the same plugin: no eligible address in %v but an option was built: %s", step, list, vkOptsString(g))
					}
					continue
				}
				if err != nil || len(g) != 1 {
					return verifkit.Violf("C14/stale-or-accumulated-state", "Apply %d on the same plugin: err=%v options=%s", step, err, vkOptsString(g))
				}
				o, _ := g[0].(*ndp.RecursiveDNSServer)
				wantServers := append([]netip.Addr{w}, c.Static...)
				if o == nil || (!slices.Contains(c.Static, w) && !slices.Equal(o.Servers, wantServers)) {
					return verifkit.Violf("C14/stale-or-accumulated-state", "Apply %d on the same plugin with listing %v: want servers %v got %s", step, list, wantServers, vkOptsString(g))
				}
			}
		}
		if len(c.Perm) > 0 && len(c.Addrs) > 0 {
			got2, err := c14Apply(c, vkPermute(c.Addrs, c.Perm))
			if err != nil {
				return verifkit.Violf("C14/unexpected-error", "Apply on permuted list failed: %v", err)
			}
			if vkOptsString(got2) != vkOptsString(got) {
				return verifkit.Violf("C14/order-dependent", "permuted listing %v gives %s, original gives %s", c.Perm, vkOptsString(got2), vkOptsString(got))
			}
		}
		return nil
	}
}

func c14GenStatic(t *rapid.T) []netip.Addr {
	pool := []string{"2001:db8::53", "2001:db8::54", "fd00:1::4", "fd00::53", "fe80::53", "2001:4860:4860::8888"}
	pick := rapid.SliceOfNDistinct(rapid.SampledFrom(pool), 0, 4, rapid.ID[string]).Draw(t, "static")
	out := make([]netip.Addr, 0, len(pick))
	for _, s := range pick {
		out = append(out, netip.MustParseAddr(s))
	}
	slices.SortFunc(out, func(a, b netip.Addr) int { return a.Compare(b) })
	return out
}

func c14Gen(t *rapid.T) c14Case {
	addrs := rapid.SliceOfN(rapid.Custom(c13GenIP), 0, 30).Draw(t, "addrs")
	c := c14Case{
		Addrs:    addrs,
		Static:   c14GenStatic(t),
		Lifetime: rapid.Int64Range(0, int64(48*time.Hour)).Draw(t, "lifetime"),
		Perm:     vkGenPerm(t, len(addrs)),
		SrcErr:   rapid.IntRange(0, 29).Draw(t, "srcerr") == 0,
	}
	if rapid.IntRange(0, 3).Draw(t, "overlap") == 0 {
		// the operator also listed one of the interface's own addresses as a static server - now and then the very one
		// the wildcard picks (what the option then looks like is not stated; that the plugin is left alone, is)
		var own []netip.Addr
		if best, ok := verifref.BestRDNSS(addrs); ok && rapid.Bool().Draw(t, "overlapbest") {
			own = append(own, best)
		} else if len(addrs) > 0 {
			if a := rapid.SampledFrom(addrs).Draw(t, "overlapaddr").Address.Addr(); a.Is6() {
				own = append(own, a)
			}
		}
		for _, a := range own {
			if !slices.Contains(c.Static, a) {
				c.Static = append(c.Static, a)
			}
		}
		slices.SortFunc(c.Static, func(a, b netip.Addr) int { return a.Compare(b) })
	}
	return c
}

func c14Seqs(maxLen int) func(yield func(c14Case) bool) {
	return func(yield func(c14Case) bool) {
		static := []netip.Addr{netip.MustParseAddr("2001:db8::53")}
		var rec func(cur []int) bool
		rec = func(cur []int) bool {
			addrs := make([]system.IP, len(cur))
			perm := make([]int, len(cur))
			for i, x := range cur {
				addrs[i] = c14Pool[x]
				perm[i] = len(cur) - 1 - i
			}
			c := c14Case{Addrs: addrs, Lifetime: int64(30 * time.Minute), Perm: perm}
			if len(cur)%2 == 1 {
				c.Static = static
			}
			if !yield(c) {
				return false
			}
			if len(cur) == maxLen {
				return true
			}
			for x := range c14Pool {
				if !rec(append(cur, x)) {
					return false
				}
			}
			return true
		}
		rec(nil)
		yield(c14Case{Addrs: c14Pool[:3], SrcErr: true})
	}
}

// c14OverlapProp: see vkOverlapped.
func c14OverlapProp(k *verifkit.Kit) func(c c14Case) error {
	return func(c c14Case) error {
		want, ok := verifref.BestRDNSS(c.Addrs)
		if c.SrcErr || !ok || slices.Contains(c.Static, want) {
			k.Record(c, false, "overlap:not-applicable")
			return nil
		}
		otherList := vkPermute(c.Addrs, c.Perm)
		if len(otherList) > 1 {
			otherList = otherList[1:]
		}
		want2, ok2 := verifref.BestRDNSS(otherList)
		if !ok2 || slices.Contains(c.Static, want2) {
			otherList, want2 = c.Addrs, want
		}
		k.Record(c, true, "overlap")
		render := func(g []ndp.Option, err error) (string, error) {
			if err != nil || len(g) != 1 {
				return fmt.Sprintf("%d options", len(g)), err
			}
			o, _ := g[0].(*ndp.RecursiveDNSServer)
			if o == nil {
				return fmt.Sprintf("%T", g[0]), nil
			}
			return fmt.Sprint(o.Servers), nil
		}
		ref := func(w netip.Addr) string { return fmt.Sprint(append([]netip.Addr{w}, c.Static...)) }
		cur := c.Addrs
		pl := c14Plugin(c, &cur)
		cur2 := otherList
		other := c14Plugin(c, &cur2)
		if len(c.Addrs)%2 == 0 {
			other, want2 = pl, want
		}
		orig := pl.Addrs
		return vkOverlapped("C14",
			func(gate func()) (string, error) {
				gp := *pl
				gp.Addrs = func() ([]system.IP, error) { gate(); return orig() }
				if other == pl {
					pl.Addrs = gp.Addrs
					return render(c14ApplyOn(c, pl))
				}
				return render(c14ApplyOn(c, &gp))
			},
			func() (string, error) { return render(c14ApplyOn(c, other)) },
			ref(want), ref(want2),
			func() (string, error) { return render(c14ApplyOn(c, pl)) })
	}
}

func TestVerif_C14(t *testing.T) {
	k := verifkit.Start(t, "C14")
	prop := c14Prop(k)
	k.Regress(t, func(sub string, raw json.RawMessage) error {
		if strings.HasPrefix(sub, "os") {
			return nil // belongs to the OS part
		}
		if strings.HasPrefix(sub, "overlapping") {
			return verifkit.Decode(raw, c14OverlapProp(k))
		}
		return verifkit.Decode(raw, prop)
	})
	maxLen := 3
	if k.Thorough() {
		maxLen = 4
	}
	verifkit.Enumerate(k, t, fmt.Sprintf("pool-sequences<=%d", maxLen), true, c14Seqs(maxLen), prop)
	verifkit.Rapid(k, t, "random-lists", k.N(4000, 1000000), c14Gen, prop)
	verifkit.Rapid(k, t, "overlapping-applications", k.N(400, 40000), c14Gen, c14OverlapProp(k))
}

package plugin

// C01, one clause on its own: "PREF64 lifetime = 3 x MaxRtrAdvInterval rounded up to a multiple of 8s, capped at
// 65528s".  Through the configuration max_interval ends at 1800 s, so 3 x max never comes near the cap: the cap is
// judged here on NewPREF64 itself, for every interval a caller could pass.

import (
	"encoding/json"
	"fmt"
	"net/netip"
	"testing"
	"time"

	"github.com/mdlayher/corerad/internal/verifkit"
	"github.com/mdlayher/corerad/internal/verifref"
	"pgregory.net/rapid"
)

type pref64Case struct {
	MaxNS int64 `json:"max_interval_ns"`
}

func pref64Prop(k *verifkit.Kit) func(c pref64Case) error {
	pfx := netip.MustParsePrefix("64:ff9b::/96")
	return func(c pref64Case) error {
		max := time.Duration(c.MaxNS)
		want := verifref.PREF64Lifetime(max)
		k.Record(c, 3*max > 65520*time.Second || max%time.Second != 0, fmt.Sprintf("capped=%v", want == 65528*time.Second))
		p := NewPREF64(pfx, max)
		if got := p.Inner.Lifetime; got != want {
			return verifkit.Violf("C01/pref64-lifetime", "NewPREF64(max_interval=%v): lifetime %v, want %v (3 x max rounded up to 8 s, at most 65528 s)", max, got, want)
		}
		if p.Inner.Prefix != pfx {
			return verifkit.Violf("C01/pref64-prefix", "NewPREF64 changed the prefix: %v", p.Inner.Prefix)
		}
		return nil
	}
}

func TestVerif_C01pref64(t *testing.T) {
	k := verifkit.Start(t, "C01")
	prop := pref64Prop(k)
	k.Regress(t, func(sub string, raw json.RawMessage) error {
		if sub != "pref64-lifetime" {
			return nil
		}
		return verifkit.Decode(raw, prop)
	})
	s := int64(time.Second)
	verifkit.Enumerate(k, t, "pref64-lifetime", true, func(yield func(pref64Case) bool) {
		// every whole second up to 2 x the interval at which the cap is reached, and the nanoseconds around each edge
		for sec := int64(0); sec <= 44000; sec++ {
			if !yield(pref64Case{sec * s}) {
				return
			}
		}
		for _, edge := range []int64{4 * s, 1800 * s, 21840 * s, 21842 * s, 21842*s + 666666666, 21842*s + 666666667, 21843 * s, 8 * s / 3, 16 * s / 3, 65528 * s, 65528 * s / 3} {
			for d := int64(-3); d <= 3; d++ {
				if edge+d >= 0 && !yield(pref64Case{edge + d}) {
					return
				}
			}
		}
	}, prop)
	verifkit.Rapid(k, t, "pref64-lifetime", k.N(5000, 500000), func(t *rapid.T) pref64Case {
		return pref64Case{rapid.Int64Range(0, 100000*s).Draw(t, "max")}
	}, prop)
}

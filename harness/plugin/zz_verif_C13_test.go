package plugin

// C13: the ::/64 wildcard expands to exactly the interface's eligible /64
// networks. Oracle: verifref.ExpandPrefixes (set specification) plus
// permutation/duplication invariance and the error clause.

import (
	"encoding/json"
	"fmt"
	"net/netip"
	"strings"
	"testing"
	"time"

	"github.com/mdlayher/corerad/internal/system"
	"github.com/mdlayher/corerad/internal/verifkit"
	"github.com/mdlayher/corerad/internal/verifref"
	"github.com/mdlayher/ndp"
	"pgregory.net/rapid"
)

type c13Case struct {
	Addrs  []system.IP `json:"addrs"`
	Stanza vkStanza    `json:"stanza"`
	Perm   []int       `json:"perm"`
	SrcErr bool        `json:"src_err"`
}

func ip(s string, f func(*system.IP)) system.IP {
	v := system.IP{Address: netip.MustParsePrefix(s)}
	if f != nil {
		f(&v)
	}
	return v
}

var c13Pool = []system.IP{
	ip("2001:db8:1::1/64", nil),
	ip("2001:db8:1::2/64", func(i *system.IP) { i.ManageTemporaryAddresses = true }),
	ip("2001:db8:2::1/64", func(i *system.IP) { i.Temporary = true }),
	ip("2001:db8:2::2/64", func(i *system.IP) { i.Tentative = true }),
	ip("2001:db8:2::3/64", func(i *system.IP) { i.Deprecated = true }),
	ip("2001:db8:0:1::1/64", func(i *system.IP) { i.ValidForever = true }),
	ip("fd00:1::1/64", func(i *system.IP) { i.StablePrivacy = true }),
	ip("fd00:1::2/64", func(i *system.IP) { i.Temporary = true; i.Tentative = true }),
	ip("fe80::1/64", nil),
	ip("192.0.2.1/24", nil),
	ip("2001:db8:3::1/48", nil),
	ip("2001:db8:4::1/128", nil),
	ip("2001:db8:5::/64", nil),
	ip("fd00:2::1/56", func(i *system.IP) { i.ValidForever = true }),
}

func c13Eligible(a system.IP) bool {
	ip := a.Address.Addr()
	return ip.Is6() && !ip.IsLinkLocalUnicast() && a.Address.Bits() == 64 && !a.Temporary && !a.Tentative
}

// c13Plugin builds the plugin once; cur is the listing its address source returns.
func c13Plugin(c c13Case, cur *[]system.IP) *Prefix {
	return &Prefix{
		Auto:              true,
		Prefix:            netip.MustParsePrefix("::/64"),
		OnLink:            c.Stanza.OnLink,
		Autonomous:        c.Stanza.Autonomous,
		ValidLifetime:     time.Duration(c.Stanza.ValidNS),
		PreferredLifetime: time.Duration(c.Stanza.PrefNS),
		TimeNow:           func() time.Time { return time.Unix(1700000000, 0) },
		Epoch:             time.Unix(1600000000, 0), // as the parser builds it: every prefix plugin carries the daemon's start time
		Addrs: func() ([]system.IP, error) {
			if c.SrcErr {
				return nil, errVerifSource
			}
			return vkCopyIPs(*cur), nil
		},
	}
}

func c13Apply(c c13Case, addrs []system.IP) ([]ndp.Option, error) {
	cur := addrs
	return c13ApplyOn(c13Plugin(c, &cur))
}

func c13ApplyOn(p *Prefix) ([]ndp.Option, error) {
	before := *p
	ra := &ndp.RouterAdvertisement{Options: []ndp.Option{vkSentinel()}}
	err := p.Apply(ra)
	if len(ra.Options) == 0 || fmt.Sprint(ra.Options[0]) != fmt.Sprint(vkSentinel()) {
		return nil, verifkit.Violf("C13/existing-option-lost", "Apply removed or changed an option that was already in the RA: %s", vkOptsString(ra.Options))
	}
	after := *p
	before.TimeNow, before.Addrs, after.TimeNow, after.Addrs = nil, nil, nil, nil
	if fmt.Sprintf("%+v", before) != fmt.Sprintf("%+v", after) {
		return nil, verifkit.Violf("C13/plugin-mutated", "Apply changed the plugin: %+v -> %+v", before, after)
	}
	return ra.Options[1:], err
}

func c13Prop(k *verifkit.Kit) func(c c13Case) error {
	return func(c c13Case) error {
		var incl, excl int
		nets := map[netip.Prefix]int{}
		for _, a := range c.Addrs {
			if c13Eligible(a) {
				incl++
				nets[a.Address.Masked()]++
			} else {
				excl++
			}
		}
		dup := false
		for _, n := range nets {
			dup = dup || n > 1
		}
		cls := []string{fmt.Sprintf("len=%d", min(len(c.Addrs), 6))}
		if dup {
			cls = append(cls, "duplicate-network")
		}
		if c.SrcErr {
			cls = append(cls, "source-error")
		}
		if len(nets) >= 2 {
			cls = append(cls, "two+networks")
		}
		k.Record(c, (incl > 0 && excl > 0) || dup, cls...)

		got, err := c13Apply(c, c.Addrs)
		if v, ok := err.(*verifkit.Violation); ok {
			return v
		}
		if c.SrcErr {
			if err == nil {
				return verifkit.Violf("C13/source-error-swallowed", "address source failed but Apply returned nil with options %s", vkOptsString(got))
			}
			if len(got) != 0 {
				return verifkit.Violf("C13/options-on-error", "Apply failed but appended %s", vkOptsString(got))
			}
			return nil
		}
		if err != nil {
			return verifkit.Violf("C13/unexpected-error", "Apply failed: %v", err)
		}
		want := verifref.ExpandPrefixes(c.Addrs)
		if len(got) != len(want) {
			return verifkit.Violf("C13/wrong-set", "want prefixes %v, got options %s", want, vkOptsString(got))
		}
		for i, o := range got {
			pi, ok := o.(*ndp.PrefixInformation)
			if !ok {
				return verifkit.Violf("C13/wrong-option-kind", "option %d is %T", i, o)
			}
			exp := ndp.PrefixInformation{
				PrefixLength:                   64,
				OnLink:                         c.Stanza.OnLink,
				AutonomousAddressConfiguration: c.Stanza.Autonomous,
				ValidLifetime:                  time.Duration(c.Stanza.ValidNS),
				PreferredLifetime:              time.Duration(c.Stanza.PrefNS),
				Prefix:                         want[i].Addr(),
			}
			if *pi != exp {
				sig := "C13/wrong-set"
				if pi.Prefix == exp.Prefix && pi.PrefixLength == exp.PrefixLength {
					sig = "C13/wrong-stanza-values"
				}
				return verifkit.Violf(sig, "option %d: want %+v got %+v (expected set %v)", i, exp, *pi, want)
			}
		}
		// history on ONE plugin object: the listing changes between RAs (addresses come and
		// go); every RA must reflect the listing at that moment, not an earlier one
		if len(c.Addrs) > 1 {
			cur := c.Addrs
			pl := c13Plugin(c, &cur)
			for step, list := range [][]system.IP{c.Addrs, c.Addrs[1:], c.Addrs[:len(c.Addrs)/2], c.Addrs,
				vkReflag(c.Addrs, 0), vkReflag(c.Addrs, 3), vkReflag(c.Addrs, 1), c.Addrs} { // (... and flags change while the addresses stay)
				cur = list
				g, err := c13ApplyOn(pl)
				if err != nil {
					return verifkit.Violf("C13/unexpected-error", "Apply %d on the same plugin failed: %v", step, err)
				}
				w := verifref.ExpandPrefixes(list)
				var gp []netip.Prefix
				for _, o := range g {
					if pi, ok := o.(*ndp.PrefixInformation); ok {
						gp = append(gp, netip.PrefixFrom(pi.Prefix, int(pi.PrefixLength)))
					}
				}
				if fmt.Sprint(gp) != fmt.Sprint(w) {
					return verifkit.Violf("C13/stale-or-accumulated-state", "Apply %d on the same plugin with listing %v: want %v got %v", step, list, w, gp)
				}
			}
		}
		// metamorphic: order and multiplicity of the OS listing are irrelevant
		if len(c.Perm) > 0 && len(c.Addrs) > 0 {
			got2, err := c13Apply(c, vkPermute(c.Addrs, c.Perm))
			if err != nil {
				return verifkit.Violf("C13/unexpected-error", "Apply on permuted list failed: %v", err)
			}
			if vkOptsString(got2) != vkOptsString(got) {
				return verifkit.Violf("C13/order-dependent", "permuted listing %v gives %s, original gives %s", c.Perm, vkOptsString(got2), vkOptsString(got))
			}
		}
		return nil
	}
}

func c13GenIP(t *rapid.T) system.IP {
	nets := []string{"2001:db8:1:", "2001:db8:2:", "2001:db8:0:", "fd00:1:0:", "fd00:ffff:0:", "fe80:0:0:", "2a00:1:2:"}
	// interface identifiers across the whole 64-bit range (privacy and stable-privacy identifiers are uniformly
	// distributed; half of them have the top bit set)
	hosts := []string{":1", ":2", ":ffff", "200:ff:fe00:1", ":", "8000:0:0:1", "7fff:ffff:ffff:ffff", "ffff:ffff:ffff:fffe", "c000:0:0:2"}
	kind := rapid.IntRange(0, 19).Draw(t, "kind")
	var pfx netip.Prefix
	switch {
	case kind == 0:
		pfx = netip.MustParsePrefix(rapid.SampledFrom([]string{"192.0.2.1/24", "10.0.0.1/8", "198.51.100.7/32"}).Draw(t, "v4"))
	default:
		n := rapid.SampledFrom(nets).Draw(t, "net")
		sub := rapid.IntRange(0, 3).Draw(t, "sub")
		h := rapid.SampledFrom(hosts).Draw(t, "host")
		bits := 64
		if kind <= 3 {
			bits = rapid.SampledFrom([]int{48, 56, 63, 65, 96, 128}).Draw(t, "bits")
			if rapid.Bool().Draw(t, "anybits") {
				bits = rapid.IntRange(0, 128).Draw(t, "bitsv")
			}
		}
		s := fmt.Sprintf("%s%x:%s/%d", n, sub, h, bits)
		if h == ":" {
			s = fmt.Sprintf("%s%x::/%d", n, sub, bits)
		}
		p, err := netip.ParsePrefix(s)
		if err != nil {
			panic(fmt.Sprintf("verif generator bug: %q: %v", s, err))
		}
		pfx = p
	}
	flag := func(name string, oneIn int) bool { return rapid.IntRange(0, oneIn-1).Draw(t, name) == 0 }
	return system.IP{
		Address:                  pfx,
		Deprecated:               flag("deprecated", 5),
		ManageTemporaryAddresses: flag("mngtmp", 6),
		StablePrivacy:            flag("stablepriv", 6),
		Temporary:                flag("temporary", 5),
		Tentative:                flag("tentative", 5),
		ValidForever:             flag("forever", 5),
	}
}

func c13Gen(t *rapid.T) c13Case {
	addrs := rapid.SliceOfN(rapid.Custom(c13GenIP), 0, 40).Draw(t, "addrs")
	return c13Case{
		Addrs:  addrs,
		Stanza: vkGenStanza(t),
		Perm:   vkGenPerm(t, len(addrs)),
		SrcErr: rapid.IntRange(0, 19).Draw(t, "srcerr") == 0,
	}
}

// c13Seqs enumerates every sequence (with repetition) of length <= maxLen over
// the pool: all sub-multisets in all orders. The permutation check reverses.
func c13Seqs(maxLen int) func(yield func(c13Case) bool) {
	return func(yield func(c13Case) bool) {
		st := vkStanza{OnLink: true, Autonomous: false, ValidNS: int64(2 * time.Hour), PrefNS: int64(time.Hour)}
		var rec func(cur []int) bool
		rec = func(cur []int) bool {
			addrs := make([]system.IP, len(cur))
			perm := make([]int, len(cur))
			for i, x := range cur {
				addrs[i] = c13Pool[x]
				perm[i] = len(cur) - 1 - i
			}
			if !yield(c13Case{Addrs: addrs, Stanza: st, Perm: perm}) {
				return false
			}
			if len(cur) == maxLen {
				return true
			}
			for x := range c13Pool {
				if !rec(append(cur, x)) {
					return false
				}
			}
			return true
		}
		rec(nil)
		yield(c13Case{Addrs: c13Pool[:3], Stanza: st, SrcErr: true})
	}
}

// c13OverlapProp: see vkOverlapped. The second application is of another plugin object over another listing (state
// shared between plugin objects shows), or of the same object.
func c13OverlapProp(k *verifkit.Kit) func(c c13Case) error {
	return func(c c13Case) error {
		if c.SrcErr || len(c.Addrs) == 0 {
			k.Record(c, false, "overlap:nothing-to-list")
			return nil
		}
		k.Record(c, true, "overlap")
		ref := func(list []system.IP) string { return fmt.Sprint(verifref.ExpandPrefixes(list)) }
		render := func(g []ndp.Option, err error) (string, error) {
			var gp []netip.Prefix
			for _, o := range g {
				if pi, ok := o.(*ndp.PrefixInformation); ok {
					gp = append(gp, netip.PrefixFrom(pi.Prefix, int(pi.PrefixLength)))
				}
			}
			return fmt.Sprint(gp), err
		}
		cur := c.Addrs
		pl := c13Plugin(c, &cur)
		otherList := vkPermute(c.Addrs, c.Perm)
		if len(otherList) > 1 {
			otherList = otherList[1:]
		}
		cur2 := otherList
		other := c13Plugin(c, &cur2)
		if len(c.Addrs)%2 == 0 {
			other, otherList = pl, c.Addrs // the same object
		}
		orig := pl.Addrs
		return vkOverlapped("C13",
			func(gate func()) (string, error) {
				gp := *pl
				gp.Addrs = func() ([]system.IP, error) { gate(); return orig() }
				if other == pl {
					// the same object must be used by both: gate through the object's own source
					pl.Addrs = gp.Addrs
					return render(c13ApplyOn(pl))
				}
				return render(c13ApplyOn(&gp))
			},
			func() (string, error) { return render(c13ApplyOn(other)) },
			ref(c.Addrs), ref(otherList),
			func() (string, error) { return render(c13ApplyOn(pl)) })
	}
}

func TestVerif_C13(t *testing.T) {
	k := verifkit.Start(t, "C13")
	prop := c13Prop(k)
	k.Regress(t, func(sub string, raw json.RawMessage) error {
		if strings.HasPrefix(sub, "os") {
			return nil // belongs to the OS part
		}
		if strings.HasPrefix(sub, "overlapping") {
			return verifkit.Decode(raw, c13OverlapProp(k))
		}
		return verifkit.Decode(raw, prop)
	})
	maxLen := 3
	if k.Thorough() {
		maxLen = 4
	}
	verifkit.Enumerate(k, t, fmt.Sprintf("pool-sequences<=%d", maxLen), true, c13Seqs(maxLen), prop)
	verifkit.Rapid(k, t, "random-lists", k.N(4000, 1000000), c13Gen, prop)
	verifkit.Rapid(k, t, "overlapping-applications", k.N(400, 40000), c13Gen, c13OverlapProp(k))
}

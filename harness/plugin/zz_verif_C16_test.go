package plugin

// C16: deprecated prefixes and routes count down to zero at a fixed deadline.
// Oracle: closed formula max(0, epoch+L-now) per reading + history invariants
// (non-increasing, never negative, zero from the deadline on, preferred <=
// valid) + non-deprecated twins advertise the configured constants.

import (
	"encoding/json"
	"fmt"
	"net/netip"
	"sort"
	"testing"
	"testing/synctest"
	"time"

	"github.com/mdlayher/corerad/internal/system"
	"github.com/mdlayher/corerad/internal/verifkit"
	"github.com/mdlayher/corerad/internal/verifref"
	"github.com/mdlayher/ndp"
	"pgregory.net/rapid"
)

type c16Case struct {
	EpochUnixNS int64   `json:"epoch_unix_ns"`
	ValidNS     int64   `json:"valid_ns"`
	PrefNS      int64   `json:"pref_ns"`
	RouteNS     int64   `json:"route_ns"`
	Offsets     []int64 `json:"offsets_ns"` // non-decreasing clock readings relative to the epoch
	Mono        bool    `json:"monotonic"`  // epoch and readings from time.Now() inside a synctest bubble (as main.go does)
	Wildcard    bool    `json:"wildcard"`
	TickNS      int64   `json:"tick_ns"`                               // >0: the injected clock advances by this much on every reading (as a real clock does)
	Fanout      int     `json:"fanout,omitempty"`                      // wildcard stanzas expand to this many prefixes / routes (0 = 1)
	KernelDep   bool    `json:"kernel_deprecated_addresses,omitempty"` // some of the interface's addresses carry the kernel's own deprecated flag (that is the address's business: the stanza's deprecated setting alone decides about counting down)
}

const c16MonoMax = int64(100 * 365 * 24 * time.Hour)

type c16Reading struct{ valid, pref, route, cValid, cPref, cRoute time.Duration }

func c16Build(c c16Case, epoch time.Time, now func() time.Time) (apply func() (c16Reading, error)) {
	fan := 1
	if c.Wildcard && c.Fanout > 1 {
		fan = c.Fanout
	}
	addrs := func() ([]system.IP, error) {
		out := []system.IP{{Address: netip.MustParsePrefix("2001:db8:7::1/64")}}
		for i := 1; i < fan; i++ {
			out = append(out, system.IP{Address: netip.MustParsePrefix(fmt.Sprintf("2001:db8:7:%x::1/64", i))})
		}
		if c.KernelDep {
			for i := range out {
				out[i].Deprecated = i%2 == (fan+1)%2
			}
		}
		return out, nil
	}
	routes := func() ([]system.Route, error) {
		out := []system.Route{{Prefix: netip.MustParsePrefix("2001:db8:8::/48"), Index: 1}}
		for i := 1; i < fan; i++ {
			out = append(out, system.Route{Prefix: netip.MustParsePrefix(fmt.Sprintf("2001:db8:%x::/48", 8+i)), Index: 1})
		}
		return out, nil
	}
	mkP := func(dep bool) *Prefix {
		p := &Prefix{Prefix: netip.MustParsePrefix("2001:db8:7::/64"), OnLink: true, Autonomous: true,
			ValidLifetime: time.Duration(c.ValidNS), PreferredLifetime: time.Duration(c.PrefNS),
			Deprecated: dep, Epoch: epoch, TimeNow: now, Addrs: addrs}
		if c.Wildcard {
			p.Auto, p.Prefix = true, netip.MustParsePrefix("::/64")
		}
		return p
	}
	mkR := func(dep bool) *Route {
		r := &Route{Prefix: netip.MustParsePrefix("2001:db8:8::/48"), Preference: ndp.Medium,
			Lifetime: time.Duration(c.RouteNS), Deprecated: dep, Epoch: epoch, TimeNow: now, Routes: routes}
		if c.Wildcard {
			r.Auto, r.Prefix = true, netip.MustParsePrefix("::/0")
		}
		return r
	}
	dp, cp, dr, cr := mkP(true), mkP(false), mkR(true), mkR(false)
	// an RA, once built, is a value: it is still being sent, compared or rendered when the next one is built from the
	// same plugins (the advertiser, the collector and the HTTP handlers all build their own) and must not change then
	var prevOpts []ndp.Option
	var prevText string
	return func() (c16Reading, error) {
		ra := &ndp.RouterAdvertisement{}
		for _, p := range []Plugin{dp, cp, dr, cr} {
			if err := p.Apply(ra); err != nil {
				return c16Reading{}, verifkit.Violf("C16/unexpected-error", "Apply failed: %v", err)
			}
		}
		if prevOpts != nil {
			if now := vkOptsString(prevOpts); now != prevText {
				return c16Reading{}, verifkit.Violf("C16/earlier-ra-rewritten", "building the next RA changed the one built before it:\nwas %s\nnow %s", prevText, now)
			}
		}
		prevOpts, prevText = ra.Options, vkOptsString(ra.Options)
		if len(ra.Options) != 4*fan {
			return c16Reading{}, verifkit.Violf("C16/option-count", "want %d options got %s", 4*fan, vkOptsString(ra.Options))
		}
		// every option a stanza expands to carries the stanza's lifetimes:
		// the reading of a group is its first option, and all others must agree
		var pis [2]*ndp.PrefixInformation
		var ris [2]*ndp.RouteInformation
		for g := 0; g < 2; g++ {
			for i := 0; i < fan; i++ {
				p, ok1 := ra.Options[g*fan+i].(*ndp.PrefixInformation)
				r, ok2 := ra.Options[2*fan+g*fan+i].(*ndp.RouteInformation)
				if !ok1 || !ok2 {
					return c16Reading{}, verifkit.Violf("C16/option-kind", "unexpected options %s", vkOptsString(ra.Options))
				}
				if i == 0 {
					pis[g], ris[g] = p, r
					continue
				}
				if c.TickNS > 0 {
					// with a ticking clock each option may legitimately come from its own, later reading: it still obeys what
					// every reading obeys, and it cannot promise more than the option before it
					pp := ra.Options[g*fan+i-1].(*ndp.PrefixInformation)
					pr := ra.Options[2*fan+g*fan+i-1].(*ndp.RouteInformation)
					switch {
					case p.ValidLifetime < 0 || p.PreferredLifetime < 0 || r.RouteLifetime < 0:
						return c16Reading{}, verifkit.Violf("C16/negative-lifetime", "option %d of %d of a wildcard stanza: negative lifetime %v/%v/%v", i+1, fan, p.ValidLifetime, p.PreferredLifetime, r.RouteLifetime)
					case p.PreferredLifetime > p.ValidLifetime:
						return c16Reading{}, verifkit.Violf("C16/preferred-exceeds-valid", "option %d of %d of a wildcard stanza with a ticking clock: preferred %v > valid %v", i+1, fan, p.PreferredLifetime, p.ValidLifetime)
					case p.ValidLifetime > pp.ValidLifetime || p.PreferredLifetime > pp.PreferredLifetime || r.RouteLifetime > pr.RouteLifetime:
						return c16Reading{}, verifkit.Violf("C16/lifetime-increased", "option %d of %d of a wildcard stanza (deprecated=%v) with a ticking clock carries %v/%v/%v, the option before it %v/%v/%v",
							i+1, fan, g == 0, p.ValidLifetime, p.PreferredLifetime, r.RouteLifetime, pp.ValidLifetime, pp.PreferredLifetime, pr.RouteLifetime)
					case g == 1 && (p.ValidLifetime != pis[g].ValidLifetime || p.PreferredLifetime != pis[g].PreferredLifetime || r.RouteLifetime != ris[g].RouteLifetime):
						return c16Reading{}, verifkit.Violf("C16/non-deprecated-not-constant", "option %d of %d of a non-deprecated wildcard stanza carries %v/%v/%v, the first %v/%v/%v",
							i+1, fan, p.ValidLifetime, p.PreferredLifetime, r.RouteLifetime, pis[g].ValidLifetime, pis[g].PreferredLifetime, ris[g].RouteLifetime)
					}
					continue
				}
				if p.ValidLifetime != pis[g].ValidLifetime || p.PreferredLifetime != pis[g].PreferredLifetime || r.RouteLifetime != ris[g].RouteLifetime {
					return c16Reading{}, verifkit.Violf("C16/options-of-one-stanza-disagree", "option %d of %d of a wildcard stanza (deprecated=%v) carries %v/%v/%v, the first %v/%v/%v",
						i+1, fan, g == 0, p.ValidLifetime, p.PreferredLifetime, r.RouteLifetime, pis[g].ValidLifetime, pis[g].PreferredLifetime, ris[g].RouteLifetime)
				}
			}
		}
		return c16Reading{pis[0].ValidLifetime, pis[0].PreferredLifetime, ris[0].RouteLifetime, pis[1].ValidLifetime, pis[1].PreferredLifetime, ris[1].RouteLifetime}, nil
	}
}

func c16Judge(c c16Case, epoch time.Time, at time.Time, i int, g c16Reading, prev *c16Reading) error {
	V, P, R := time.Duration(c.ValidNS), time.Duration(c.PrefNS), time.Duration(c.RouteNS)
	if g.cValid != V || g.cPref != P || g.cRoute != R {
		return verifkit.Violf("C16/non-deprecated-not-constant", "reading %d: non-deprecated stanzas advertise %v/%v/%v, configured %v/%v/%v", i, g.cValid, g.cPref, g.cRoute, V, P, R)
	}
	if g.valid < 0 || g.pref < 0 || g.route < 0 {
		return verifkit.Violf("C16/negative-lifetime", "reading %d (epoch%+v): negative lifetime %v/%v/%v", i, at.Sub(epoch), g.valid, g.pref, g.route)
	}
	if g.pref > g.valid {
		return verifkit.Violf("C16/preferred-exceeds-valid", "reading %d (epoch%+v): preferred %v > valid %v", i, at.Sub(epoch), g.pref, g.valid)
	}
	if prev != nil && (g.valid > prev.valid || g.pref > prev.pref || g.route > prev.route) {
		return verifkit.Violf("C16/lifetime-increased", "reading %d (epoch%+v): %v/%v/%v after %v/%v/%v", i, at.Sub(epoch), g.valid, g.pref, g.route, prev.valid, prev.pref, prev.route)
	}
	wv, wp, wr := verifref.Remaining(epoch, V, at), verifref.Remaining(epoch, P, at), verifref.Remaining(epoch, R, at)
	if g.valid != wv || g.pref != wp || g.route != wr {
		sig := "C16/wrong-remaining-time"
		if (wv == 0 && g.valid != 0) || (wp == 0 && g.pref != 0) || (wr == 0 && g.route != 0) {
			sig = "C16/nonzero-after-deadline"
		}
		return verifkit.Violf(sig, "reading %d at epoch%+v: want valid/pref/route %v/%v/%v got %v/%v/%v", i, at.Sub(epoch), wv, wp, wr, g.valid, g.pref, g.route)
	}
	return nil
}

func c16Prop(k *verifkit.Kit) func(c c16Case) error {
	return func(c c16Case) error {
		crossed := 0
		for _, d := range []int64{c.ValidNS, c.PrefNS, c.RouteNS} {
			before, after := false, false
			for _, o := range c.Offsets {
				if o < d {
					before = true
				} else {
					after = true
				}
			}
			if before && after {
				crossed++
			}
		}
		cls := []string{fmt.Sprintf("deadlines-crossed=%d", crossed)}
		if c.Mono {
			cls = append(cls, "monotonic-clock")
		}
		if c.Wildcard {
			cls = append(cls, "wildcard")
			if c.Fanout > 4 {
				cls = append(cls, "wildcard-expands-to-5+")
			}
		}
		if c.TickNS > 0 {
			cls = append(cls, "ticking-clock")
		}
		if len(c.Offsets) > 0 && c.Offsets[0] < 0 {
			cls = append(cls, "reading-before-epoch")
		}
		k.Record(c, crossed >= 1, cls...)

		if !sort.SliceIsSorted(c.Offsets, func(i, j int) bool { return c.Offsets[i] < c.Offsets[j] }) {
			return fmt.Errorf("verif: case has decreasing clock readings")
		}
		if c.Mono {
			var verr error
			synctest.Test(&testing.T{}, func(*testing.T) {
				epoch := time.Now()
				apply := c16Build(c, epoch, time.Now)
				var prev *c16Reading
				for i, o := range c.Offsets {
					if o < 0 || o > 2*c16MonoMax+int64(time.Second) {
						continue
					}
					if d := time.Duration(o) - time.Since(epoch); d > 0 {
						time.Sleep(d)
					}
					at := time.Now()
					g, err := apply()
					if err == nil {
						err = c16Judge(c, epoch, at, i, g, prev)
					}
					if err != nil {
						verr = err
						return
					}
					prev = &g
				}
			})
			return verr
		}
		epoch := time.Unix(0, c.EpochUnixNS)
		var cur time.Time
		if c.TickNS > 0 {
			return c16Ticking(c, epoch)
		}
		apply := c16Build(c, epoch, func() time.Time { return cur })
		var prev *c16Reading
		for i, o := range c.Offsets {
			cur = epoch.Add(time.Duration(o))
			g, err := apply()
			if err == nil {
				err = c16Judge(c, epoch, cur, i, g, prev)
			}
			if err != nil {
				return err
			}
			prev = &g
		}
		return nil
	}
}

// c16Ticking runs the sequence with a clock that advances on every reading. A
// real clock never returns the same instant twice, so "the lifetimes advertised
// at time t" must all come from one reading t: the oracle looks for a single
// recorded reading that explains both lifetimes of the prefix option.
func c16Ticking(c c16Case, epoch time.Time) error {
	V, P, R := time.Duration(c.ValidNS), time.Duration(c.PrefNS), time.Duration(c.RouteNS)
	var cur time.Time
	var reads []time.Time
	clock := func() time.Time {
		t := cur
		reads = append(reads, t)
		cur = cur.Add(time.Duration(c.TickNS))
		return t
	}
	apply := c16Build(c, epoch, clock)
	var prev *c16Reading
	for i, o := range c.Offsets {
		if at := epoch.Add(time.Duration(o)); at.After(cur) {
			cur = at
		}
		reads = reads[:0]
		g, err := apply()
		if err != nil {
			return err
		}
		if g.pref > g.valid {
			return verifkit.Violf("C16/preferred-exceeds-valid", "reading %d with a ticking clock (%v per read): preferred %v > valid %v", i, time.Duration(c.TickNS), g.pref, g.valid)
		}
		if g.valid < 0 || g.pref < 0 || g.route < 0 {
			return verifkit.Violf("C16/negative-lifetime", "reading %d: negative lifetime %v/%v/%v", i, g.valid, g.pref, g.route)
		}
		okPrefix, okRoute := false, false
		for _, r := range reads {
			if g.valid == verifref.Remaining(epoch, V, r) && g.pref == verifref.Remaining(epoch, P, r) {
				okPrefix = true
			}
			if g.route == verifref.Remaining(epoch, R, r) {
				okRoute = true
			}
		}
		if !okPrefix {
			return verifkit.Violf("C16/lifetimes-from-different-instants", "reading %d with a ticking clock: valid %v / preferred %v match no single clock reading %v (deadlines epoch+%v / epoch+%v)", i, g.valid, g.pref, reads, V, P)
		}
		if !okRoute {
			return verifkit.Violf("C16/wrong-remaining-time", "reading %d with a ticking clock: route lifetime %v matches no clock reading %v", i, g.route, reads)
		}
		if prev != nil && (g.valid > prev.valid || g.pref > prev.pref || g.route > prev.route) {
			return verifkit.Violf("C16/lifetime-increased", "reading %d with a ticking clock: %v/%v/%v after %v/%v/%v", i, g.valid, g.pref, g.route, prev.valid, prev.pref, prev.route)
		}
		if g.cValid != V || g.cPref != P || g.cRoute != R {
			return verifkit.Violf("C16/non-deprecated-not-constant", "reading %d: non-deprecated stanzas advertise %v/%v/%v", i, g.cValid, g.cPref, g.cRoute)
		}
		prev = &g
	}
	return nil
}

func c16GenLife(t *rapid.T, name string, max int64) int64 {
	switch rapid.IntRange(0, 5).Draw(t, name+"-kind") {
	case 0:
		return rapid.Int64Range(1, min(max, int64(time.Second))).Draw(t, name) // sub-second
	case 1:
		return min(max, rapid.Int64Range(1, 100000).Draw(t, name)*int64(time.Second)) // whole seconds
	case 2:
		return min(max, rapid.Int64Range(int64(365*24*time.Hour), int64(ndp.Infinity)-1).Draw(t, name)) // multi-year
	default:
		return rapid.Int64Range(1, min(max, int64(60*24*time.Hour))).Draw(t, name)
	}
}

func c16Gen(t *rapid.T) c16Case {
	c := c16Case{
		EpochUnixNS: rapid.Int64Range(1, 4102444800).Draw(t, "epoch-s")*int64(time.Second) + rapid.Int64Range(0, 999999999).Draw(t, "epoch-ns"),
		Mono:        rapid.IntRange(0, 4).Draw(t, "mono") == 0,
		Wildcard:    rapid.Bool().Draw(t, "wildcard"),
	}
	if c.Wildcard && rapid.Bool().Draw(t, "fan") {
		c.Fanout = rapid.SampledFrom([]int{2, 3, 4, 5, 6, 8, 9, 12, 17, 20}).Draw(t, "fanout")
	}
	c.KernelDep = c.Wildcard && rapid.Bool().Draw(t, "kerneldep")
	if !c.Mono && rapid.IntRange(0, 2).Draw(t, "ticking") == 0 {
		c.TickNS = rapid.SampledFrom([]int64{1, 1000, int64(time.Millisecond), int64(time.Second)}).Draw(t, "tick")
	}
	maxLife := int64(ndp.Infinity) - 1
	if c.Mono {
		// the bubble's clock starts in 2000 and an int64 nanosecond timer
		// cannot be set beyond 2262: keep epoch + 2*lifetime below that
		maxLife = c16MonoMax
	}
	c.ValidNS = c16GenLife(t, "valid", maxLife)
	c.PrefNS = c16GenLife(t, "pref", c.ValidNS)
	if rapid.IntRange(0, 3).Draw(t, "pref=valid") == 0 {
		c.PrefNS = c.ValidNS
	}
	c.RouteNS = c16GenLife(t, "route", maxLife)
	n := rapid.IntRange(2, 30).Draw(t, "n")
	deadlines := []int64{c.ValidNS, c.PrefNS, c.RouteNS, 0}
	for i := 0; i < n; i++ {
		var o int64
		switch rapid.IntRange(0, 4).Draw(t, "okind") {
		case 0, 1:
			o = rapid.SampledFrom(deadlines).Draw(t, "deadline") + rapid.SampledFrom([]int64{-1, 0, 1, -int64(time.Second), int64(time.Second), -999999999, 500000000}).Draw(t, "delta")
		case 2:
			o = -rapid.Int64Range(0, int64(time.Hour)).Draw(t, "before")
		default:
			o = rapid.Int64Range(0, 2*max(c.ValidNS, c.RouteNS)+int64(time.Second)).Draw(t, "off")
		}
		c.Offsets = append(c.Offsets, o)
		if rapid.IntRange(0, 5).Draw(t, "repeat") == 0 {
			c.Offsets = append(c.Offsets, o)
		}
	}
	sort.Slice(c.Offsets, func(i, j int) bool { return c.Offsets[i] < c.Offsets[j] })
	return c
}

func TestVerif_C16(t *testing.T) {
	k := verifkit.Start(t, "C16")
	prop := c16Prop(k)
	k.Regress(t, func(sub string, raw json.RawMessage) error { return verifkit.Decode(raw, prop) })
	verifkit.Rapid(k, t, "clock-sequences", k.N(6000, 3000000), c16Gen, prop)
}

package plugin

// C17, one observed failure on its own.  Prepare assigns LLA.Addr while a debug API request or a scrape may be applying
// the plugin (the code has no synchronisation there).  The thorough tier once caught such a reader seeing a slice
// header with a nil pointer and the new length 6 (a torn read): the option was built around it and rendering it
// panicked inside the request.  The schedule that produces it cannot be forced, the value it produces can: Apply must
// not build an option around a hardware address whose data pointer is nil, whatever its length says.

import (
	"encoding/json"
	"fmt"
	"net"
	"reflect"
	"testing"
	"unsafe"

	"github.com/mdlayher/corerad/internal/verifkit"
	"github.com/mdlayher/ndp"
)

type tornCase struct {
	Len int `json:"len"`
}

func tornProp(k *verifkit.Kit) func(c tornCase) error {
	return func(c tornCase) (err error) {
		k.Record(c, c.Len == 6, fmt.Sprintf("len=%d", c.Len))
		var addr net.HardwareAddr
		h := (*reflect.SliceHeader)(unsafe.Pointer(&addr)) //nolint: the point is a header no safe code can build
		h.Len, h.Cap = c.Len, c.Len
		l := &LLA{Addr: addr}
		ra := &ndp.RouterAdvertisement{}
		defer func() {
			if r := recover(); r != nil {
				err = verifkit.Violf("C17/torn-hardware-address", "hardware address with a nil pointer and length %d: %v", c.Len, r)
			}
		}()
		if aerr := l.Apply(ra); aerr != nil {
			return nil // refusing is fine
		}
		for _, o := range ra.Options {
			if ll, ok := o.(*ndp.LinkLayerAddress); ok {
				_ = ll.Addr.String() // what the debug API does with it
			}
		}
		if _, merr := ndp.MarshalMessage(ra); merr != nil {
			return verifkit.Violf("C17/torn-hardware-address", "hardware address with a nil pointer and length %d yields an RA that does not encode: %v", c.Len, merr)
		}
		return nil
	}
}

func TestVerif_C17torn(t *testing.T) {
	k := verifkit.Start(t, "C17")
	prop := tornProp(k)
	k.Regress(t, func(sub string, raw json.RawMessage) error {
		if sub != "torn-hardware-address" {
			return nil
		}
		return verifkit.Decode(raw, prop)
	})
	verifkit.Enumerate(k, t, "torn-hardware-address", true, func(yield func(tornCase) bool) {
		for n := 0; n <= 32; n++ {
			if !yield(tornCase{n}) {
				return
			}
		}
	}, prop)
}

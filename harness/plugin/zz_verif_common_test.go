package plugin

// Shared helpers of the /verif harnesses in package plugin (C13-C16).

import (
	"errors"
	"fmt"
	"github.com/mdlayher/corerad/internal/verifkit"
	"net/netip"
	"slices"
	"sync"
	"time"

	"github.com/mdlayher/corerad/internal/system"
	"github.com/mdlayher/ndp"
	"pgregory.net/rapid"
)

var errVerifSource = errors.New("verif: injected source failure")

// vkStanza is the generated configuration of a prefix/route stanza.
type vkStanza struct {
	OnLink     bool  `json:"on_link"`
	Autonomous bool  `json:"autonomous"`
	ValidNS    int64 `json:"valid_ns"`
	PrefNS     int64 `json:"pref_ns"`
	Pref       int   `json:"preference"` // 0 medium 1 high 3 low (ndp encoding)
}

func vkGenStanza(t *rapid.T) vkStanza {
	v := rapid.Int64Range(1, int64(100*24*time.Hour)).Draw(t, "valid")
	p := rapid.Int64Range(1, v).Draw(t, "pref")
	if rapid.IntRange(0, 9).Draw(t, "inf") == 0 {
		v = int64(ndp.Infinity)
	}
	return vkStanza{
		OnLink:     rapid.Bool().Draw(t, "onlink"),
		Autonomous: rapid.Bool().Draw(t, "auto"),
		ValidNS:    v,
		PrefNS:     p,
		Pref:       rapid.SampledFrom([]int{0, 1, 3}).Draw(t, "preference"),
	}
}

func vkSentinel() ndp.Option { return ndp.NewMTU(1280) }

// vkCopyIPs guards against the code under test mutating the source's slice.
func vkCopyIPs(in []system.IP) []system.IP { return append([]system.IP(nil), in...) }

func vkPermute[T any](in []T, perm []int) []T {
	out := make([]T, 0, len(perm))
	for _, i := range perm {
		out = append(out, in[i%len(in)])
	}
	return out
}

// vkGenPerm draws a list of indices into a list of length n which mentions
// every index at least once (a permutation with optional duplicates).
func vkGenPerm(t *rapid.T, n int) []int {
	if n == 0 {
		return nil
	}
	perm := rapid.Permutation(vkIota(n)).Draw(t, "perm")
	extra := rapid.SliceOfN(rapid.IntRange(0, n-1), 0, 3).Draw(t, "dups")
	for _, e := range extra {
		pos := rapid.IntRange(0, len(perm)).Draw(t, "pos")
		perm = append(perm[:pos], append([]int{e}, perm[pos:]...)...)
	}
	return perm
}

func vkIota(n int) []int {
	out := make([]int, n)
	for i := range out {
		out[i] = i
	}
	return out
}

func vkOptsString(opts []ndp.Option) string {
	s := ""
	for _, o := range opts {
		s += fmt.Sprintf("%T%+v ", o, o)
	}
	return s
}

func vkMustPrefix(s string) netip.Prefix { return netip.MustParsePrefix(s) }

// vkReflag returns the same addresses in the same order with other kernel flags (duplicate address detection
// finishing, an address turning temporary or deprecated): the listing "has not changed" if one looks at the
// addresses only.
func vkReflag(list []system.IP, mode int) []system.IP {
	out := slices.Clone(list)
	for i := range out {
		switch mode {
		case 0:
			out[i].Tentative = !out[i].Tentative
		case 1:
			if i%2 == 0 {
				out[i].Temporary = !out[i].Temporary
			}
		case 2:
			out[i].Deprecated = true
		case 3:
			out[i].Tentative, out[i].Temporary, out[i].Deprecated = false, false, false
		default:
			out[i].StablePrivacy, out[i].ManageTemporaryAddresses = !out[i].StablePrivacy, false
		}
	}
	return out
}

// vkOverlapped runs one application that waits for its listing (gated: its first lookup blocks until released) while
// another application - of the same plugin object or of a second one of the same kind - runs to completion, and then a
// short burst of applications from four goroutines at once. The daemon does this all the time: the advertiser, the
// metrics collector and the HTTP handlers build RAs from the same plugin objects. Every application must yield what it
// yields alone. Real goroutines, real clock; judged by values only.
func vkOverlapped(sig string, gated func(gate func()) (string, error), other func() (string, error), wantGated, wantOther string, alone func() (string, error)) error {
	entered, release := make(chan struct{}), make(chan struct{})
	var once sync.Once
	gate := func() {
		first := false
		once.Do(func() { first = true })
		if first {
			close(entered)
			<-release
		}
	}
	var g1 string
	var e1 error
	done := make(chan struct{})
	go func() { defer close(done); g1, e1 = gated(gate) }()
	select {
	case <-entered:
	case <-done: // (the application did not look anything up: nothing to overlap with)
		close(release)
		return nil
	}
	g2, e2 := other()
	close(release)
	<-done
	if v, ok := e1.(*verifkit.Violation); ok {
		return v
	}
	if v, ok := e2.(*verifkit.Violation); ok {
		return v
	}
	if e1 != nil || e2 != nil {
		return verifkit.Violf(sig+"/overlap-error", "an application that overlaps another failed: %v / %v", e1, e2)
	}
	if g1 != wantGated {
		return verifkit.Violf(sig+"/overlapping-applications", "an application that waited for its listing while another ran to completion yields\n%s\nalone it yields\n%s\n(the other one: %s)", g1, wantGated, g2)
	}
	if g2 != wantOther {
		return verifkit.Violf(sig+"/overlapping-applications", "an application that ran while another was waiting for its listing yields\n%s\nalone it yields\n%s", g2, wantOther)
	}
	// ... and four goroutines at once, no gate: whatever the interleaving, the same value
	var wg sync.WaitGroup
	errs := make([]error, 4)
	for g := range errs {
		wg.Add(1)
		go func() {
			defer wg.Done()
			for i := 0; i < 25; i++ {
				got, err := alone()
				if err != nil {
					errs[g] = err
					return
				}
				if got != wantGated {
					errs[g] = verifkit.Violf(sig+"/concurrent-applications", "four goroutines apply one plugin at the same time; one application yields\n%s\nalone it yields\n%s", got, wantGated)
					return
				}
			}
		}()
	}
	wg.Wait()
	for _, err := range errs {
		if err != nil {
			return err
		}
	}
	return nil
}

package plugin

// C15: the ::/0 route wildcard expands to the maximal, non-overlapping
// loopback routes. Oracle: verifref.ExpandRoutes (maximal-element set
// specification) + independent post-conditions (no duplicates, no overlap)
// + permutation invariance.

import (
	"encoding/json"
	"fmt"
	"net/netip"
	"strings"
	"testing"
	"time"

	"github.com/mdlayher/corerad/internal/system"
	"github.com/mdlayher/corerad/internal/verifkit"
	"github.com/mdlayher/corerad/internal/verifref"
	"github.com/mdlayher/ndp"
	"pgregory.net/rapid"
)

type c15Case struct {
	Routes []system.Route `json:"routes"`
	Stanza vkStanza       `json:"stanza"`
	Perm   []int          `json:"perm"`
	SrcErr bool           `json:"src_err"`
}

func rt(s string) system.Route { return system.Route{Prefix: netip.MustParsePrefix(s), Index: 1} }

var c15Pool = []system.Route{
	rt("2001:db8::/48"),
	rt("2001:db8::/64"),     // nested, same base address
	rt("2001:db8:0:1::/64"), // nested, other base address
	rt("2001:db8::/128"),    // host route at the base of both
	rt("2001:db8:0:1::1/128"),
	rt("2001:db8:1::/48"), // sibling, not nested
	rt("fd00::/8"),
	rt("fd00:1::/32"),
	rt("fd00:1:2::/48"),
	rt("::/0"),
	rt("10.0.0.0/8"),
	rt("2001:db8::/32"),
	rt("2a00::/16"),
}

func c15Plugin(c c15Case, cur *[]system.Route) *Route {
	return &Route{
		Auto:       true,
		Prefix:     netip.MustParsePrefix("::/0"),
		Preference: ndp.Preference(c.Stanza.Pref),
		Lifetime:   time.Duration(c.Stanza.ValidNS),
		TimeNow:    func() time.Time { return time.Unix(1700000000, 0) },
		Epoch:      time.Unix(1600000000, 0), // as the parser builds it
		Routes: func() ([]system.Route, error) {
			if c.SrcErr {
				return nil, errVerifSource
			}
			return append([]system.Route(nil), (*cur)...), nil
		},
	}
}

func c15Apply(c c15Case, routes []system.Route) ([]ndp.Option, error) {
	cur := routes
	return c15ApplyOn(c15Plugin(c, &cur))
}

func c15ApplyOn(r *Route) ([]ndp.Option, error) {
	before := fmt.Sprintf("%v %v %v %v %v %v", r.Auto, r.Prefix, r.Preference, r.Lifetime, r.Epoch, r.Deprecated)
	ra := &ndp.RouterAdvertisement{Options: []ndp.Option{vkSentinel()}}
	err := r.Apply(ra)
	if len(ra.Options) == 0 || fmt.Sprint(ra.Options[0]) != fmt.Sprint(vkSentinel()) {
		return nil, verifkit.Violf("C15/existing-option-lost", "Apply removed or changed an existing option: %s", vkOptsString(ra.Options))
	}
	if after := fmt.Sprintf("%v %v %v %v %v %v", r.Auto, r.Prefix, r.Preference, r.Lifetime, r.Epoch, r.Deprecated); after != before {
		return nil, verifkit.Violf("C15/plugin-mutated", "Apply changed the plugin: %s -> %s", before, after)
	}
	return ra.Options[1:], err
}

func c15Prop(k *verifkit.Kit) func(c c15Case) error {
	return func(c c15Case) error {
		nested, dup := false, false
		for i, a := range c.Routes {
			for j, b := range c.Routes {
				if i == j || !a.Prefix.Addr().Is6() || !b.Prefix.Addr().Is6() {
					continue
				}
				if a.Prefix == b.Prefix {
					dup = true
				} else if a.Prefix.Bits() < b.Prefix.Bits() && a.Prefix.Contains(b.Prefix.Addr()) {
					nested = true
				}
			}
		}
		cls := []string{fmt.Sprintf("len=%d", min(len(c.Routes), 6))}
		if nested {
			cls = append(cls, "nested")
		}
		if dup {
			cls = append(cls, "duplicate")
		}
		k.Record(c, nested || dup, cls...)

		got, err := c15Apply(c, c.Routes)
		if v, ok := err.(*verifkit.Violation); ok {
			return v
		}
		if c.SrcErr {
			if err == nil {
				return verifkit.Violf("C15/source-error-swallowed", "route source failed but Apply returned nil with %s", vkOptsString(got))
			}
			if len(got) != 0 {
				return verifkit.Violf("C15/options-on-error", "Apply failed but appended %s", vkOptsString(got))
			}
			return nil
		}
		if err != nil {
			return verifkit.Violf("C15/unexpected-error", "Apply failed: %v", err)
		}
		// independent post-conditions first (they name the root cause better)
		var gp []netip.Prefix
		for i, o := range got {
			ri, ok := o.(*ndp.RouteInformation)
			if !ok {
				return verifkit.Violf("C15/wrong-option-kind", "option %d is %T", i, o)
			}
			gp = append(gp, netip.PrefixFrom(ri.Prefix, int(ri.PrefixLength)))
			if ri.Preference != ndp.Preference(c.Stanza.Pref) || ri.RouteLifetime != time.Duration(c.Stanza.ValidNS) {
				return verifkit.Violf("C15/wrong-stanza-values", "option %d: want preference %v lifetime %v, got %+v", i, ndp.Preference(c.Stanza.Pref), time.Duration(c.Stanza.ValidNS), *ri)
			}
		}
		for i := range gp {
			for j := i + 1; j < len(gp); j++ {
				if gp[i] == gp[j] {
					return verifkit.Violf("C15/duplicate-route", "route %v advertised twice: %v", gp[i], gp)
				}
				if gp[i].Overlaps(gp[j]) {
					return verifkit.Violf("C15/overlapping-routes", "routes %v and %v overlap: %v", gp[i], gp[j], gp)
				}
			}
		}
		want := verifref.ExpandRoutes(c.Routes)
		if fmt.Sprint(gp) != fmt.Sprint(want) {
			sig := "C15/wrong-set"
			if len(gp) < len(want) {
				sig = "C15/maximal-route-dropped"
			}
			return verifkit.Violf(sig, "dump %v: want routes %v, got %v", c.Routes, want, gp)
		}
		// history on ONE plugin object: the route dump changes between RAs
		if len(c.Routes) > 1 {
			cur := c.Routes
			pl := c15Plugin(c, &cur)
			for step, dump := range [][]system.Route{c.Routes, c.Routes[1:], c.Routes[:len(c.Routes)/2], c.Routes} {
				cur = dump
				g, err := c15ApplyOn(pl)
				if err != nil {
					return verifkit.Violf("C15/unexpected-error", "Apply %d on the same plugin failed: %v", step, err)
				}
				var gp2 []netip.Prefix
				for _, o := range g {
					if ri, ok := o.(*ndp.RouteInformation); ok {
						gp2 = append(gp2, netip.PrefixFrom(ri.Prefix, int(ri.PrefixLength)))
					}
				}
				if w := verifref.ExpandRoutes(dump); fmt.Sprint(gp2) != fmt.Sprint(w) {
					return verifkit.Violf("C15/stale-or-accumulated-state", "Apply %d on the same plugin with dump %v: want %v got %v", step, dump, w, gp2)
				}
			}
		}
		if len(c.Perm) > 0 && len(c.Routes) > 0 {
			got2, err := c15Apply(c, vkPermute(c.Routes, c.Perm))
			if err != nil {
				return verifkit.Violf("C15/unexpected-error", "Apply on permuted dump failed: %v", err)
			}
			if vkOptsString(got2) != vkOptsString(got) {
				return verifkit.Violf("C15/order-dependent", "permuted dump %v gives %s, original gives %s", c.Perm, vkOptsString(got2), vkOptsString(got))
			}
		}
		return nil
	}
}

func c15GenRoute(t *rapid.T) system.Route {
	if rapid.IntRange(0, 14).Draw(t, "v4") == 0 {
		return rt(rapid.SampledFrom([]string{"10.0.0.0/8", "192.0.2.0/24", "0.0.0.0/0"}).Draw(t, "v4p"))
	}
	// a small tree so that nesting and equal bases are frequent
	base := rapid.SampledFrom([]string{"2001:db8::", "2001:db8:1::", "2001:db8:0:1::", "fd00::", "fd00:1::", "2a00:1:2:3::", "::"}).Draw(t, "base")
	bits := rapid.SampledFrom([]int{0, 8, 16, 32, 48, 56, 64, 96, 127, 128}).Draw(t, "bits")
	if rapid.IntRange(0, 2).Draw(t, "anybits") == 0 {
		bits = rapid.IntRange(0, 128).Draw(t, "bitsv")
	}
	p := netip.PrefixFrom(netip.MustParseAddr(base), bits)
	if rapid.IntRange(0, 3).Draw(t, "masked") != 0 {
		p = p.Masked()
	} else if p != p.Masked() {
		// the kernel only has canonical destinations in its table
		p = p.Masked()
	}
	return system.Route{Prefix: p, Index: rapid.IntRange(1, 3).Draw(t, "idx"), Preference: ndp.Preference(rapid.SampledFrom([]int{0, 1, 3}).Draw(t, "rpref"))}
}

func c15Gen(t *rapid.T) c15Case {
	routes := rapid.SliceOfN(rapid.Custom(c15GenRoute), 0, 24).Draw(t, "routes")
	return c15Case{
		Routes: routes,
		Stanza: vkGenStanza(t),
		Perm:   vkGenPerm(t, len(routes)),
		SrcErr: rapid.IntRange(0, 29).Draw(t, "srcerr") == 0,
	}
}

func c15Seqs(maxLen int) func(yield func(c15Case) bool) {
	return func(yield func(c15Case) bool) {
		st := vkStanza{ValidNS: int64(2 * time.Hour), Pref: 1}
		var rec func(cur []int) bool
		rec = func(cur []int) bool {
			routes := make([]system.Route, len(cur))
			perm := make([]int, len(cur))
			for i, x := range cur {
				routes[i] = c15Pool[x]
				perm[i] = len(cur) - 1 - i
			}
			if !yield(c15Case{Routes: routes, Stanza: st, Perm: perm}) {
				return false
			}
			if len(cur) == maxLen {
				return true
			}
			for x := range c15Pool {
				if !rec(append(cur, x)) {
					return false
				}
			}
			return true
		}
		rec(nil)
		yield(c15Case{Routes: c15Pool[:3], Stanza: st, SrcErr: true})
	}
}

// c15OverlapProp: see vkOverlapped.
func c15OverlapProp(k *verifkit.Kit) func(c c15Case) error {
	return func(c c15Case) error {
		if c.SrcErr || len(c.Routes) == 0 {
			k.Record(c, false, "overlap:nothing-to-list")
			return nil
		}
		k.Record(c, true, "overlap")
		render := func(g []ndp.Option, err error) (string, error) {
			var gp []netip.Prefix
			for _, o := range g {
				if ri, ok := o.(*ndp.RouteInformation); ok {
					gp = append(gp, netip.PrefixFrom(ri.Prefix, int(ri.PrefixLength)))
				}
			}
			return fmt.Sprint(gp), err
		}
		ref := func(list []system.Route) string { return fmt.Sprint(verifref.ExpandRoutes(list)) }
		cur := c.Routes
		pl := c15Plugin(c, &cur)
		otherList := vkPermute(c.Routes, c.Perm)
		if len(otherList) > 1 {
			otherList = otherList[1:]
		}
		cur2 := otherList
		other := c15Plugin(c, &cur2)
		if len(c.Routes)%2 == 0 {
			other, otherList = pl, c.Routes
		}
		orig := pl.Routes
		return vkOverlapped("C15",
			func(gate func()) (string, error) {
				gp := *pl
				gp.Routes = func() ([]system.Route, error) { gate(); return orig() }
				if other == pl {
					pl.Routes = gp.Routes
					return render(c15ApplyOn(pl))
				}
				return render(c15ApplyOn(&gp))
			},
			func() (string, error) { return render(c15ApplyOn(other)) },
			ref(c.Routes), ref(otherList),
			func() (string, error) { return render(c15ApplyOn(pl)) })
	}
}

func TestVerif_C15(t *testing.T) {
	k := verifkit.Start(t, "C15")
	prop := c15Prop(k)
	k.Regress(t, func(sub string, raw json.RawMessage) error {
		if strings.HasPrefix(sub, "os") {
			return nil // belongs to the OS part
		}
		if strings.HasPrefix(sub, "overlapping") {
			return verifkit.Decode(raw, c15OverlapProp(k))
		}
		return verifkit.Decode(raw, prop)
	})
	maxLen := 3
	if k.Thorough() {
		maxLen = 4
	}
	verifkit.Enumerate(k, t, fmt.Sprintf("pool-sequences<=%d", maxLen), true, c15Seqs(maxLen), prop)
	verifkit.Rapid(k, t, "random-dumps", k.N(4000, 1000000), c15Gen, prop)
	verifkit.Rapid(k, t, "overlapping-applications", k.N(400, 40000), c15Gen, c15OverlapProp(k))
}

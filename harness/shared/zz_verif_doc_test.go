package VERIFPKG

// Shared machinery of the /verif harnesses that need configurations (C01,
// C02, C03 in package config; C04, C07, C17 in corerad / crhttp): a TOML
// document model with generators, a renderer, and the three-valued reference
// validator written from the C02 statement and reference.toml. The driver
// copies this file into the package under test and rewrites the package
// clause; it refers to no identifier of package config.

import (
	"fmt"
	"net"
	"net/netip"
	"sort"
	"strings"
	"time"

	"github.com/mdlayher/corerad/internal/system"
	"github.com/mdlayher/corerad/internal/verifref"
	"github.com/mdlayher/ndp"
	"pgregory.net/rapid"
)

// ---------------------------------------------------------------------------
// document model

// A dDur is a duration-valued key: how it is spelled and (for Kind "value")
// the exact value the spelling denotes. The reference never parses Text.
type dDur struct {
	Kind string `json:"kind"` // omit | auto | infinite | empty | value | malformed
	Text string `json:"text,omitempty"`
	NS   int64  `json:"ns,omitempty"`
}

// A dCIDR is a prefix-valued key with its structured meaning.
type dCIDR struct {
	Kind string `json:"kind"` // omit | empty | value | malformed
	Text string `json:"text,omitempty"`
	Addr string `json:"addr,omitempty"` // canonical textual address the text denotes
	Bits int    `json:"bits,omitempty"`
	V4   bool   `json:"v4,omitempty"`   // IPv4 or IPv4-mapped
	Host bool   `json:"host,omitempty"` // host bits set (not a canonical CIDR)
}

type dPrefix struct {
	Prefix     dCIDR `json:"prefix"`
	OnLink     *bool `json:"on_link,omitempty"`
	Autonomous *bool `json:"autonomous,omitempty"`
	Valid      dDur  `json:"valid"`
	Preferred  dDur  `json:"preferred"`
	Deprecated *bool `json:"deprecated,omitempty"`
	Unknown    bool  `json:"unknown_key,omitempty"`
}

type dRoute struct {
	Prefix     dCIDR   `json:"prefix"`
	Preference *string `json:"preference,omitempty"`
	Lifetime   dDur    `json:"lifetime"`
	Deprecated *bool   `json:"deprecated,omitempty"`
	Unknown    bool    `json:"unknown_key,omitempty"`
}

// A dAddr is one server string with its meaning.
type dAddr struct {
	Text string `json:"text"`
	Kind string `json:"kind"` // v6 | wildcard | v4 | mapped | malformed
	Addr string `json:"addr,omitempty"`
}

type dRDNSS struct {
	Lifetime dDur    `json:"lifetime"`
	Servers  []dAddr `json:"servers"` // nil = key omitted
	Unknown  bool    `json:"unknown_key,omitempty"`
}

type dDNSSL struct {
	Lifetime dDur     `json:"lifetime"`
	Domains  []string `json:"domains"`
	HasKey   bool     `json:"has_key"`
	Unknown  bool     `json:"unknown_key,omitempty"`
}

type dPREF64 struct {
	Prefix dCIDR `json:"prefix"`
}

type dIface struct {
	Name            *string   `json:"name,omitempty"`
	Names           []string  `json:"names,omitempty"`
	HasNames        bool      `json:"has_names,omitempty"`
	Monitor         *bool     `json:"monitor,omitempty"`
	Advertise       *bool     `json:"advertise,omitempty"`
	Verbose         *bool     `json:"verbose,omitempty"`
	MaxInterval     dDur      `json:"max_interval"`
	MinInterval     dDur      `json:"min_interval"`
	Managed         *bool     `json:"managed,omitempty"`
	OtherConfig     *bool     `json:"other_config,omitempty"`
	ReachableTime   dDur      `json:"reachable_time"`
	RetransmitTimer dDur      `json:"retransmit_timer"`
	HopLimit        *int64    `json:"hop_limit,omitempty"`
	DefaultLifetime dDur      `json:"default_lifetime"`
	UnicastOnly     *bool     `json:"unicast_only,omitempty"`
	Preference      *string   `json:"preference,omitempty"`
	MTU             *int64    `json:"mtu,omitempty"`
	SourceLLA       *bool     `json:"source_lla,omitempty"`
	CaptivePortal   *string   `json:"captive_portal,omitempty"`
	Prefixes        []dPrefix `json:"prefixes,omitempty"`
	Routes          []dRoute  `json:"routes,omitempty"`
	RDNSS           []dRDNSS  `json:"rdnss,omitempty"`
	DNSSL           []dDNSSL  `json:"dnssl,omitempty"`
	PREF64          []dPREF64 `json:"pref64,omitempty"`
	Unknown         bool      `json:"unknown_key,omitempty"`
	Order           []int     `json:"order,omitempty"` // interleaving of the stanza kinds when rendering
}

type dDebug struct {
	Address    *string `json:"address,omitempty"`
	AddrValid  bool    `json:"addr_valid,omitempty"`
	Prometheus *bool   `json:"prometheus,omitempty"`
	PProf      *bool   `json:"pprof,omitempty"`
	Unknown    bool    `json:"unknown_key,omitempty"`
}

type dDoc struct {
	Interfaces []dIface `json:"interfaces"`
	Debug      *dDebug  `json:"debug,omitempty"`
	DebugFirst bool     `json:"debug_first,omitempty"`
	UnknownTop bool     `json:"unknown_top,omitempty"`
}

// ---------------------------------------------------------------------------
// rendering

func tq(s string) string {
	var b strings.Builder
	b.WriteByte('"')
	for _, r := range s {
		switch {
		case r == '"' || r == '\\':
			b.WriteByte('\\')
			b.WriteRune(r)
		case r < 0x20 || r == 0x7f:
			fmt.Fprintf(&b, "\\u%04x", r)
		default:
			b.WriteRune(r)
		}
	}
	b.WriteByte('"')
	return b.String()
}

func tqList(ss []string) string {
	q := make([]string, len(ss))
	for i, s := range ss {
		q[i] = tq(s)
	}
	return "[" + strings.Join(q, ", ") + "]"
}

type tw struct {
	b      strings.Builder
	indent string
}

func (w *tw) kv(k, v string) { fmt.Fprintf(&w.b, "%s%s = %s\n", w.indent, k, v) }
func (w *tw) str(k string, s *string) {
	if s != nil {
		w.kv(k, tq(*s))
	}
}
func (w *tw) boolean(k string, v *bool) {
	if v != nil {
		w.kv(k, fmt.Sprint(*v))
	}
}

// integer writes a TOML integer; which of TOML's spellings is used follows from the value, so that a case renders the same
// way every time: decimal, hexadecimal, octal, binary, with digit separators, with a plus sign.
func (w *tw) integer(k string, v *int64) {
	if v == nil {
		return
	}
	n := *v
	text := fmt.Sprint(n)
	if n >= 0 && n < 1<<40 {
		switch n % 7 {
		case 1:
			text = fmt.Sprintf("0x%X", n)
		case 2:
			text = fmt.Sprintf("0o%o", n)
		case 3:
			text = fmt.Sprintf("0b%b", n)
		case 4:
			text = "+" + text
		case 5:
			if n >= 1000 {
				text = fmt.Sprintf("%d_%03d", n/1000, n%1000)
			}
		}
	}
	w.kv(k, text)
}
func (w *tw) dur(k string, d dDur) {
	switch d.Kind {
	case "omit", "":
	case "auto":
		w.kv(k, `"auto"`)
	case "infinite":
		w.kv(k, `"infinite"`)
	case "empty":
		w.kv(k, `""`)
	default:
		if len(d.Text)%3 == 0 && !strings.ContainsAny(d.Text, "'\n") {
			w.kv(k, "'"+d.Text+"'") // a TOML literal string
		} else {
			w.kv(k, tq(d.Text))
		}
	}
}
func (w *tw) cidr(k string, c dCIDR) {
	switch c.Kind {
	case "omit", "":
	case "empty":
		w.kv(k, `""`)
	default:
		w.kv(k, tq(c.Text))
	}
}

func (d dDoc) render() string {
	w := &tw{}
	debug := func() {
		if d.Debug == nil {
			return
		}
		w.indent = ""
		w.b.WriteString("[debug]\n")
		w.str("address", d.Debug.Address)
		w.boolean("prometheus", d.Debug.Prometheus)
		w.boolean("pprof", d.Debug.PProf)
		if d.Debug.Unknown {
			w.kv("verif_unknown", "1")
		}
	}
	if d.UnknownTop {
		w.kv("verif_unknown_top", `"x"`)
	}
	if d.DebugFirst {
		debug()
	}
	for _, ifi := range d.Interfaces {
		w.indent = ""
		w.b.WriteString("[[interfaces]]\n")
		w.str("name", ifi.Name)
		if ifi.HasNames {
			w.kv("names", tqList(ifi.Names))
		}
		w.boolean("monitor", ifi.Monitor)
		w.boolean("advertise", ifi.Advertise)
		w.boolean("verbose", ifi.Verbose)
		w.dur("max_interval", ifi.MaxInterval)
		w.dur("min_interval", ifi.MinInterval)
		w.boolean("managed", ifi.Managed)
		w.boolean("other_config", ifi.OtherConfig)
		w.dur("reachable_time", ifi.ReachableTime)
		w.dur("retransmit_timer", ifi.RetransmitTimer)
		w.integer("hop_limit", ifi.HopLimit)
		w.dur("default_lifetime", ifi.DefaultLifetime)
		w.boolean("unicast_only", ifi.UnicastOnly)
		w.str("preference", ifi.Preference)
		w.integer("mtu", ifi.MTU)
		w.boolean("source_lla", ifi.SourceLLA)
		w.str("captive_portal", ifi.CaptivePortal)
		if ifi.Unknown {
			w.kv("verif_unknown", "true")
		}
		w.indent = "  "
		idx := [5]int{}
		order := ifi.Order
		if len(order) == 0 {
			for k, n := range []int{len(ifi.Prefixes), len(ifi.Routes), len(ifi.RDNSS), len(ifi.DNSSL), len(ifi.PREF64)} {
				for i := 0; i < n; i++ {
					order = append(order, k)
				}
			}
		}
		for _, kind := range order {
			i := idx[kind]
			idx[kind]++
			switch kind {
			case 0:
				if i >= len(ifi.Prefixes) {
					continue
				}
				p := ifi.Prefixes[i]
				w.b.WriteString("  [[interfaces.prefix]]\n")
				w.cidr("prefix", p.Prefix)
				w.boolean("on_link", p.OnLink)
				w.boolean("autonomous", p.Autonomous)
				w.dur("valid_lifetime", p.Valid)
				w.dur("preferred_lifetime", p.Preferred)
				w.boolean("deprecated", p.Deprecated)
				if p.Unknown {
					w.kv("verif_unknown", "1")
				}
			case 1:
				if i >= len(ifi.Routes) {
					continue
				}
				r := ifi.Routes[i]
				w.b.WriteString("  [[interfaces.route]]\n")
				w.cidr("prefix", r.Prefix)
				w.str("preference", r.Preference)
				w.dur("lifetime", r.Lifetime)
				w.boolean("deprecated", r.Deprecated)
				if r.Unknown {
					w.kv("verif_unknown", "1")
				}
			case 2:
				if i >= len(ifi.RDNSS) {
					continue
				}
				r := ifi.RDNSS[i]
				w.b.WriteString("  [[interfaces.rdnss]]\n")
				w.dur("lifetime", r.Lifetime)
				if r.Servers != nil {
					ss := make([]string, len(r.Servers))
					for j, s := range r.Servers {
						ss[j] = s.Text
					}
					w.kv("servers", tqList(ss))
				}
				if r.Unknown {
					w.kv("verif_unknown", "1")
				}
			case 3:
				if i >= len(ifi.DNSSL) {
					continue
				}
				r := ifi.DNSSL[i]
				w.b.WriteString("  [[interfaces.dnssl]]\n")
				w.dur("lifetime", r.Lifetime)
				if r.HasKey {
					w.kv("domain_names", tqList(r.Domains))
				}
				if r.Unknown {
					w.kv("verif_unknown", "1")
				}
			case 4:
				if i >= len(ifi.PREF64) {
					continue
				}
				w.b.WriteString("  [[interfaces.pref64]]\n")
				w.cidr("prefix", ifi.PREF64[i].Prefix)
			}
		}
	}
	if !d.DebugFirst {
		debug()
	}
	return w.b.String()
}

// ---------------------------------------------------------------------------
// reference structures (what an accepted document must parse to)

type rPlugin struct {
	Kind       string
	Auto       bool
	Prefix     string
	OnLink     bool
	Autonomous bool
	Valid      time.Duration
	Preferred  time.Duration
	Lifetime   time.Duration
	Deprecated bool
	Epoch      time.Time
	Preference string
	Servers    []string
	Domains    []string
	MTU        int
	URI        string
}

type rIface struct {
	Name                        string
	Monitor, Advertise, Verbose bool
	Min, Max                    time.Duration
	Managed, Other              bool
	Reachable, Retrans          time.Duration
	HopLimit                    int
	DefaultLifetime             time.Duration
	UnicastOnly                 bool
	Preference                  string
	Plugins                     []rPlugin
}

type rDebug struct {
	Address    string
	Prometheus bool
	PProf      bool
}

type rConfig struct {
	Interfaces []rIface
	Debug      rDebug
	DebugSpec  bool // whether Debug's flags are specified (address set)
}

type verdict int

const (
	vAccept verdict = iota
	vReject
	vUnspecified
)

func (v verdict) String() string { return [...]string{"accept", "reject", "unspecified"}[v] }

type refResult struct {
	V       verdict
	Reasons []string // why rejected
	Unspec  []string // aspects not judged
	Cfg     rConfig
}

func (r *refResult) reject(format string, a ...any) {
	r.Reasons = append(r.Reasons, fmt.Sprintf(format, a...))
}
func (r *refResult) unspec(what string) { r.Unspec = append(r.Unspec, what) }

const infNS = int64(ndp.Infinity)

// durVal resolves a duration key. special lists the documented special
// spellings for this key; ok=false means the key cannot be given a value
// (reason recorded); undecided=true means the statement does not say.
func (r *refResult) durVal(key string, d dDur, def time.Duration, special string) (v time.Duration, ok bool) {
	has := func(s string) bool { return strings.Contains(special, s) }
	switch d.Kind {
	case "omit", "":
		return def, true
	case "auto":
		if has("?auto") {
			r.unspec(key + "=auto")
			return def, true
		}
		if has("auto") {
			return def, true
		}
		r.reject("%s: \"auto\" is not a duration", key)
		return 0, false
	case "infinite":
		if has("infinite") {
			return ndp.Infinity, true
		}
		r.reject("%s: \"infinite\" is not a duration", key)
		return 0, false
	case "empty":
		if has("empty=0") {
			return 0, true
		}
		if has("empty=def") {
			return def, true
		}
		r.unspec(key + "=\"\"")
		return def, true
	case "malformed":
		r.reject("%s: malformed duration %q", key, d.Text)
		return 0, false
	default:
		return time.Duration(d.NS), true
	}
}

func prefStr(p *string) (string, bool) {
	if p == nil {
		return "medium", true
	}
	switch *p {
	case "", "medium":
		return "medium", true
	case "low", "high":
		return *p, true
	}
	return "", false
}

func bval(b *bool, def bool) bool {
	if b == nil {
		return def
	}
	return *b
}

func (r *refResult) cidr(key string, c dCIDR, wildcard string, wildBits int, allow128 bool) (p netip.Prefix, auto, ok bool) {
	switch c.Kind {
	case "omit", "", "empty":
		return netip.MustParsePrefix(wildcard), true, true
	case "malformed":
		r.reject("%s: malformed prefix %q", key, c.Text)
		return p, false, false
	}
	if c.V4 {
		r.reject("%s: %q is not IPv6", key, c.Text)
		return p, false, false
	}
	if c.Host {
		r.reject("%s: %q has host bits set", key, c.Text)
		return p, false, false
	}
	a := netip.MustParseAddr(c.Addr)
	p = netip.PrefixFrom(a, c.Bits)
	if c.Bits == 128 && !allow128 {
		r.reject("%s: /128 is not a prefix", key)
		return p, false, false
	}
	if a.IsUnspecified() {
		if c.Bits != wildBits {
			r.reject("%s: only %s is permitted as wildcard, got %q", key, wildcard, c.Text)
			return p, false, false
		}
		return p, true, true
	}
	return p, false, true
}

// lifetime applies "positive (or infinite)" / "not negative" rules. values
// above 2^32-1 s are beyond the wire field and not addressed by the C02
// statement: undecided.
func (r *refResult) lifetimeRange(key string, v time.Duration, zeroOK bool) {
	switch {
	case v < 0:
		r.reject("%s: negative lifetime %v", key, v)
	case v == 0 && !zeroOK:
		r.reject("%s: lifetime must be non-zero", key)
	case int64(v) > infNS:
		r.unspec(key + " above 2^32-1 seconds")
	}
}

func ifacePlugins(r *refResult, where string, ifi dIface, max time.Duration, epoch time.Time) []rPlugin {
	var out []rPlugin
	var pfx []netip.Prefix
	for i, p := range ifi.Prefixes {
		key := fmt.Sprintf("%s.prefix[%d]", where, i)
		if p.Unknown {
			r.reject("%s: unknown key", key)
		}
		pp, auto, ok := r.cidr(key+".prefix", p.Prefix, "::/64", 64, false)
		valid, ok1 := r.durVal(key+".valid_lifetime", p.Valid, 24*time.Hour, "auto infinite empty=0")
		pref, ok2 := r.durVal(key+".preferred_lifetime", p.Preferred, 4*time.Hour, "auto infinite empty=0")
		if ok1 {
			r.lifetimeRange(key+".valid_lifetime", valid, false)
		}
		if ok2 {
			r.lifetimeRange(key+".preferred_lifetime", pref, false)
		}
		if ok1 && ok2 && pref > valid {
			r.reject("%s: preferred %v exceeds valid %v", key, pref, valid)
		}
		dep := bval(p.Deprecated, false)
		if dep && ok1 && ok2 && (int64(valid) == infNS || int64(pref) == infNS) {
			r.reject("%s: deprecated with infinite lifetime", key)
		}
		if ok {
			pfx = append(pfx, pp)
		}
		out = append(out, rPlugin{Kind: "prefix", Auto: auto, Prefix: pp.String(), OnLink: bval(p.OnLink, true),
			Autonomous: bval(p.Autonomous, true), Valid: valid, Preferred: pref, Deprecated: dep, Epoch: epoch})
	}
	for i := range pfx {
		for j := i + 1; j < len(pfx); j++ {
			if pfx[i].Overlaps(pfx[j]) {
				r.reject("%s: prefixes %v and %v overlap", where, pfx[i], pfx[j])
			}
		}
	}
	var rts []netip.Prefix
	wild := 0
	for i, p := range ifi.Routes {
		key := fmt.Sprintf("%s.route[%d]", where, i)
		if p.Unknown {
			r.reject("%s: unknown key", key)
		}
		pp, auto, ok := r.cidr(key+".prefix", p.Prefix, "::/0", 0, true)
		pref, okp := prefStr(p.Preference)
		if !okp {
			r.reject("%s: bad preference %q", key, *p.Preference)
		}
		lt, ok1 := r.durVal(key+".lifetime", p.Lifetime, 24*time.Hour, "auto infinite empty=0")
		if ok1 {
			r.lifetimeRange(key+".lifetime", lt, false)
		}
		dep := bval(p.Deprecated, false)
		if dep && ok1 && int64(lt) == infNS {
			r.reject("%s: deprecated with infinite lifetime", key)
		}
		if ok && !auto {
			rts = append(rts, pp)
		}
		if ok && auto {
			wild++
		}
		out = append(out, rPlugin{Kind: "route", Auto: auto, Prefix: pp.String(), Preference: pref, Lifetime: lt, Deprecated: dep, Epoch: epoch})
	}
	if wild > 1 {
		r.unspec("several ::/0 route wildcards")
	}
	for i := range rts {
		for j := i + 1; j < len(rts); j++ {
			if rts[i].Overlaps(rts[j]) {
				r.reject("%s: routes %v and %v overlap", where, rts[i], rts[j])
			}
		}
	}
	for i, p := range ifi.RDNSS {
		key := fmt.Sprintf("%s.rdnss[%d]", where, i)
		if p.Unknown {
			r.reject("%s: unknown key", key)
		}
		lt, ok1 := r.durVal(key+".lifetime", p.Lifetime, 3*max, "auto infinite empty=0")
		if ok1 {
			r.lifetimeRange(key+".lifetime", lt, true)
		}
		pl := rPlugin{Kind: "rdnss", Lifetime: lt}
		if len(p.Servers) == 0 {
			pl.Auto = true
		}
		seen := map[string]bool{}
		wilds := 0
		var addrs []netip.Addr
		for _, s := range p.Servers {
			switch s.Kind {
			case "malformed":
				r.reject("%s: bad server %q", key, s.Text)
			case "v4", "mapped":
				r.reject("%s: server %q is not IPv6", key, s.Text)
			case "zoned":
				r.unspec("RDNSS server address with a zone")
			case "wildcard":
				wilds++
				pl.Auto = true
			default:
				if seen[s.Addr] {
					r.reject("%s: server %s repeated", key, s.Addr)
				}
				seen[s.Addr] = true
				addrs = append(addrs, netip.MustParseAddr(s.Addr))
			}
		}
		if wilds > 1 {
			r.reject("%s: :: repeated", key)
		}
		sort.Slice(addrs, func(i, j int) bool { return addrs[i].Less(addrs[j]) })
		for _, a := range addrs {
			pl.Servers = append(pl.Servers, a.String())
		}
		out = append(out, pl)
	}
	for i, p := range ifi.DNSSL {
		key := fmt.Sprintf("%s.dnssl[%d]", where, i)
		if p.Unknown {
			r.reject("%s: unknown key", key)
		}
		lt, ok1 := r.durVal(key+".lifetime", p.Lifetime, 3*max, "auto infinite empty=0")
		if ok1 {
			r.lifetimeRange(key+".lifetime", lt, true)
		}
		if len(p.Domains) == 0 {
			r.reject("%s: no domain names", key)
		}
		seen := map[string]bool{}
		for _, d := range p.Domains {
			if d == "" {
				r.reject("%s: empty domain name", key)
			} else if strings.HasPrefix(d, ".") || strings.HasSuffix(d, ".") || strings.Contains(d, "..") {
				// (an empty label, e.g. the absolute form "example.com.": whether the parser may accept it is not stated;
				// what an accepted one does to the option is C03's business - finding F24)
				r.unspec("domain name with an empty label")
			}
			if seen[d] {
				r.reject("%s: domain %q repeated", key, d)
			}
			seen[d] = true
		}
		out = append(out, rPlugin{Kind: "dnssl", Lifetime: lt, Domains: append([]string(nil), p.Domains...)})
	}
	if ifi.MTU != nil {
		if *ifi.MTU < 0 || *ifi.MTU > 65536 {
			r.reject("%s: mtu %d out of range", where, *ifi.MTU)
		} else if *ifi.MTU != 0 {
			out = append(out, rPlugin{Kind: "mtu", MTU: int(*ifi.MTU)})
		}
	}
	if bval(ifi.SourceLLA, true) {
		out = append(out, rPlugin{Kind: "lla"})
	}
	if ifi.CaptivePortal != nil && *ifi.CaptivePortal != "" {
		if len(*ifi.CaptivePortal) > 200 {
			r.unspec("captive portal URI longer than 200 bytes")
		}
		out = append(out, rPlugin{Kind: "captive-portal", URI: *ifi.CaptivePortal})
	}
	for i, p := range ifi.PREF64 {
		key := fmt.Sprintf("%s.pref64[%d]", where, i)
		pl := rPlugin{Kind: "pref64", Lifetime: verifref.PREF64Lifetime(max)}
		switch p.Prefix.Kind {
		case "omit", "", "empty":
			pl.Prefix = "64:ff9b::/96"
		case "malformed":
			r.reject("%s: malformed prefix %q", key, p.Prefix.Text)
		default:
			switch {
			case p.Prefix.V4:
				r.reject("%s: %q is not an IPv6 prefix", key, p.Prefix.Text)
			case !map[int]bool{96: true, 64: true, 56: true, 48: true, 40: true, 32: true}[p.Prefix.Bits]:
				r.reject("%s: /%d is not a NAT64 prefix length", key, p.Prefix.Bits)
			case p.Prefix.Host:
				r.unspec("pref64 prefix with host bits")
				pl.Prefix = netip.PrefixFrom(netip.MustParseAddr(p.Prefix.Addr), p.Prefix.Bits).Masked().String()
			default:
				pl.Prefix = netip.PrefixFrom(netip.MustParseAddr(p.Prefix.Addr), p.Prefix.Bits).String()
			}
		}
		out = append(out, pl)
	}
	return out
}

// upper75 is floor(0.75*max) truncated to a whole second; minAuto the
// documented 0.33*max truncated to a whole second (float formula as written
// in the documentation; exact reports whether integer arithmetic agrees).
func upper75(max time.Duration) time.Duration { return (3 * max / 4).Truncate(time.Second) }
func minAuto(max time.Duration) (v time.Duration, exact bool) {
	f := time.Duration(0.33 * float64(max)).Truncate(time.Second)
	i := (max / 100 * 33).Truncate(time.Second)
	i2 := time.Duration((int64(max) / 100 * 33) + (int64(max)%100)*33/100).Truncate(time.Second)
	_ = i
	return f, f == i2
}

// reference is the C02 oracle.
func reference(d dDoc, epoch time.Time) refResult {
	var r refResult
	if d.UnknownTop {
		r.reject("unknown top-level key")
	}
	if len(d.Interfaces) == 0 {
		r.reject("no interfaces")
	}
	if d.Debug != nil {
		if d.Debug.Unknown {
			r.reject("unknown key in [debug]")
		}
		if d.Debug.Address != nil && *d.Debug.Address != "" {
			if !d.Debug.AddrValid {
				r.reject("bad debug address %q", *d.Debug.Address)
			}
			r.Cfg.Debug = rDebug{Address: *d.Debug.Address, Prometheus: bval(d.Debug.Prometheus, false), PProf: bval(d.Debug.PProf, false)}
			r.Cfg.DebugSpec = true
		}
	}
	seen := map[string]bool{}
	for i, ifi := range d.Interfaces {
		where := fmt.Sprintf("interfaces[%d]", i)
		if ifi.Unknown {
			r.reject("%s: unknown key", where)
		}
		hasName := ifi.Name != nil && *ifi.Name != ""
		hasNames := ifi.HasNames && len(ifi.Names) > 0
		var names []string
		switch {
		case hasName && hasNames:
			r.reject("%s: name and names both set", where)
		case hasName:
			names = []string{*ifi.Name}
		case hasNames:
			names = ifi.Names
		default:
			r.reject("%s: neither name nor names", where)
		}
		for _, n := range names {
			if n == "" {
				r.unspec("empty string inside names")
			}
			if seen[n] {
				r.reject("%s: interface %q repeated", where, n)
			}
			seen[n] = true
		}
		mon, adv := bval(ifi.Monitor, false), bval(ifi.Advertise, false)
		if mon && adv {
			r.reject("%s: monitor and advertise", where)
		}
		if mon {
			// monitor interfaces carry no advertising settings; whether invalid
			// advertising values on them are diagnosed is not stated.
			var sub refResult
			ifaceSettings(&sub, where, ifi, epoch)
			if len(sub.Reasons) > 0 {
				r.unspec("invalid advertising settings on a monitor interface")
			}
			for _, n := range names {
				r.Cfg.Interfaces = append(r.Cfg.Interfaces, rIface{Name: n, Monitor: true, Verbose: bval(ifi.Verbose, false)})
			}
			continue
		}
		base := ifaceSettings(&r, where, ifi, epoch)
		for _, n := range names {
			x := base
			x.Name = n
			r.Cfg.Interfaces = append(r.Cfg.Interfaces, x)
		}
	}
	switch {
	case len(r.Reasons) > 0:
		r.V = vReject
	case len(r.Unspec) > 0:
		r.V = vUnspecified
	default:
		r.V = vAccept
	}
	return r
}

func ifaceSettings(r *refResult, where string, ifi dIface, epoch time.Time) rIface {
	max, okMax := r.durVal(where+".max_interval", ifi.MaxInterval, 600*time.Second, "?auto")
	if okMax && (max < 4*time.Second || max > 1800*time.Second) {
		r.reject("%s: max_interval %v out of [4s,1800s]", where, max)
		okMax = false
	}
	if !okMax {
		max = 600 * time.Second // keep going to collect further reasons
	}
	var min time.Duration
	switch ifi.MinInterval.Kind {
	case "omit", "", "auto", "empty":
		if max >= 9*time.Second {
			var exact bool
			min, exact = minAuto(max)
			if !exact {
				r.unspec("0.33*max_interval differs between float and exact arithmetic")
			}
		} else {
			min = max
		}
	case "malformed", "infinite":
		r.reject("%s: bad min_interval", where)
	default:
		min = time.Duration(ifi.MinInterval.NS)
		if okMax && (min < 3*time.Second || min > upper75(max)) {
			r.reject("%s: min_interval %v out of [3s,%v]", where, min, upper75(max))
		}
	}
	reach, ok := r.durVal(where+".reachable_time", ifi.ReachableTime, 0, "empty=0")
	if ok && (reach < 0 || reach > time.Hour) {
		r.reject("%s: reachable_time %v out of [0,1h]", where, reach)
	}
	retr, ok := r.durVal(where+".retransmit_timer", ifi.RetransmitTimer, 0, "empty=0")
	if ok && (retr < 0 || retr > time.Hour) {
		r.reject("%s: retransmit_timer %v out of [0,1h]", where, retr)
	}
	hop := int64(64)
	if ifi.HopLimit != nil {
		hop = *ifi.HopLimit
		if hop < 0 || hop > 255 {
			r.reject("%s: hop_limit %d", where, hop)
		}
	}
	life, ok := r.durVal(where+".default_lifetime", ifi.DefaultLifetime, 3*max, "auto infinite empty=0")
	if ok && okMax && life != 0 && (life < max || life > 9000*time.Second) {
		r.reject("%s: default_lifetime %v not 0 or within [%v,9000s]", where, life, max)
	}
	pref, okp := prefStr(ifi.Preference)
	if !okp {
		r.reject("%s: bad preference %q", where, *ifi.Preference)
	}
	return rIface{
		Advertise: bval(ifi.Advertise, false), Verbose: bval(ifi.Verbose, false),
		Min: min, Max: max, Managed: bval(ifi.Managed, false), Other: bval(ifi.OtherConfig, false),
		Reachable: reach, Retrans: retr, HopLimit: int(hop), DefaultLifetime: life,
		UnicastOnly: bval(ifi.UnicastOnly, false), Preference: pref,
		Plugins: ifacePlugins(r, where, ifi, max, epoch),
	}
}

// ---------------------------------------------------------------------------
// generators

// A vg wraps rapid.T with a budget of deliberately wrong values.
type vg struct {
	t      *rapid.T
	budget int
	bads   int
	oneIn  int
}

// uniform draws an (unbiased) value in [0,n) from fair coin flips: rapid's
// integer generators favour small values, which would skew every "one in n"
// decision; all-false flips shrink to 0.
func (g *vg) uniform(label string, n int) int {
	if n <= 1 {
		return 0
	}
	bits := 0
	for 1<<bits < n {
		bits++
	}
	for try := 0; try < 4; try++ {
		v := 0
		for b := 0; b < bits; b++ {
			if rapid.Bool().Draw(g.t, label) {
				v |= 1 << b
			}
		}
		if v < n {
			return v
		}
	}
	return 0
}

func (g *vg) bad(label string) bool {
	if g.budget <= 0 {
		return false
	}
	if g.uniform("bad:"+label, g.oneIn) == g.oneIn-1 {
		g.budget--
		g.bads++
		return true
	}
	return false
}

// badOften is bad with a stated probability (for faults that only matter in a
// rare generator mode and would otherwise almost never be drawn there).
func (g *vg) badOften(label string, num, den int) bool {
	if g.budget <= 0 || !g.chance("bad:"+label, num, den) {
		return false
	}
	g.budget--
	g.bads++
	return true
}

func (g *vg) chance(label string, num, den int) bool {
	return g.uniform(label, den) >= den-num
}

func (g *vg) optBool(label string) *bool {
	if g.chance(label+"?", 1, 2) {
		return nil
	}
	v := rapid.Bool().Draw(g.t, label)
	return &v
}

// spell renders ns exactly in one of several spellings.
func (g *vg) spell(ns int64) string {
	d := time.Duration(ns)
	k := rapid.IntRange(0, 9).Draw(g.t, "spelling")
	h, mn, sec := int64(time.Hour), int64(time.Minute), int64(time.Second)
	switch {
	case k == 4 && ns > 0 && ns%(h/10) == 0 && ns/h < 1<<20:
		// tenths of an hour: h/10 is a whole number of nanoseconds, so the fraction is exact
		return fmt.Sprintf("%d.%dh", ns/h, ns%h/(h/10))
	case k == 5 && ns >= 0:
		return "+" + d.String()
	case k == 6 && ns%int64(time.Microsecond) == 0 && ns/int64(time.Microsecond) < 1<<40:
		return fmt.Sprintf("%d%s", ns/int64(time.Microsecond), rapid.SampledFrom([]string{"us", "µs", "μs"}).Draw(g.t, "micro"))
	case k == 7 && ns >= 0 && ns%sec == 0:
		return fmt.Sprintf("%04ds", ns/sec)
	case k == 8 && ns > 0 && ns%sec == 0 && ns/h < 1<<20:
		// the units of a duration string may come in any order and may repeat
		return fmt.Sprintf("%ds%dm%dh", ns%mn/sec, ns%h/mn, ns/h)
	case k == 9 && ns >= 0 && ns%(sec/4) == 0 && ns/sec < 1<<30:
		return fmt.Sprintf("%d.%02ds", ns/sec, ns%sec/(sec/100))
	case k == 1 && ns%int64(time.Second) == 0:
		return fmt.Sprintf("%ds", ns/int64(time.Second))
	case k == 2 && ns%int64(time.Millisecond) == 0 && ns/int64(time.Millisecond) < 1<<40:
		return fmt.Sprintf("%dms", ns/int64(time.Millisecond))
	case k == 3 && ns%int64(time.Minute) == 0 && ns != 0:
		return fmt.Sprintf("%dm", ns/int64(time.Minute))
	}
	return d.String()
}

// (also the spellings other tools accept for durations - percentages, days, weeks, years, ISO 8601, clock notation, unit
// words, upper-case units: none of them is a documented form)
var malformedDurations = []string{"5", "abc", "1x", "1 s", "s", "--1s", "1h1", "3000000h", "0x10s", "1e3s", "١s",
	"50%", "10%", "75%", "1d", "30d", "1.5d", "99999d", "200000d", "2w", "1y", "PT5S", "P1D", "00:05:00", "5sec", "5 seconds", "10min", "5S", "1H", "1hr", "5s ", " 5s", "5s;", "5.s.", "1h-5m", ".s", "0x1p4s", "1_000s"}

// genDur draws a duration key whose accepted values are lo..hi (ns). specials
// lists the special spellings that may be used as valid values.
func (g *vg) genDur(label string, lo, hi int64, specials []string, omitOK bool) dDur {
	if g.bad(label) {
		switch rapid.IntRange(0, 6).Draw(g.t, label+":badkind") {
		case 0:
			return dDur{Kind: "malformed", Text: rapid.SampledFrom(malformedDurations).Draw(g.t, label+":malformed")}
		case 1:
			ns := lo - rapid.SampledFrom([]int64{1, int64(time.Millisecond), int64(time.Second)}).Draw(g.t, label+":below")
			return dDur{Kind: "value", NS: ns, Text: g.spell(ns)}
		case 2:
			ns := hi + rapid.SampledFrom([]int64{1, int64(time.Millisecond), int64(time.Second)}).Draw(g.t, label+":above")
			return dDur{Kind: "value", NS: ns, Text: g.spell(ns)}
		case 3:
			ns := -rapid.Int64Range(1, int64(48*time.Hour)).Draw(g.t, label+":neg")
			return dDur{Kind: "value", NS: ns, Text: g.spell(ns)}
		case 4:
			return dDur{Kind: rapid.SampledFrom([]string{"auto", "infinite", "empty"}).Draw(g.t, label+":special")}
		case 5:
			ns := rapid.Int64Range(hi, int64(2500000*time.Hour)).Draw(g.t, label+":huge")
			return dDur{Kind: "value", NS: ns, Text: g.spell(ns)}
		default:
			ns := rapid.Int64Range(0, max(lo, 1)).Draw(g.t, label+":small")
			return dDur{Kind: "value", NS: ns, Text: g.spell(ns)}
		}
	}
	k := rapid.IntRange(0, 9).Draw(g.t, label+":kind")
	switch {
	case k <= 2 && omitOK:
		return dDur{Kind: "omit"}
	case k == 3 && len(specials) > 0:
		return dDur{Kind: rapid.SampledFrom(specials).Draw(g.t, label+":special")}
	case k == 4:
		ns := rapid.SampledFrom([]int64{lo, hi, min(lo+1, hi), max(hi-1, lo)}).Draw(g.t, label+":edge")
		return dDur{Kind: "value", NS: ns, Text: g.spell(ns)}
	case k == 5:
		ns := rapid.Int64Range(lo, hi).Draw(g.t, label+":any")
		return dDur{Kind: "value", NS: ns, Text: g.spell(ns)}
	default:
		los, his := (lo+int64(time.Second)-1)/int64(time.Second), hi/int64(time.Second)
		if los > his {
			ns := rapid.Int64Range(lo, hi).Draw(g.t, label+":any2")
			return dDur{Kind: "value", NS: ns, Text: g.spell(ns)}
		}
		ns := rapid.Int64Range(los, his).Draw(g.t, label+":secs") * int64(time.Second)
		return dDur{Kind: "value", NS: ns, Text: g.spell(ns)}
	}
}

// cidrValue draws a canonical prefix inside the idx-th of a family of disjoint
// /48 networks, so that valid documents have no overlaps unless one is
// introduced on purpose.
func (g *vg) cidrValue(label string, family string, idx int, bitsPool []int) dCIDR {
	a := netip.MustParseAddr(fmt.Sprintf(family, idx+1))
	bits := rapid.SampledFrom(bitsPool).Draw(g.t, label+":bits")
	p := netip.PrefixFrom(a, bits).Masked()
	text := p.String()
	if g.chance(label+":upper", 1, 8) {
		text = strings.ToUpper(text)
	}
	return dCIDR{Kind: "value", Text: text, Addr: p.Addr().String(), Bits: bits}
}

func (g *vg) cidrBad(label string, wildcardOther string) dCIDR {
	switch rapid.IntRange(0, 6).Draw(g.t, label+":badkind") {
	case 0:
		return dCIDR{Kind: "malformed", Text: rapid.SampledFrom([]string{"foo", "2001:db8::", "2001:db8::/129", "2001:db8::/-1", "/64", "2001:db8::/64/64", "fe80::%eth0/64", "2001:db8::/ 64"}).Draw(g.t, label+":mal")}
	case 1:
		return dCIDR{Kind: "value", Text: "192.0.2.0/24", Addr: "192.0.2.0", Bits: 24, V4: true}
	case 2:
		return dCIDR{Kind: "value", Text: "::ffff:192.0.2.0/120", Addr: "::ffff:192.0.2.0", Bits: 120, V4: true}
	case 3:
		return dCIDR{Kind: "value", Text: "2001:db8::1/64", Addr: "2001:db8::1", Bits: 64, Host: true}
	case 4:
		return dCIDR{Kind: "value", Text: "2001:db8::/128", Addr: "2001:db8::", Bits: 128}
	case 5:
		bits := rapid.SampledFrom([]int{1, 48, 56, 63, 65, 96, 128}).Draw(g.t, label+":wbits")
		if g.chance(label+":wbitsany", 1, 2) {
			bits = rapid.IntRange(1, 128).Draw(g.t, label+":wbitsv")
		}
		return dCIDR{Kind: "value", Text: fmt.Sprintf("::/%d", bits), Addr: "::", Bits: bits}
	default:
		a, b, _ := strings.Cut(wildcardOther, "/")
		var bits int
		fmt.Sscan(b, &bits)
		return dCIDR{Kind: "value", Text: wildcardOther, Addr: a, Bits: bits}
	}
}

func (g *vg) genPrefix(i int) dPrefix {
	l := fmt.Sprintf("prefix%d", i)
	p := dPrefix{OnLink: g.optBool(l + ":onlink"), Autonomous: g.optBool(l + ":auto"), Deprecated: nil}
	switch {
	case g.bad(l + ":cidr"):
		p.Prefix = g.cidrBad(l, "::/0")
	case i == 0 && g.chance(l+":wild", 1, 2):
		p.Prefix = rapid.SampledFrom([]dCIDR{{Kind: "omit"}, {Kind: "empty"}, {Kind: "value", Text: "::/64", Addr: "::", Bits: 64}}).Draw(g.t, l+":wildkind")
	default:
		p.Prefix = g.cidrValue(l, rapid.SampledFrom([]string{"2001:db8:%x::", "fd00:0:%x::", "2a00:1450:%x::"}).Draw(g.t, l+":family"), i, []int{48, 56, 60, 64, 64, 64, 96, 127})
	}
	if g.chance(l+":dep", 1, 5) {
		v := g.chance(l+":depv", 3, 4)
		p.Deprecated = &v
	}
	specials := []string{"auto", "infinite"}
	p.Valid = g.genDur(l+":valid", 1, infNS, specials, true)
	hi := infNS
	if p.Valid.Kind == "value" && p.Valid.NS > 0 && p.Valid.NS < hi {
		hi = p.Valid.NS
	}
	if p.Valid.Kind == "omit" || p.Valid.Kind == "auto" {
		hi = int64(24 * time.Hour)
	}
	if g.bad(l + ":prefover") {
		hi = infNS // may exceed valid: an interaction the reference must catch
	}
	var prefSpecials []string
	if hi >= int64(4*time.Hour) {
		prefSpecials = append(prefSpecials, "auto")
	}
	if p.Valid.Kind == "infinite" {
		prefSpecials = append(prefSpecials, "infinite")
	}
	p.Preferred = g.genDur(l+":pref", 1, hi, prefSpecials, true)
	if k := p.Preferred.Kind; (k == "omit" || k == "auto") && hi < int64(4*time.Hour) && !g.chance(l+":prefdefault", 1, 16) {
		p.Preferred = dDur{Kind: "value", NS: hi, Text: g.spell(hi)} // the 4h default would exceed valid
	}
	p.Unknown = g.bad(l + ":unknown")
	return p
}

// overlapping returns a stanza whose prefix overlaps other (equal, covering or
// covered); for a wildcard it repeats the wildcard.
func (g *vg) overlapping(label string, other dCIDR, wildcard string) dPrefix {
	if other.Kind != "value" || other.V4 || other.Host || other.Addr == "::" {
		a, b, _ := strings.Cut(wildcard, "/")
		var bits int
		fmt.Sscan(b, &bits)
		return dPrefix{Prefix: dCIDR{Kind: "value", Text: wildcard, Addr: a, Bits: bits}}
	}
	bits := other.Bits
	switch rapid.IntRange(0, 2).Draw(g.t, label+":rel") {
	case 1:
		bits = max(other.Bits-8, 16)
	case 2:
		bits = min(other.Bits+1, 127)
	}
	p := netip.PrefixFrom(netip.MustParseAddr(other.Addr), bits).Masked()
	return dPrefix{Prefix: dCIDR{Kind: "value", Text: p.String(), Addr: p.Addr().String(), Bits: bits}}
}

func (g *vg) genRoute(i int) dRoute {
	l := fmt.Sprintf("route%d", i)
	r := dRoute{}
	switch {
	case g.bad(l + ":cidr"):
		r.Prefix = g.cidrBad(l, "::/64")
		if r.Prefix.Text == "2001:db8::/128" {
			r.Prefix = dCIDR{Kind: "value", Text: "::/128", Addr: "::", Bits: 128}
		}
	case i == 0 && g.chance(l+":wild", 1, 2):
		r.Prefix = rapid.SampledFrom([]dCIDR{{Kind: "omit"}, {Kind: "empty"}, {Kind: "value", Text: "::/0", Addr: "::", Bits: 0}}).Draw(g.t, l+":wildkind")
	default:
		r.Prefix = g.cidrValue(l, rapid.SampledFrom([]string{"2001:db8:%x::", "fd00:0:%x::", "2a00:1450:%x::"}).Draw(g.t, l+":family"), i, []int{48, 56, 64, 64, 96, 128})
	}
	r.Preference = g.genPref(l)
	if g.chance(l+":dep", 1, 5) {
		v := g.chance(l+":depv", 3, 4)
		r.Deprecated = &v
	}
	r.Lifetime = g.genDur(l+":lifetime", 1, infNS, []string{"auto", "infinite"}, true)
	r.Unknown = g.bad(l + ":unknown")
	return r
}

func (g *vg) genPref(l string) *string {
	if g.bad(l + ":pref") {
		s := rapid.SampledFrom([]string{"High", "MEDIUM", "lowest", "0", " low", "auto"}).Draw(g.t, l+":badpref")
		return &s
	}
	if g.chance(l+":pref?", 1, 2) {
		return nil
	}
	s := rapid.SampledFrom([]string{"low", "medium", "high", ""}).Draw(g.t, l+":prefv")
	return &s
}

var serverPool = []string{"2001:db8::53", "2001:db8::1", "fd00::53", "fe80::1", "2001:4860:4860::8888", "2606:4700:4700::1111", "::1"}

func (g *vg) genRDNSS(i int) dRDNSS {
	l := fmt.Sprintf("rdnss%d", i)
	r := dRDNSS{Lifetime: g.genDur(l+":lifetime", 0, infNS, []string{"auto", "infinite", "empty"}, true)}
	n := rapid.IntRange(0, 5).Draw(g.t, l+":n")
	if n == 0 {
		if g.chance(l+":emptylist", 1, 2) {
			r.Servers = []dAddr{}
		}
	} else {
		picks := rapid.SliceOfNDistinct(rapid.SampledFrom(serverPool), n, n, rapid.ID[string]).Draw(g.t, l+":servers")
		for _, s := range picks {
			a := netip.MustParseAddr(s)
			text := s
			if g.chance(l+":long", 1, 6) {
				text = a.StringExpanded()
			}
			r.Servers = append(r.Servers, dAddr{Text: text, Kind: "v6", Addr: a.String()})
		}
		if g.chance(l+":wild", 1, 3) {
			pos := rapid.IntRange(0, len(r.Servers)).Draw(g.t, l+":wildpos")
			r.Servers = append(r.Servers[:pos], append([]dAddr{{Text: rapid.SampledFrom([]string{"::", "::", "::0", "0::", "0:0:0:0:0:0:0:0"}).Draw(g.t, l+":wildtext"), Kind: "wildcard"}}, r.Servers[pos:]...)...)
		}
		if g.bad(l + ":servers") {
			var b dAddr
			switch rapid.IntRange(0, 5).Draw(g.t, l+":badserver") {
			case 5:
				// an address with a zone: netip parses it, the option cannot carry the zone (finding F23); whether the
				// parser may accept it is not stated, what an accepted one does to the RA is C03's business
				b = dAddr{Text: rapid.SampledFrom([]string{"fe80::53%eth0", "fe80::1%eth0", "2001:db8::53%1", "::%eth0", "fe80::1%25eth0"}).Draw(g.t, l+":zoned"), Kind: "zoned"}
			case 0:
				// (the IPv4 unspecified address is "unspecified" for netip just as :: is - it is still not IPv6)
				b = dAddr{Text: rapid.SampledFrom([]string{"192.0.2.53", "0.0.0.0", "255.255.255.255", "127.0.0.1", "0.0.0.0"}).Draw(g.t, l+":v4"), Kind: "v4"}
			case 1:
				b = dAddr{Text: rapid.SampledFrom([]string{"::ffff:192.0.2.53", "::ffff:0.0.0.0", "::ffff:0:0"}).Draw(g.t, l+":mapped"), Kind: "mapped"}
			case 2:
				b = dAddr{Text: rapid.SampledFrom([]string{"dns.example.com", "2001:db8::/64", "", "2001:db8:::1"}).Draw(g.t, l+":mal"), Kind: "malformed"}
			case 3:
				b = dAddr{Text: "::", Kind: "wildcard"}
				r.Servers = append(r.Servers, dAddr{Text: "0:0::0", Kind: "wildcard"})
			default:
				first := r.Servers[0]
				if first.Kind == "v6" {
					b = dAddr{Text: netip.MustParseAddr(first.Addr).StringExpanded(), Kind: "v6", Addr: first.Addr}
				} else {
					b = dAddr{Text: "::", Kind: "wildcard"}
				}
			}
			r.Servers = append(r.Servers, b)
		}
	}
	r.Unknown = g.bad(l + ":unknown")
	return r
}

var domainPool = []string{"example.com", "foo.example.com", "lan", "corp.example.net", "a.b.c.d.example.org", "xn--bcher-kva.example", "x-1.example.com"}

func (g *vg) genDNSSL(i int) dDNSSL {
	l := fmt.Sprintf("dnssl%d", i)
	d := dDNSSL{Lifetime: g.genDur(l+":lifetime", 0, infNS, []string{"auto", "infinite", "empty"}, true), HasKey: true}
	n := rapid.IntRange(1, 4).Draw(g.t, l+":n")
	d.Domains = rapid.SliceOfNDistinct(rapid.SampledFrom(domainPool), n, n, rapid.ID[string]).Draw(g.t, l+":domains")
	if g.bad(l + ":domains") {
		switch rapid.IntRange(0, 4).Draw(g.t, l+":baddomains") {
		case 4:
			pos := rapid.IntRange(0, len(d.Domains)).Draw(g.t, l+":dotpos")
			dotted := rapid.SampledFrom([]string{"example.org.", "lan.", "a..b", ".", ".lan", "corp.example.net.."}).Draw(g.t, l+":dotted")
			d.Domains = append(d.Domains[:pos], append([]string{dotted}, d.Domains[pos:]...)...)
		case 0:
			d.Domains = []string{}
		case 1:
			d.HasKey, d.Domains = false, nil
		case 2:
			d.Domains = append(d.Domains, d.Domains[0])
		default:
			pos := rapid.IntRange(0, len(d.Domains)).Draw(g.t, l+":emptypos")
			d.Domains = append(d.Domains[:pos], append([]string{""}, d.Domains[pos:]...)...)
		}
	}
	d.Unknown = g.bad(l + ":unknown")
	return d
}

func (g *vg) genPREF64(i int) dPREF64 {
	l := fmt.Sprintf("pref64_%d", i)
	if g.bad(l) {
		switch rapid.IntRange(0, 4).Draw(g.t, l+":bad") {
		case 0:
			return dPREF64{dCIDR{Kind: "malformed", Text: rapid.SampledFrom([]string{"64:ff9b::", "nat64", "64:ff9b::/200"}).Draw(g.t, l+":mal")}}
		case 1:
			return dPREF64{dCIDR{Kind: "value", Text: "10.0.0.0/8", Addr: "10.0.0.0", Bits: 8, V4: true}}
		case 2:
			return dPREF64{dCIDR{Kind: "value", Text: "10.0.0.0/32", Addr: "10.0.0.0", Bits: 32, V4: true}}
		case 3:
			// any length that is not one of the six NAT64 sizes
			bits := rapid.IntRange(0, 128).Draw(g.t, l+":bits")
			for bits == 96 || bits == 64 || bits == 56 || bits == 48 || bits == 40 || bits == 32 {
				bits += 8 * rapid.IntRange(1, 3).Draw(g.t, l+":off")
				if bits > 128 {
					bits = 72
				}
			}
			p := netip.PrefixFrom(netip.MustParseAddr("64:ff9b::"), bits).Masked()
			return dPREF64{dCIDR{Kind: "value", Text: p.String(), Addr: p.Addr().String(), Bits: bits}}
		default:
			return dPREF64{dCIDR{Kind: "value", Text: "64:ff9b::1/96", Addr: "64:ff9b::1", Bits: 96, Host: true}}
		}
	}
	switch rapid.IntRange(0, 3).Draw(g.t, l+":kind") {
	case 0:
		return dPREF64{dCIDR{Kind: "omit"}}
	case 1:
		return dPREF64{dCIDR{Kind: "empty"}}
	}
	a := rapid.SampledFrom([]string{"64:ff9b::", "2001:db8:64::", "64:ff9b:1::"}).Draw(g.t, l+":net")
	bits := rapid.SampledFrom([]int{96, 64, 56, 48, 40, 32}).Draw(g.t, l+":bits")
	p := netip.PrefixFrom(netip.MustParseAddr(a), bits).Masked()
	return dPREF64{dCIDR{Kind: "value", Text: p.String(), Addr: p.Addr().String(), Bits: bits}}
}

var ifaceNames = []string{"eth0", "eth1", "eth2", "lan0", "wan0", "br-lan", "vlan.10", "enp3s0"}

// genIface draws one interface stanza. advertise forces an advertising
// interface (used by C01/C03).
func (g *vg) genIface(i int, used map[string]bool, forceAdvertise bool) dIface {
	l := fmt.Sprintf("if%d", i)
	ifi := dIface{}
	fresh := func() string {
		for tries := 0; tries < 50; tries++ {
			n := rapid.SampledFrom(ifaceNames).Draw(g.t, l+":name")
			if !used[n] {
				used[n] = true
				return n
			}
		}
		n := fmt.Sprintf("gen%d", len(used))
		used[n] = true
		return n
	}
	switch {
	case g.bad(l + ":naming"):
		switch rapid.IntRange(0, 4).Draw(g.t, l+":badnaming") {
		case 0: // neither
		case 1: // both
			n := fresh()
			ifi.Name = &n
			ifi.HasNames, ifi.Names = true, []string{fresh()}
		case 2: // repeated across stanzas or within names
			n := fresh()
			ifi.HasNames, ifi.Names = true, []string{n, fresh(), n}
		case 3:
			e := ""
			ifi.Name = &e
			if g.chance(l+":emptynames", 1, 2) {
				ifi.HasNames, ifi.Names = true, []string{}
			}
		default:
			var prev string
			for n := range used {
				if prev == "" || n < prev {
					prev = n
				}
			}
			if prev == "" {
				prev = fresh()
				ifi.HasNames, ifi.Names = true, []string{prev, prev}
			} else {
				ifi.Name = &prev
			}
		}
	case g.chance(l+":names", 1, 3):
		n := rapid.IntRange(1, 3).Draw(g.t, l+":nnames")
		if g.chance(l+":manynames", 1, 12) {
			// a router with many VLAN interfaces sharing one stanza
			n = rapid.SampledFrom([]int{8, 17, 33, 64, 65, 70}).Draw(g.t, l+":nnamesmany")
		}
		ifi.HasNames = true
		for j := 0; j < n; j++ {
			ifi.Names = append(ifi.Names, fresh())
		}
		if g.chance(l+":emptyname", 1, 4) {
			e := ""
			ifi.Name = &e
		}
	default:
		n := fresh()
		ifi.Name = &n
	}
	mode := rapid.IntRange(0, 9).Draw(g.t, l+":mode")
	tr, fa := true, false
	switch {
	case forceAdvertise || mode <= 5:
		ifi.Advertise = &tr
		if g.chance(l+":monfalse", 1, 4) {
			ifi.Monitor = &fa
		}
	case mode <= 7:
		ifi.Monitor = &tr
		if g.chance(l+":advfalse", 1, 4) {
			ifi.Advertise = &fa
		}
	default: // neither
	}
	if g.bad(l + ":mode") {
		ifi.Monitor, ifi.Advertise = &tr, &tr
	}
	ifi.Verbose = g.optBool(l + ":verbose")
	monitor := ifi.Monitor != nil && *ifi.Monitor && !(ifi.Advertise != nil && *ifi.Advertise)
	if monitor && !g.chance(l+":monitorsettings", 1, 6) {
		ifi.Unknown = g.bad(l + ":unknown")
		return ifi
	}
	ifi.MaxInterval = g.genDur(l+":max", int64(4*time.Second), int64(1800*time.Second), nil, true)
	maxv := 600 * time.Second
	if ifi.MaxInterval.Kind == "value" && ifi.MaxInterval.NS >= int64(4*time.Second) && ifi.MaxInterval.NS <= int64(1800*time.Second) {
		maxv = time.Duration(ifi.MaxInterval.NS)
	}
	up := int64(upper75(maxv))
	if up >= int64(3*time.Second) {
		ifi.MinInterval = g.genDur(l+":min", int64(3*time.Second), up, []string{"auto", "empty"}, true)
	} else if g.chance(l+":minany", 1, 3) {
		ifi.MinInterval = dDur{Kind: "value", NS: int64(3 * time.Second), Text: "3s"} // no valid explicit value exists
	}
	ifi.Managed = g.optBool(l + ":managed")
	ifi.OtherConfig = g.optBool(l + ":other")
	ifi.ReachableTime = g.genDur(l+":reach", 0, int64(time.Hour), []string{"empty"}, true)
	ifi.RetransmitTimer = g.genDur(l+":retrans", 0, int64(time.Hour), []string{"empty"}, true)
	if !g.chance(l+":hop?", 1, 2) {
		v := rapid.SampledFrom([]int64{0, 1, 64, 128, 254, 255}).Draw(g.t, l+":hop")
		if g.chance(l+":hopany", 1, 2) {
			v = rapid.Int64Range(0, 255).Draw(g.t, l+":hopv")
		}
		if g.bad(l + ":hop") {
			v = rapid.SampledFrom([]int64{-1, 256, 257, 1000, -255, 65536}).Draw(g.t, l+":badhop")
			if g.chance(l+":badhopany", 1, 2) {
				v = rapid.Int64Range(256, 1<<33).Draw(g.t, l+":badhopv")
				if g.chance(l+":badhopneg", 1, 2) {
					v = -v + 255
				}
			}
		}
		ifi.HopLimit = &v
	}
	ifi.DefaultLifetime = g.genDur(l+":deflife", int64(maxv), int64(9000*time.Second), []string{"auto", "empty"}, true)
	if g.chance(l+":deflife0", 1, 10) {
		ifi.DefaultLifetime = dDur{Kind: "value", NS: 0, Text: rapid.SampledFrom([]string{"0s", "0", "0ms", "0h0m0s"}).Draw(g.t, l+":zero")}
	}
	ifi.UnicastOnly = g.optBool(l + ":unicast")
	ifi.Preference = g.genPref(l)
	if !g.chance(l+":mtu?", 2, 3) {
		v := rapid.SampledFrom([]int64{0, 1, 1280, 1500, 9000, 65535, 65536}).Draw(g.t, l+":mtu")
		if g.chance(l+":mtuany", 1, 2) {
			v = rapid.Int64Range(0, 65536).Draw(g.t, l+":mtuv")
		}
		if g.bad(l + ":mtu") {
			v = rapid.SampledFrom([]int64{-1, 65537, 100000, -1500}).Draw(g.t, l+":badmtu")
			if g.chance(l+":badmtuany", 1, 2) {
				v = rapid.Int64Range(65537, 1<<33).Draw(g.t, l+":badmtuv")
				if g.chance(l+":badmtuneg", 1, 2) {
					v = -v + 65536
				}
			}
		}
		ifi.MTU = &v
	}
	ifi.SourceLLA = g.optBool(l + ":slla")
	if g.chance(l+":cp", 1, 4) {
		n := rapid.IntRange(0, 60).Draw(g.t, l+":cplen")
		s := ""
		if n > 0 {
			s = "https://portal.example.com/" + strings.Repeat("a", n-1)
		}
		ifi.CaptivePortal = &s
	}
	// one interface in six carries long stanza lists (up to 10 prefixes and
	// routes): list-length dependent behaviour (sorting, growth, lookup
	// tables) only shows beyond a handful of entries
	many := g.chance(l+":many", 1, 6)
	np := rapid.IntRange(0, 3).Draw(g.t, l+":nprefix")
	if many {
		np = 4 + g.uniform(l+":nprefixmany", 7)
	}
	for j := 0; j < np; j++ {
		ifi.Prefixes = append(ifi.Prefixes, g.genPrefix(j))
	}
	if len(ifi.Prefixes) > 0 && (g.bad(l+":prefixoverlap") || (many && g.badOften(l+":prefixoverlapmany", 1, 4))) {
		with := g.uniform(l+":powith", len(ifi.Prefixes))
		o := g.overlapping(l+":po", ifi.Prefixes[with].Prefix, "::/64")
		o.Valid, o.Preferred = dDur{Kind: "omit"}, dDur{Kind: "omit"}
		at := len(ifi.Prefixes)
		if many {
			at = g.uniform(l+":poat", len(ifi.Prefixes)+1)
		}
		ifi.Prefixes = append(ifi.Prefixes[:at:at], append([]dPrefix{o}, ifi.Prefixes[at:]...)...)
	}
	nr := rapid.IntRange(0, 3).Draw(g.t, l+":nroute")
	if many {
		nr = 4 + g.uniform(l+":nroutemany", 7)
	}
	for j := 0; j < nr; j++ {
		ifi.Routes = append(ifi.Routes, g.genRoute(j))
	}
	if len(ifi.Routes) > 0 && (g.bad(l+":routeoverlap") || (many && g.badOften(l+":routeoverlapmany", 1, 4))) {
		with := g.uniform(l+":rowith", len(ifi.Routes))
		o := g.overlapping(l+":ro", ifi.Routes[with].Prefix, "::/0")
		at := len(ifi.Routes)
		if many {
			at = g.uniform(l+":roat", len(ifi.Routes)+1)
		}
		ifi.Routes = append(ifi.Routes[:at:at], append([]dRoute{{Prefix: o.Prefix, Lifetime: dDur{Kind: "omit"}}}, ifi.Routes[at:]...)...)
	}
	for j, n := 0, rapid.IntRange(0, 2).Draw(g.t, l+":nrdnss"); j < n; j++ {
		ifi.RDNSS = append(ifi.RDNSS, g.genRDNSS(j))
	}
	for j, n := 0, rapid.IntRange(0, 2).Draw(g.t, l+":ndnssl"); j < n; j++ {
		ifi.DNSSL = append(ifi.DNSSL, g.genDNSSL(j))
	}
	for j, n := 0, rapid.IntRange(0, 2).Draw(g.t, l+":npref64"); j < n; j++ {
		ifi.PREF64 = append(ifi.PREF64, g.genPREF64(j))
	}
	for k, n := range []int{len(ifi.Prefixes), len(ifi.Routes), len(ifi.RDNSS), len(ifi.DNSSL), len(ifi.PREF64)} {
		for j := 0; j < n; j++ {
			ifi.Order = append(ifi.Order, k)
		}
	}
	if len(ifi.Order) > 1 && g.chance(l+":shuffle", 1, 2) {
		ifi.Order = rapid.Permutation(ifi.Order).Draw(g.t, l+":order")
	}
	ifi.Unknown = g.bad(l + ":unknown")
	return ifi
}

var goodDebugAddrs = []string{"localhost:9430", "127.0.0.1:9430", "[::1]:9430", ":9430", "0.0.0.0:0", "[::]:65535"}
var badDebugAddrs = []string{"localhost", "127.0.0.1", "[::1]", "localhost:99999", "localhost:-1", "127.0.0.1:http!", "::1:9430", "[::1:9430", "localhost:94 30"}

func (g *vg) genDoc(forceAdvertise bool, badBudget int) dDoc {
	g.budget = badBudget
	if g.oneIn == 0 {
		g.oneIn = 32
	}
	d := dDoc{}
	n := rapid.IntRange(1, 3).Draw(g.t, "nifaces")
	if g.bad("nointerfaces") {
		n = 0
	}
	used := map[string]bool{}
	for i := 0; i < n; i++ {
		d.Interfaces = append(d.Interfaces, g.genIface(i, used, forceAdvertise))
	}
	if g.chance("debug", 1, 3) {
		dbg := &dDebug{Prometheus: g.optBool("prom"), PProf: g.optBool("pprof")}
		if !g.chance("debugaddr?", 1, 5) {
			a := rapid.SampledFrom(goodDebugAddrs).Draw(g.t, "debugaddr")
			dbg.AddrValid = true
			if g.bad("debugaddr") {
				a = rapid.SampledFrom(badDebugAddrs).Draw(g.t, "baddebugaddr")
				dbg.AddrValid = false
			}
			if g.chance("debugaddrempty", 1, 8) {
				a, dbg.AddrValid = "", true
			}
			dbg.Address = &a
		}
		dbg.Unknown = g.bad("debugunknown")
		d.Debug = dbg
		d.DebugFirst = g.chance("debugfirst", 1, 3)
	}
	d.UnknownTop = g.bad("unknowntop")
	return d
}

// ---------------------------------------------------------------------------
// system state and the expected router advertisement (C01 oracle)

// A sysState is everything outside the configuration an RA depends on.
type sysState struct {
	Addrs    []system.IP    `json:"addrs"`
	AddrErr  bool           `json:"addr_err,omitempty"`
	Routes   []system.Route `json:"routes"`
	RouteErr bool           `json:"route_err,omitempty"`
	MAC      []byte         `json:"mac"` // nil or empty = no hardware address (point-to-point)
	Fwd      bool           `json:"forwarding"`
	NowNS    int64          `json:"now_offset_ns"` // clock reading relative to the epoch, >= 0
}

func genSysState(t *rapid.T) sysState {
	st := sysState{Fwd: rapid.IntRange(0, 3).Draw(t, "fwd") != 0}
	nets := []string{"2001:db8:a:1:", "2001:db8:a:2:", "fd00:a:0:1:", "fe80:0:0:0:", "2a00:a:b:c:"}
	hosts := []string{":1", ":2", "200:ff:fe00:1", ":"}
	// one state in five is large (up to 20 addresses in up to 13 networks, up
	// to 16 routes nested four deep): list-length dependent behaviour
	large := rapid.IntRange(0, 4).Draw(t, "large") == 4
	naddrs := rapid.IntRange(0, 6).Draw(t, "naddrs")
	if large {
		nets = append(nets, "2001:db8:a:3:", "2001:db8:a:4:", "2001:db8:b:1:", "2001:db8:b:2:", "fd00:a:0:2:", "fd00:a:0:3:", "2a00:a:b:d:", "2a00:a:b:e:")
		hosts = append(hosts, ":3", ":4", "200:ff:fe00:2")
		naddrs = rapid.IntRange(5, 20).Draw(t, "naddrslarge")
	}
	for i, n := 0, naddrs; i < n; i++ {
		if rapid.IntRange(0, 9).Draw(t, "v4") == 0 {
			st.Addrs = append(st.Addrs, system.IP{Address: netip.MustParsePrefix("192.0.2.1/24")})
			continue
		}
		bits := 64
		if rapid.IntRange(0, 5).Draw(t, "oddbits") == 0 {
			bits = rapid.SampledFrom([]int{48, 56, 128}).Draw(t, "bits")
		}
		h := rapid.SampledFrom(hosts).Draw(t, "host")
		text := rapid.SampledFrom(nets).Draw(t, "net") + h
		if h == ":" {
			text = strings.TrimSuffix(rapid.SampledFrom(nets).Draw(t, "net2"), ":") + "::"
		}
		a, err := netip.ParseAddr(text)
		if err != nil {
			panic("verif generator: " + text)
		}
		fl := func(name string) bool { return rapid.IntRange(0, 5).Draw(t, name) == 0 }
		st.Addrs = append(st.Addrs, system.IP{Address: netip.PrefixFrom(a, bits), Deprecated: fl("dep"), Temporary: fl("tmp"),
			Tentative: fl("tent"), ValidForever: fl("forever"), StablePrivacy: fl("sp"), ManageTemporaryAddresses: fl("mta")})
	}
	rts := []string{"2001:db8:a::/48", "2001:db8:a::/64", "2001:db8:a:1::/64", "2001:db8:b::/56", "fd00:a::/32", "2001:db8:a::/128", "10.0.0.0/8"}
	nroutes := rapid.IntRange(0, 4).Draw(t, "nroutes")
	if large {
		rts = append(rts, "2001:db8::/32", "2001:db8:b::/48", "2001:db8:b:1::/64", "2001:db8:b:100::/56", "2001:db8:c::/48", "2001:db8:a:2::/64", "2001:db8:a:2::/96",
			"fd00::/8", "fd00:a:1::/48", "fd00:a:1:1::/64", "fd00:b::/32", "2a00::/16", "2a00:a::/32", "2a00:a:b::/48", "::/0", "::1/128")
		nroutes = rapid.IntRange(4, 16).Draw(t, "nrouteslarge")
	}
	for i, n := 0, nroutes; i < n; i++ {
		rt := system.Route{Prefix: netip.MustParsePrefix(rapid.SampledFrom(rts).Draw(t, "route")), Index: 1}
		if rapid.IntRange(0, 2).Draw(t, "rtattrs") == 0 {
			// what else the kernel says about a route has no bearing on the RA: the same destination listed again
			// with another metric, preference or (second loopback interface) index is still one destination
			rt.Index = rapid.SampledFrom([]int{1, 2, 17, 70000}).Draw(t, "rtindex")
			rt.Preference = rapid.SampledFrom([]ndp.Preference{ndp.Medium, ndp.High, ndp.Low}).Draw(t, "rtpref")
		}
		st.Routes = append(st.Routes, rt)
	}
	if rapid.IntRange(0, 3).Draw(t, "mac") != 0 {
		st.MAC = rapid.SliceOfN(rapid.Byte(), 6, 6).Draw(t, "macbytes")
		if rapid.IntRange(0, 5).Draw(t, "maclen") == 0 {
			// not every link has 48-bit addresses (what Go reports for InfiniBand, 802.15.4, FireWire, some tunnels)
			n := rapid.SampledFrom([]int{1, 4, 5, 7, 8, 16, 20, 32}).Draw(t, "macn")
			st.MAC = rapid.SliceOfN(rapid.Byte(), n, n).Draw(t, "macbytesn")
		}
	}
	st.AddrErr = rapid.IntRange(0, 24).Draw(t, "addrerr") == 0
	st.RouteErr = rapid.IntRange(0, 24).Draw(t, "routeerr") == 0
	st.NowNS = rapid.Int64Range(0, int64(72*time.Hour)).Draw(t, "now")
	if rapid.Bool().Draw(t, "nowsmall") {
		st.NowNS = rapid.Int64Range(0, int64(10*time.Second)).Draw(t, "now2")
	}
	return st
}

func prefFromName(s string) ndp.Preference {
	switch s {
	case "low":
		return ndp.Low
	case "high":
		return ndp.High
	}
	return ndp.Medium
}

// expectRA computes, from the reference configuration of one interface and
// the system state alone, the router advertisement the statement of C01 calls
// for. wantErr means RA generation must fail (address/route source failure or
// no eligible RDNSS address).
func expectRA(ri rIface, st sysState, epoch time.Time) (ra *ndp.RouterAdvertisement, wantErr bool) {
	now := epoch.Add(time.Duration(st.NowNS))
	ra = &ndp.RouterAdvertisement{
		CurrentHopLimit:           uint8(ri.HopLimit),
		ManagedConfiguration:      ri.Managed,
		OtherConfiguration:        ri.Other,
		RouterSelectionPreference: prefFromName(ri.Preference),
		RouterLifetime:            ri.DefaultLifetime,
		ReachableTime:             ri.Reachable,
		RetransmitTimer:           ri.Retrans,
	}
	if !st.Fwd {
		ra.RouterLifetime = 0
	}
	for _, p := range ri.Plugins {
		switch p.Kind {
		case "prefix":
			valid, pref := p.Valid, p.Preferred
			if p.Deprecated {
				valid, pref = verifref.Remaining(epoch, p.Valid, now), verifref.Remaining(epoch, p.Preferred, now)
			}
			pfxs := []netip.Prefix{netip.MustParsePrefix(p.Prefix)}
			if p.Auto {
				if st.AddrErr {
					return nil, true
				}
				pfxs = verifref.ExpandPrefixes(st.Addrs)
			}
			for _, x := range pfxs {
				ra.Options = append(ra.Options, &ndp.PrefixInformation{PrefixLength: uint8(x.Bits()), OnLink: p.OnLink,
					AutonomousAddressConfiguration: p.Autonomous, ValidLifetime: valid, PreferredLifetime: pref, Prefix: x.Addr()})
			}
		case "route":
			lt := p.Lifetime
			if p.Deprecated {
				lt = verifref.Remaining(epoch, p.Lifetime, now)
			}
			rts := []netip.Prefix{netip.MustParsePrefix(p.Prefix)}
			if p.Auto {
				if st.RouteErr {
					return nil, true
				}
				rts = verifref.ExpandRoutes(st.Routes)
			}
			for _, x := range rts {
				ra.Options = append(ra.Options, &ndp.RouteInformation{PrefixLength: uint8(x.Bits()), Preference: prefFromName(p.Preference),
					RouteLifetime: lt, Prefix: x.Addr()})
			}
		case "rdnss":
			var servers []netip.Addr
			if p.Auto {
				if st.AddrErr {
					return nil, true
				}
				best, ok := verifref.BestRDNSS(st.Addrs)
				if !ok {
					return nil, true
				}
				servers = append(servers, best)
			}
			for _, s := range p.Servers {
				servers = append(servers, netip.MustParseAddr(s))
			}
			ra.Options = append(ra.Options, &ndp.RecursiveDNSServer{Lifetime: p.Lifetime, Servers: servers})
		case "dnssl":
			ra.Options = append(ra.Options, &ndp.DNSSearchList{Lifetime: p.Lifetime, DomainNames: p.Domains})
		case "mtu":
			ra.Options = append(ra.Options, ndp.NewMTU(uint32(p.MTU)))
		case "lla":
			// (a hardware address that is not 48 bits long - InfiniBand 20 bytes, IEEE 802.15.4 / FireWire 8 - cannot be
			// carried by the option as the codec knows it: like an absent one it yields no option; finding F20)
			if len(st.MAC) == 6 {
				ra.Options = append(ra.Options, &ndp.LinkLayerAddress{Direction: ndp.Source, Addr: net.HardwareAddr(st.MAC)})
			}
		case "captive-portal":
			ra.Options = append(ra.Options, &ndp.CaptivePortal{URI: p.URI})
		case "pref64":
			ra.Options = append(ra.Options, &ndp.PREF64{Prefix: netip.MustParsePrefix(p.Prefix), Lifetime: p.Lifetime})
		}
	}
	return ra, false
}

// raString renders an RA for messages and for equality of what was built.
func raString(ra *ndp.RouterAdvertisement) string {
	if ra == nil {
		return "<nil>"
	}
	var b strings.Builder
	fmt.Fprintf(&b, "hop=%d M=%v O=%v pref=%v life=%v reach=%v retrans=%v HA=%v proxy=%v opts=[", ra.CurrentHopLimit, ra.ManagedConfiguration,
		ra.OtherConfiguration, ra.RouterSelectionPreference, ra.RouterLifetime, ra.ReachableTime, ra.RetransmitTimer, ra.MobileIPv6HomeAgent, ra.NeighborDiscoveryProxy)
	for i, o := range ra.Options {
		if i > 0 {
			b.WriteString("; ")
		}
		fmt.Fprintf(&b, "%T%+v", o, o)
	}
	b.WriteString("]")
	return b.String()
}

func vkPfx(s string) netip.Prefix { return netip.MustParsePrefix(s) }

// stFor derives the system state of the idx-th configured interface: real
// interfaces differ in hardware address and addresses, and configuration
// objects that are (wrongly) shared between interfaces only show up then.
func stFor(st sysState, idx int) sysState {
	out := st
	if len(st.MAC) > 0 {
		out.MAC = append([]byte(nil), st.MAC...)
		out.MAC[len(out.MAC)-1] ^= byte(idx + 1)
	}
	out.Addrs = append(append([]system.IP(nil), st.Addrs...), system.IP{
		Address:      netip.MustParsePrefix(fmt.Sprintf("2001:db8:a%s:ff%02x::1/64", map[bool]string{false: "", true: fmt.Sprintf("%02x", idx>>8)}[idx > 255], idx&0xff)),
		ValidForever: idx%2 == 0,
	})
	return out
}

// repeatLabels gives the first advertising interface options that share their label values without being
// neighbours in the RA: stanzas A, B, A' (the same servers / names as A, a lifetime of its own). At most one sample
// may be reported for them, and a real registry must still gather.
func (g *vg) repeatLabels(dp *dDoc) {
	t, d, s := g.t, dp, int64(time.Second)
	for i := range d.Interfaces {
		ifi := &d.Interfaces[i]
		if ifi.Advertise == nil || !*ifi.Advertise {
			continue
		}
		life := func(l string) dDur {
			n := rapid.SampledFrom([]int64{0, 600, 1800, 7200}).Draw(t, l) * s
			return dDur{Kind: "value", NS: n, Text: time.Duration(n).String()}
		}
		v6 := func(a string) dAddr { return dAddr{Text: a, Kind: "v6", Addr: a} }
		if len(ifi.Order) == 0 { // (an empty order means "kind by kind": spell it out before extending it)
			for kind, n := range []int{len(ifi.Prefixes), len(ifi.Routes), len(ifi.RDNSS), len(ifi.DNSSL), len(ifi.PREF64)} {
				for j := 0; j < n; j++ {
					ifi.Order = append(ifi.Order, kind)
				}
			}
		}
		if rapid.Bool().Draw(t, "repeat-rdnss") {
			a := []dAddr{v6("2001:db8::53"), v6("2001:db8::54")}
			ifi.RDNSS = append(ifi.RDNSS, dRDNSS{Lifetime: life("la"), Servers: a}, dRDNSS{Lifetime: life("lb"), Servers: []dAddr{v6("fd00::53")}},
				dRDNSS{Lifetime: life("la2"), Servers: []dAddr{a[1], a[0]}})
			ifi.Order = append(ifi.Order, 2, 2, 2)
		} else {
			ifi.DNSSL = append(ifi.DNSSL, dDNSSL{Lifetime: life("la"), Domains: []string{"lan", "example.com"}, HasKey: true}, dDNSSL{Lifetime: life("lb"), Domains: []string{"corp.example.net"}, HasKey: true},
				dDNSSL{Lifetime: life("la2"), Domains: []string{"lan", "example.com"}, HasKey: true})
			ifi.Order = append(ifi.Order, 3, 3, 3)
		}
		break
	}
}

package corerad

// C17: metrics and the debug API are always answerable and mirror the current
// RA. Configurations come from the shared TOML document model through
// config.Parse; advertisers run on virtual time against a dialer that only
// succeeds from a generated instant; scrapes and API requests are issued
// before, during and after. Oracle: no panic / no block; for initialised
// interfaces the samples and the JSON equal the RA computed from the document
// model and the system state at that instant.

import (
	"bytes"
	"encoding/json"
	"fmt"
	"io"
	"log"
	"math"
	"net"
	"net/http"
	"net/http/httptest"
	"runtime/debug"
	"slices"
	"sort"
	"strings"
	"sync"
	"testing"
	"time"

	"github.com/mdlayher/corerad/internal/config"
	"github.com/mdlayher/corerad/internal/crhttp"
	"github.com/mdlayher/corerad/internal/plugin"
	"github.com/mdlayher/corerad/internal/system"
	"github.com/mdlayher/corerad/internal/verifkit"
	"github.com/mdlayher/metricslite"
	"github.com/mdlayher/ndp"
	"github.com/prometheus/client_golang/prometheus"
	"github.com/prometheus/client_golang/prometheus/promhttp"
	"pgregory.net/rapid"
)

// vkPlug wraps a configured plugin so that Prepare wires the simulated
// operating-system sources instead of rtnetlink (everything else, including
// the behaviour before Prepare, is the wrapped plugin's own).
type vkPlug struct {
	plugin.Plugin
	cur      func() sysState // if set, the system state right now (overrides st)
	st       *sysState
	idx      int
	mu       *sync.Mutex
	prepared *time.Duration
	last     *time.Duration       // instant of the most recent Prepare of this interface (re-initialisations included)
	all      *[]time.Duration     // every Prepare instant of the run (any interface)
	delay    func() time.Duration // how long a lookup of addresses or routes takes right now, in real time (a slow netlink dump while requests overlap)
	w        func() time.Duration
}

func (p *vkPlug) Prepare(ifi *net.Interface) error {
	// between the wrapped Prepare (which wires rtnetlink) and the assignments below a
	// concurrent scrape would read the sandbox's own interfaces: a probe at this very
	// instant is not judged
	if p.last != nil {
		p.mu.Lock()
		*p.last = p.w()
		if p.all != nil {
			*p.all = append(*p.all, p.w())
		}
		p.mu.Unlock()
	}
	if err := p.Plugin.Prepare(ifi); err != nil {
		return err
	}
	state := func() sysState {
		if p.cur != nil {
			return p.cur()
		}
		return *p.st
	}
	slow := func() {
		if p.delay != nil {
			realSleep(p.delay())
		}
	}
	addrs := func() ([]system.IP, error) {
		slow()
		st := state()
		if st.AddrErr {
			return nil, fmt.Errorf("verif: injected address source failure")
		}
		return stFor(st, p.idx).Addrs, nil
	}
	routes := func() ([]system.Route, error) {
		slow()
		st := state()
		if st.RouteErr {
			return nil, fmt.Errorf("verif: injected route source failure")
		}
		return slices.Clone(st.Routes), nil
	}
	switch x := p.Plugin.(type) {
	case *plugin.Prefix:
		x.TimeNow, x.Addrs = time.Now, addrs
	case *plugin.Route:
		x.TimeNow, x.Routes = time.Now, routes
	case *plugin.RDNSS:
		x.Addrs = addrs
	}
	p.mu.Lock()
	if *p.prepared < 0 {
		*p.prepared = p.w()
	}
	p.mu.Unlock()
	return nil
}

type c17Case struct {
	Doc          dDoc     `json:"doc"`
	State        sysState `json:"state"`
	UpAtNS       int64    `json:"up_at_ns"`   // dial attempts succeed from this instant on; -1 never
	UpStepNS     int64    `json:"up_step_ns"` // the i-th configured interface comes up this much later than the previous one
	Links        []int64  `json:"link_events_ns"`
	Probes       []int64  `json:"probes_ns"`
	FwdFlips     []int64  `json:"forwarding_flips_ns"`
	StopNS       int64    `json:"stop_ns"`
	AddrChangeNS int64    `json:"addr_change_ns"` // >0: at this instant the first addr_drop addresses and routes disappear from the system
	AddrDrop     int      `json:"addr_drop"`
	StateErr     []int64  `json:"state_failure_toggles_ns"` // the State's forwarding read starts / stops failing at these instants
	Autoconf     []bool   `json:"autoconf"`                 // kernel autoconf value per interface (cyclic)
	Overlap      bool     `json:"overlapping_scrapes"`      // every probe also runs three scrapes that overlap in time
	// C01's advertiser half only: the interface is re-created between dials and comes back with another hardware
	// address (1: another 48-bit one per dial; 2: none on odd dials; 3: an 8-byte one on odd dials)
	MACMode int `json:"mac_mode,omitempty"`
}

// macOf is the hardware address the n-th dial of an interface reports under the case's MACMode.
func (c c17Case) macOf(iface string, n int) net.HardwareAddr {
	m := vkMACFor(iface)
	switch c.MACMode {
	case 1:
		m[3] = byte(n)
	case 2:
		if n%2 == 1 {
			return nil
		}
	case 3:
		if n%2 == 1 {
			return net.HardwareAddr{2, 0, 0, 0xff, 0xfe, 0, 0, byte(n)}
		}
	}
	return m
}

type c17Probe struct {
	At         time.Duration
	Prepared   map[string]bool
	Fwd        map[string]bool
	StateBad   bool
	Scrape     map[string]map[string]float64
	ScrapeErr  error
	GatherErr  error // what a real (pedantic) registry makes of the same scrape, taken right after it
	Panic      string
	APICode    int
	APIBody    []byte
	Metrics    int
	PProf      int
	PProfOther string        // a profiling route that is gated differently from the index
	Overlap    string        // non-empty: what went wrong with the overlapping scrapes
	OverlapAPI string        // non-empty: what went wrong with the overlapping debug API requests
	OverlapTo  time.Duration // virtual instant at which the last overlapping scrape had finished (one slow state read per interface)
	End        time.Duration // virtual instant at which the scrape and the requests of the probe proper had been answered
}

// c17StateAt is the system state at virtual time at (ambiguous exactly at the change).
func c17StateAt(c c17Case, at time.Duration) (sysState, bool) {
	st := c.State
	if c.AddrChangeNS > 0 && at >= time.Duration(c.AddrChangeNS) {
		st.Addrs = st.Addrs[min(c.AddrDrop, len(st.Addrs)):]
		st.Routes = st.Routes[min(c.AddrDrop, len(st.Routes)):]
	}
	return st, c.AddrChangeNS > 0 && at == time.Duration(c.AddrChangeNS)
}

func c17Expected(ri rIface, st sysState, epoch time.Time) (*ndp.RouterAdvertisement, bool) {
	return expectRA(ri, st, epoch)
}

func secs(d time.Duration) float64 { return d.Seconds() }

func c17Prop(t *testing.T, k *verifkit.Kit) func(c c17Case) error {
	return func(c c17Case) error {
		text := c.Doc.render()
		var probes []c17Probe
		var ref refResult
		var parseErr error
		var promErr error
		var promPanic string
		var ifaces []config.Interface
		accepted := false
		// the bubble's clock always starts at 2000-01-01T00:00:00Z; parse outside of
		// the bubble (Parse resolves the debug address through package net's
		// process-wide resolver state, which must not be touched from a bubble)
		epoch := time.Unix(946684800, 0)
		ref = reference(c.Doc, epoch)
		cfg, err := config.Parse(strings.NewReader(text), epoch)
		parseErr = err
		if err != nil || ref.V != vAccept || len(cfg.Interfaces) != len(ref.Cfg.Interfaces) {
			k.Record(c, false, "not-an-accepted-configuration")
			return nil
		}
		accepted = true
		var allPrep []time.Duration // every instant at which an interface was (re-)initialised
		leaked, pan := bubble(t, func() {
			if !time.Now().Equal(epoch) {
				panic(fmt.Sprintf("verif: bubble clock starts at %v", time.Now()))
			}
			st := c.State
			st.MAC = vkIfiMAC
			w := newSimWorld(nil)
			var mu sync.Mutex
			prepared := map[string]*time.Duration{}
			lastPrep := map[string]*time.Duration{}
			allPrep = nil
			for i := range cfg.Interfaces {
				ifi := &cfg.Interfaces[i]
				p, lp := time.Duration(-1), time.Duration(-1)
				if len(ifi.Plugins) == 0 {
					p = 0 // (nothing to prepare: its RA can be generated from the start, and is judged from the start)
				}
				prepared[ifi.Name] = &p
				lastPrep[ifi.Name] = &lp
				for j := range ifi.Plugins {
					ifi.Plugins[j] = &vkPlug{Plugin: ifi.Plugins[j], st: &st, idx: i, mu: &mu, prepared: prepared[ifi.Name], last: lastPrep[ifi.Name], all: &allPrep, w: w.now, delay: func() time.Duration { w.mu.Lock(); defer w.mu.Unlock(); return w.stDelay },
						cur: func() sysState { s, _ := c17StateAt(c, w.now()); return s }}
				}
				w.fwd[ifi.Name] = st.Fwd
				if len(c.Autoconf) > 0 {
					w.autoc[ifi.Name] = c.Autoconf[i%len(c.Autoconf)]
				}
			}
			ifaces = cfg.Interfaces
			// as cmd/corerad/main.go wires it: the same config.Interface values everywhere
			w.mem = metricslite.NewMemory()
			w.mm = NewMetrics(w.mem, "verif", time.Time{}, simState{w}, cfg.Interfaces)
			w.cctx = NewContext(log.New(w.logs, "", 0), w.mm, simState{w})
			reg := prometheus.NewPedanticRegistry()
			NewMetrics(metricslite.NewPrometheus(reg), "verif", time.Time{}, simState{w}, cfg.Interfaces)
			h := crhttp.NewHandler(log.New(io.Discard, "", 0), simState{w}, *cfg, promhttp.HandlerFor(reg, promhttp.HandlerOpts{}))
			ifIndex := map[string]int{}
			for i, ifi := range cfg.Interfaces {
				ifIndex[ifi.Name] = i
			}
			w.dialResultFor = func(iface string, _ int) error {
				if c.UpAtNS < 0 || w.now() < time.Duration(c.UpAtNS+int64(ifIndex[iface])*c.UpStepNS) {
					return vkErrOf("notready")
				}
				return nil
			}
			var runs []*simRun
			var watch []chan<- struct{}
			_ = watch
			var watchCs []chan struct{}
			_ = watchCs
			type lw struct{ c chan<- struct{} }
			linkCs := []func(){}
			for _, ifi := range cfg.Interfaces {
				if !ifi.Advertise {
					continue
				}
				wc := newWatchC()
				a := NewAdvertiser(w.cctx, ifi, w.newDialer(ifi.Name, system.Advertise), wc, func() bool { return false })
				runs = append(runs, w.start(a))
				linkCs = append(linkCs, func() {
					select {
					case wc <- 1:
					default:
					}
				})
			}
			type tev struct {
				at   int64
				kind int
			}
			var evs []tev
			for _, x := range c.Links {
				evs = append(evs, tev{x, 0})
			}
			for _, x := range c.FwdFlips {
				evs = append(evs, tev{x, 1})
			}
			for _, x := range c.Probes {
				evs = append(evs, tev{x, 2})
			}
			for _, x := range c.StateErr {
				evs = append(evs, tev{x, 3})
			}
			sort.SliceStable(evs, func(i, j int) bool { return evs[i].at < evs[j].at })
			for _, e := range evs {
				if d := time.Duration(e.at) - w.now(); d > 0 {
					time.Sleep(d)
				}
				switch e.kind {
				case 0:
					for _, f := range linkCs {
						f()
					}
				case 1:
					for _, ifi := range cfg.Interfaces {
						w.setForwarding(ifi.Name, !w.forwarding(ifi.Name))
					}
				case 3:
					w.mu.Lock()
					if w.fwdErr == nil {
						w.fwdErr = fmt.Errorf("verif: injected State read failure")
					} else {
						w.fwdErr = nil
					}
					w.events = append(w.events, fmt.Sprintf("%v state failing=%v", w.now(), w.fwdErr != nil))
					w.mu.Unlock()
				case 2:
					p := c17Probe{At: w.now(), Prepared: map[string]bool{}, Fwd: map[string]bool{}}
					w.mu.Lock()
					p.StateBad = w.fwdErr != nil
					w.mu.Unlock()
					mu.Lock()
					for n, v := range prepared {
						p.Prepared[n] = *v >= 0 && *v < p.At // a Prepare at this very instant may be in progress
						if *v == p.At {
							p.Prepared[n+"/ambiguous"] = true
						}
					}
					mu.Unlock()
					for _, ifi := range cfg.Interfaces {
						p.Fwd[ifi.Name] = w.forwarding(ifi.Name)
					}
					func() {
						defer func() {
							if r := recover(); r != nil {
								p.Panic = fmt.Sprintf("scrape panicked: %v\n%s", r, firstLines(string(debug.Stack()), 25))
							}
						}()
						p.Scrape, p.ScrapeErr = vkScrape(w.mm)
						_, p.GatherErr = reg.Gather()
					}()
					func() {
						defer func() {
							if r := recover(); r != nil {
								p.Panic += fmt.Sprintf("debug API panicked: %v\n%s", r, firstLines(string(debug.Stack()), 25))
							}
						}()
						rec := httptest.NewRecorder()
						h.ServeHTTP(rec, httptest.NewRequest("GET", "/_/api/interfaces", nil))
						p.APICode, p.APIBody = rec.Code, rec.Body.Bytes()
						rec = httptest.NewRecorder()
						h.ServeHTTP(rec, httptest.NewRequest("GET", "/metrics", nil))
						p.Metrics = rec.Code
						rec = httptest.NewRecorder()
						h.ServeHTTP(rec, httptest.NewRequest("GET", "/debug/pprof/", nil))
						p.PProf = rec.Code
						// (the two other profiling routes that answer at once; profile and trace sample for seconds)
						for _, route := range []string{"/debug/pprof/cmdline", "/debug/pprof/symbol"} {
							rec = httptest.NewRecorder()
							h.ServeHTTP(rec, httptest.NewRequest("GET", route, nil))
							if rec.Code != p.PProf {
								p.PProfOther = fmt.Sprintf("GET %s -> %d, GET /debug/pprof/ -> %d", route, rec.Code, p.PProf)
							}
						}
					}()
					p.End = w.now()
					// (two rounds: three requests 40 us of real time apart, then two requests 80 us apart - with three, what one request
					// overwrites in shared state another may put back before the first looks again)
					for _, offs := range [][]time.Duration{{0, 40 * time.Microsecond, 80 * time.Microsecond}, {0, 80 * time.Microsecond}} {
						if !(c.Overlap && p.Panic == "" && p.ScrapeErr == nil) {
							break
						}
						{
							// last in the probe (it takes a few virtual milliseconds): three scrapes that overlap in time (two Prometheus servers, a slow sysctl read):
							// each one on its own must be as complete as a scrape that runs alone
							// (all waiting in here is in real time - realSleep - so that an implementation which holds a lock
							// across a lookup serialises the requests instead of wedging the bubble)
							w.mu.Lock()
							old, oldReal := w.stDelay, w.stDelayReal
							w.stDelay, w.stDelayReal = 60*time.Microsecond, true
							w.mu.Unlock()
							var wg sync.WaitGroup
							outs := make([]map[string]map[string]float64, len(offs))
							errs := make([]error, len(offs))
							for gi := range offs {
								wg.Add(1)
								go func() {
									defer wg.Done()
									defer func() {
										if r := recover(); r != nil {
											errs[gi] = fmt.Errorf("panic: %v", r)
										}
									}()
									realSleep(offs[gi])
									outs[gi], errs[gi] = vkScrape(w.mm)
								}()
							}
							wg.Wait()
							// ... and three requests to the debug API that overlap in the same way: each answer must be
							// the one a request that ran alone got (judged only when no advertised value depends on time)
							if p.APICode == http.StatusOK {
								bodies, codes := make([][]byte, len(offs)), make([]int, len(offs))
								for gi := range offs {
									wg.Add(1)
									go func() {
										defer wg.Done()
										defer func() {
											if r := recover(); r != nil {
												codes[gi] = -1
												bodies[gi] = []byte(fmt.Sprintf("panic: %v", r))
											}
										}()
										realSleep(offs[gi])
										rec := httptest.NewRecorder()
										h.ServeHTTP(rec, httptest.NewRequest("GET", "/_/api/interfaces", nil))
										codes[gi], bodies[gi] = rec.Code, rec.Body.Bytes()
									}()
								}
								wg.Wait()
								for gi := range bodies {
									if codes[gi] != p.APICode || !bytes.Equal(bodies[gi], p.APIBody) {
										p.OverlapAPI = fmt.Sprintf("overlapping request %d to /_/api/interfaces -> %d\n%s\nthe request that ran alone -> %d\n%s", gi, codes[gi], bodies[gi], p.APICode, p.APIBody)
									}
								}
							}
							p.OverlapTo = w.now()
							w.mu.Lock()
							w.stDelay, w.stDelayReal = old, oldReal
							w.mu.Unlock()
							keys := func(m map[string]map[string]float64) string {
								var ks []string
								for series, samples := range m {
									for k := range samples {
										ks = append(ks, series+"{"+k+"}")
									}
								}
								sort.Strings(ks)
								return strings.Join(ks, "\n")
							}
							for gi := range outs {
								if errs[gi] != nil {
									p.Overlap = fmt.Sprintf("overlapping scrape %d failed: %v", gi, errs[gi])
								} else if a, b := keys(p.Scrape), keys(outs[gi]); a != b {
									p.Overlap = fmt.Sprintf("overlapping scrape %d reports a different set of samples than the scrape that ran alone:\nalone:\n%s\noverlapping:\n%s", gi, a, b)
								}
							}
						}
					}
					// a (re-)initialisation at the very instant of the probe, before or after it started
					mu.Lock()
					for n, v := range lastPrep {
						if *v == p.At {
							p.Prepared[n+"/ambiguous"] = true
						}
					}
					mu.Unlock()
					probes = append(probes, p)
				}
			}
			// one real Prometheus gather, as a scrape of the daemon would do
			func() {
				defer func() {
					if r := recover(); r != nil {
						promPanic = fmt.Sprintf("registry.Gather panicked: %v\n%s", r, firstLines(string(debug.Stack()), 25))
					}
				}()
				_, promErr = reg.Gather()
			}()
			if d := time.Duration(c.StopNS) - w.now(); d > 0 {
				time.Sleep(d)
			}
			for _, r := range runs {
				r.cancel()
			}
			for _, r := range runs {
				r.waitDone(30 * time.Second)
			}
		})
		_ = leaked
		if pan != nil {
			return verifkit.Violf("panic", "panic in bubble (a panic in a collector or handler goroutine kills the daemon): %v\n%s", pan, text)
		}
		if !accepted {
			k.Record(c, false, "not-an-accepted-configuration")
			_ = parseErr
			return nil
		}
		// classification
		hasP64, hasWild, hasDep := false, false, false
		for _, ri := range ref.Cfg.Interfaces {
			for _, p := range ri.Plugins {
				hasP64 = hasP64 || p.Kind == "pref64"
				hasWild = hasWild || p.Auto
				hasDep = hasDep || p.Deprecated
			}
		}
		points := map[string]bool{}
		for _, p := range probes {
			all, none := true, true
			for _, ri := range ref.Cfg.Interfaces {
				if ri.Advertise {
					if p.Prepared[ri.Name] {
						none = false
					} else {
						all = false
					}
				}
			}
			switch {
			case none:
				points["never-initialised"] = true
			case all:
				points["initialised"] = true
			default:
				points["partly-initialised"] = true
			}
		}
		cls := []string{}
		for p := range points {
			cls = append(cls, "point="+p)
		}
		if hasP64 {
			cls = append(cls, "pref64")
		}
		if hasWild {
			cls = append(cls, "wildcard")
		}
		if hasDep {
			cls = append(cls, "deprecated")
		}
		modes := map[string]bool{}
		afterAdv := false
		for i, ri := range ref.Cfg.Interfaces {
			switch {
			case ri.Advertise:
				modes["advertise"] = true
			case ri.Monitor:
				modes["monitor"] = true
			default:
				modes["idle"] = true
			}
			if !ri.Advertise && i > 0 && ref.Cfg.Interfaces[i-1].Advertise {
				afterAdv = true
			}
		}
		if len(modes) > 1 {
			cls = append(cls, "mixed-interface-modes")
		}
		if afterAdv {
			cls = append(cls, "non-advertising-after-advertising")
		}
		k.Record(c, hasP64 || ((hasWild || hasDep) && len(points) >= 2), cls...)

		if promPanic != "" {
			return verifkit.Violf("C17/prometheus-gather-panics", "%s\n%s", promPanic, text)
		}
		debugCfg := ref.Cfg.Debug
		for _, p := range probes {
			if p.Overlap != "" || (p.OverlapAPI != "" && !hasDep) {
				// (only when no link event or address change falls into the few milliseconds of the overlap)
				// the overlap lasts as long as the slowest scrape: one 1 ms state read per interface
				span := max(10*time.Millisecond, p.OverlapTo-p.At+time.Millisecond)
				quiet := true
				for _, x := range append(append(append([]int64(nil), c.Links...), c.FwdFlips...), c.AddrChangeNS) {
					if d := time.Duration(x) - p.At; d >= -time.Millisecond && d <= span {
						quiet = false
					}
				}
				for _, x := range c.StateErr {
					if d := time.Duration(x) - p.At; d >= -time.Millisecond && d <= span {
						quiet = false
					}
				}
				// an interface that is being (re-)initialised while the scrapes run (the dialer retries on its own
				// schedule: 0, 250 ms, 750 ms, ...) changes what a scrape reports, and the wrapped Prepare has a
				// window in which the plugin still reads the sandbox's own tables
				for _, x := range allPrep {
					if d := x - p.At; d >= -time.Millisecond && d <= span {
						quiet = false
					}
				}
				if time.Duration(c.UpAtNS)+time.Duration(len(ref.Cfg.Interfaces))*time.Duration(c.UpStepNS) >= p.At-time.Millisecond && time.Duration(c.UpAtNS) <= p.At+span {
					quiet = false
				}
				if quiet && p.Overlap != "" {
					return verifkit.Violf("C17/overlapping-scrapes-differ", "probe at %v: %s\n%s", p.At, p.Overlap, text)
				}
				if quiet && p.OverlapAPI != "" && !hasDep {
					return verifkit.Violf("C17/overlapping-api-requests-differ", "probe at %v: %s\n%s", p.At, p.OverlapAPI, text)
				}
			}
			if p.Panic != "" {
				sig := "C17/scrape-or-api-panics"
				switch {
				case strings.Contains(firstLines(p.Panic, 1), "unhandled NDP option"):
					sig = "C17/api-cannot-render-option"
				case strings.Contains(p.Panic, "nil pointer") || strings.Contains(p.Panic, "invalid memory address"):
					sig = "C17/panic-before-interface-initialised"
				}
				return verifkit.Violf(sig, "probe at %v (prepared %v): %s\n%s", p.At, p.Prepared, p.Panic, text)
			}
			wantMetrics, wantPProf := http.StatusNotFound, http.StatusNotFound
			if ref.Cfg.DebugSpec && debugCfg.Prometheus {
				wantMetrics = 0 // any answer from the collector (200, or 500 when a collector errors)
			}
			if ref.Cfg.DebugSpec && debugCfg.PProf {
				wantPProf = http.StatusOK
			}
			if wantMetrics != 0 && p.Metrics != wantMetrics || wantMetrics == 0 && p.Metrics == http.StatusNotFound {
				return verifkit.Violf("C17/metrics-route-gating", "GET /metrics -> %d (prometheus enabled: %v)\n%s", p.Metrics, ref.Cfg.DebugSpec && debugCfg.Prometheus, text)
			}
			if p.PProf != wantPProf {
				return verifkit.Violf("C17/pprof-route-gating", "GET /debug/pprof/ -> %d (pprof enabled: %v)\n%s", p.PProf, ref.Cfg.DebugSpec && debugCfg.PProf, text)
			}
			if p.PProfOther != "" {
				return verifkit.Violf("C17/pprof-route-gating", "%s (pprof enabled: %v)\n%s", p.PProfOther, ref.Cfg.DebugSpec && debugCfg.PProf, text)
			}
			// expected content
			allReady, ambiguous := true, false
			// an interface that is being (re-)initialised while the probe's requests are answered - also long after the
			// link event that caused it: the advertiser first finishes what it was doing - changes what they report, and the
			// wrapped Prepare has a moment in which the plugin still reads the sandbox's own tables (false alarm of
			// background run 20, section 9)
			for _, x := range allPrep {
				if x >= p.At-time.Millisecond && x <= max(p.End, p.At)+time.Millisecond {
					ambiguous = true
				}
			}
			type expIf struct {
				ri  rIface
				ra  *ndp.RouterAdvertisement
				err bool
			}
			var exps []expIf
			for ifIdx, ri := range ref.Cfg.Interfaces {
				e := expIf{ri: ri}
				if ri.Advertise {
					if p.Prepared[ri.Name+"/ambiguous"] {
						ambiguous = true
					}
					if !p.Prepared[ri.Name] {
						allReady = false
					}
					base, amb := c17StateAt(c, p.At)
					if amb {
						ambiguous = true
					}
					st := stFor(base, ifIdx)
					st.MAC = vkMACFor(ri.Name)
					st.Fwd = p.Fwd[ri.Name]
					st.NowNS = int64(p.At)
					e.ra, e.err = expectRA(ri, st, time.Unix(946684800, 0))
				}
				exps = append(exps, e)
			}
			if p.StateBad {
				if p.ScrapeErr == nil || p.APICode == 200 {
					advertising := false
					for _, e := range exps {
						advertising = advertising || e.ri.Advertise
					}
					if p.ScrapeErr == nil || (advertising && p.APICode == 200) {
						return verifkit.Violf("C17/state-failure-hidden", "probe at %v: the forwarding state cannot be read, yet scrape error=%v API status=%d\n%s", p.At, p.ScrapeErr, p.APICode, text)
					}
				}
				continue // reported as an error, no crash: fine
			}
			// the error alternative must be an error for whoever scrapes: what the collector returns and what a real
			// registry reports for the same instant agree on failure (an error of a type the metrics library does not
			// recognise is dropped there, and the scrape "succeeds" with the interface - and all after it - missing)
			if !ambiguous && p.Panic == "" && (p.ScrapeErr != nil) != (p.GatherErr != nil) && !(p.GatherErr != nil && strings.Contains(p.GatherErr.Error(), "collected before")) {
				return verifkit.Violf("C17/scrape-error-not-reported", "probe at %v: the collector returned %v, a real registry gathering at the same instant reported %v\n%s", p.At, p.ScrapeErr, p.GatherErr, text)
			}
			if ambiguous || !allReady {
				continue // an error (not a crash) is the acceptable alternative before initialisation
			}
			anyErr := false
			for _, e := range exps {
				anyErr = anyErr || e.err
			}
			if anyErr {
				if p.ScrapeErr == nil {
					return verifkit.Violf("C17/scrape-hides-generation-error", "RA generation must fail for an interface, but the scrape reported no error\n%s", text)
				}
				continue
			}
			if p.ScrapeErr != nil {
				return verifkit.Violf("C17/scrape-error", "probe at %v: scrape failed although every interface is initialised: %v\n%s", p.At, p.ScrapeErr, text)
			}
			want := map[string]map[string]float64{}
			for _, n := range vkConstNames {
				want[n] = map[string]float64{}
			}
			// Two options with the same label identity (two RDNSS stanzas listing the same
			// servers, a wildcard prefix that is also configured statically, ...) cannot both
			// have a sample: one sample with the value of one of them is what a scrape can
			// carry, and the scrape as a whole must still succeed (defect F19).
			alt := map[string]map[string][]float64{}
			put := func(series, key string, v float64) {
				if _, ok := want[series][key]; ok {
					if alt[series] == nil {
						alt[series] = map[string][]float64{}
					}
					alt[series][key] = append(alt[series][key], v)
					return
				}
				want[series][key] = v
			}
			b2f := func(b bool) float64 {
				if b {
					return 1
				}
				return 0
			}
			for _, e := range exps {
				n := e.ri.Name
				put(ifiAdvertising, n, b2f(e.ri.Advertise))
				put(ifiMonitoring, n, b2f(e.ri.Monitor))
				put(ifiForwarding, n, b2f(p.Fwd[n]))
				auto := true
				if len(c.Autoconf) > 0 {
					for i, ri := range ref.Cfg.Interfaces {
						if ri.Name == n {
							auto = c.Autoconf[i%len(c.Autoconf)]
						}
					}
				}
				put(ifiAutoconfiguration, n, b2f(auto))
				if e.ra == nil {
					continue
				}
				if !p.Fwd[n] && e.ri.DefaultLifetime > 0 {
					put(advMisconfiguration, n+"|interface_not_forwarding", 1)
				}
				for _, o := range e.ra.Options {
					switch o := o.(type) {
					case *ndp.PrefixInformation:
						key := n + "|" + fmt.Sprintf("%s/%d", o.Prefix, o.PrefixLength)
						put(advPrefixAutonomous, key, b2f(o.AutonomousAddressConfiguration))
						put(advPrefixOnLink, key, b2f(o.OnLink))
						put(advPrefixValid, key, secs(o.ValidLifetime))
						put(advPrefixPreferred, key, secs(o.PreferredLifetime))
					case *ndp.RouteInformation:
						put(advRouteLifetime, n+"|"+fmt.Sprintf("%s/%d", o.Prefix, o.PrefixLength), secs(o.RouteLifetime))
					case *ndp.RecursiveDNSServer:
						var ss []string
						for _, s := range o.Servers {
							ss = append(ss, s.String())
						}
						put(advRDNSSLifetime, n+"|"+strings.Join(ss, ", "), secs(o.Lifetime))
					case *ndp.DNSSearchList:
						put(advDNSSLLifetime, n+"|"+strings.Join(o.DomainNames, ", "), secs(o.Lifetime))
					}
				}
			}
			if ref.Cfg.DebugSpec && debugCfg.Prometheus && p.Metrics != http.StatusOK {
				return verifkit.Violf("C17/metrics-endpoint-fails", "probe at %v: every interface is initialised, yet GET /metrics -> %d\n%s", p.At, p.Metrics, text)
			}
			for _, series := range vkConstNames {
				for key, vs := range alt[series] {
					// which of the colliding options is reported is not prescribed
					k.Class("duplicate-label-identity")
					if got, ok := p.Scrape[series][key]; ok {
						for _, v := range vs {
							if got == v {
								want[series][key] = v
							}
						}
					}
				}
				if g, w := fmtSamples(p.Scrape[series]), fmtSamples(want[series]); g != w {
					return verifkit.Violf("C17/metrics-differ:"+series, "probe at %v: %s\nwant %s\ngot  %s\n%s", p.At, series, w, g, text)
				}
			}
			// JSON
			if p.APICode != 200 {
				return verifkit.Violf("C17/api-error", "probe at %v: GET /_/api/interfaces -> %d %s\n%s", p.At, p.APICode, p.APIBody, text)
			}
			var body struct {
				Interfaces []struct {
					Interface     string          `json:"interface"`
					Advertise     bool            `json:"advertise"`
					Advertisement json.RawMessage `json:"advertisement"`
				} `json:"interfaces"`
			}
			if err := json.Unmarshal(p.APIBody, &body); err != nil || len(body.Interfaces) != len(exps) {
				return verifkit.Violf("C17/api-body", "probe at %v: bad body (%v): %s\n%s", p.At, err, p.APIBody, text)
			}
			for i, e := range exps {
				got := body.Interfaces[i]
				if got.Interface != e.ri.Name || got.Advertise != e.ri.Advertise {
					return verifkit.Violf("C17/api-body", "interface %d: want %s advertise=%v, got %s %v", i, e.ri.Name, e.ri.Advertise, got.Interface, got.Advertise)
				}
				if e.ra == nil {
					if string(got.Advertisement) != "null" {
						return verifkit.Violf("C17/api-body", "interface %s does not advertise but has an advertisement: %s", e.ri.Name, got.Advertisement)
					}
					continue
				}
				if err := c17CompareJSON(e.ra, got.Advertisement); err != nil {
					v := err.(*verifkit.Violation)
					return verifkit.Violf(v.Sig, "probe at %v interface %s: %s\nJSON %s\nRA   %s\n%s", p.At, e.ri.Name, v.Msg, got.Advertisement, raStr(e.ra), text)
				}
			}
		}
		if promErr != nil && (strings.Contains(promErr.Error(), "collected before") || strings.Contains(promErr.Error(), "duplicate")) {
			// (a gather error for a not-yet-initialised interface or a failing source is the acceptable
			// alternative and is judged by the probes above; a label collision is not)
			return verifkit.Violf("C17/scrape-fails-on-duplicate-labels", "a real registry cannot be gathered: %v\n%s", promErr, text)
		}
		_ = ifaces
		return nil
	}
}

func firstLines(s string, n int) string {
	l := strings.Split(s, "\n")
	if len(l) > n {
		l = l[:n]
	}
	return strings.Join(l, "\n")
}

// c17CompareJSON checks the debug API rendering of one RA.
func c17CompareJSON(ra *ndp.RouterAdvertisement, raw json.RawMessage) error {
	var j struct {
		Hop     int    `json:"current_hop_limit"`
		M       bool   `json:"managed_configuration"`
		O       bool   `json:"other_configuration"`
		Pref    string `json:"router_selection_preference"`
		Life    int    `json:"router_lifetime_seconds"`
		Reach   int    `json:"reachable_time_milliseconds"`
		Retrans int    `json:"retransmit_timer_milliseconds"`
		Options struct {
			DNSSL []struct {
				Life    int      `json:"lifetime_seconds"`
				Domains []string `json:"domain_names"`
			} `json:"dnssl"`
			MTU      int `json:"mtu"`
			Prefixes []struct {
				Prefix string `json:"prefix"`
				OnLink bool   `json:"on_link"`
				Auto   bool   `json:"autonomous_address_autoconfiguration"`
				Valid  int    `json:"valid_lifetime_seconds"`
				Pref   int    `json:"preferred_lifetime_seconds"`
			} `json:"prefixes"`
			RDNSS []struct {
				Life    int      `json:"lifetime_seconds"`
				Servers []string `json:"servers"`
			} `json:"rdnss"`
			Routes []struct {
				Prefix string `json:"prefix"`
				Pref   string `json:"preference"`
				Life   int    `json:"route_lifetime_seconds"`
			} `json:"routes"`
			SLLA string `json:"source_link_layer_address"`
			CP   string `json:"captive_portal"`
		} `json:"options"`
	}
	if err := json.Unmarshal(raw, &j); err != nil {
		return verifkit.Violf("C17/api-body", "cannot decode advertisement: %v", err)
	}
	got := fmt.Sprintf("hop=%d M=%v O=%v pref=%s life=%d reach=%d retrans=%d", j.Hop, j.M, j.O, j.Pref, j.Life, j.Reach, j.Retrans)
	want := fmt.Sprintf("hop=%d M=%v O=%v pref=%s life=%d reach=%d retrans=%d", ra.CurrentHopLimit, ra.ManagedConfiguration, ra.OtherConfiguration,
		strings.ToLower(ra.RouterSelectionPreference.String()), int(ra.RouterLifetime.Seconds()), int(ra.ReachableTime.Milliseconds()), int(ra.RetransmitTimer.Milliseconds()))
	if got != want {
		return verifkit.Violf("C17/api-header-differs", "header want %s got %s", want, got)
	}
	var wo, gopts []string
	for _, o := range ra.Options {
		switch o := o.(type) {
		case *ndp.PrefixInformation:
			wo = append(wo, fmt.Sprintf("prefix %s/%d %v %v %d %d", o.Prefix, o.PrefixLength, o.OnLink, o.AutonomousAddressConfiguration, int(o.ValidLifetime.Seconds()), int(o.PreferredLifetime.Seconds())))
		case *ndp.RouteInformation:
			wo = append(wo, fmt.Sprintf("route %s/%d %s %d", o.Prefix, o.PrefixLength, strings.ToLower(o.Preference.String()), int(o.RouteLifetime.Seconds())))
		case *ndp.RecursiveDNSServer:
			wo = append(wo, fmt.Sprintf("rdnss %d %v", int(o.Lifetime.Seconds()), o.Servers))
		case *ndp.DNSSearchList:
			wo = append(wo, fmt.Sprintf("dnssl %d %v", int(o.Lifetime.Seconds()), o.DomainNames))
		case *ndp.MTU:
			wo = append(wo, fmt.Sprintf("mtu %d", o.MTU))
		case *ndp.LinkLayerAddress:
			wo = append(wo, "slla "+o.Addr.String())
		case *ndp.CaptivePortal:
			wo = append(wo, "cp "+o.URI)
		case *ndp.PREF64:
			// the rendering of PREF64 is not prescribed; it must be present: prefix and lifetime appear in the JSON
			if !strings.Contains(string(raw), o.Prefix.String()) {
				return verifkit.Violf("C17/api-omits-pref64", "PREF64 %v is not rendered", o.Prefix)
			}
			if !strings.Contains(string(raw), fmt.Sprint(int(o.Lifetime.Seconds()))) {
				return verifkit.Violf("C17/api-omits-pref64", "PREF64 lifetime %v is not rendered", o.Lifetime)
			}
		}
	}
	for _, p := range j.Options.Prefixes {
		gopts = append(gopts, fmt.Sprintf("prefix %s %v %v %d %d", p.Prefix, p.OnLink, p.Auto, p.Valid, p.Pref))
	}
	for _, p := range j.Options.Routes {
		gopts = append(gopts, fmt.Sprintf("route %s %s %d", p.Prefix, p.Pref, p.Life))
	}
	for _, p := range j.Options.RDNSS {
		gopts = append(gopts, fmt.Sprintf("rdnss %d %v", p.Life, p.Servers))
	}
	for _, p := range j.Options.DNSSL {
		gopts = append(gopts, fmt.Sprintf("dnssl %d %v", p.Life, p.Domains))
	}
	if j.Options.MTU != 0 {
		gopts = append(gopts, fmt.Sprintf("mtu %d", j.Options.MTU))
	}
	if j.Options.SLLA != "" {
		gopts = append(gopts, "slla "+j.Options.SLLA)
	}
	if j.Options.CP != "" {
		gopts = append(gopts, "cp "+j.Options.CP)
	}
	if strings.Join(wo, " | ") != strings.Join(gopts, " | ") {
		return verifkit.Violf("C17/api-options-differ", "options want [%s] got [%s]", strings.Join(wo, " | "), strings.Join(gopts, " | "))
	}
	return nil
}

func c17Gen(t *rapid.T) c17Case {
	g := &vg{t: t}
	// a mix of advertising, monitoring and idle interfaces in any order (the first
	// document in three is all-advertising)
	d := g.genDoc(rapid.IntRange(0, 2).Draw(t, "all-advertise") == 0, 0)
	s := int64(time.Second)
	if rapid.IntRange(0, 4).Draw(t, "repeatlabels") == 0 {
		g.repeatLabels(&d)
	}
	c := c17Case{Doc: d, State: genSysState(t), Overlap: rapid.IntRange(0, 2).Draw(t, "overlap") == 0}
	c.State.NowNS = 0
	switch rapid.IntRange(0, 3).Draw(t, "up") {
	case 0:
		c.UpAtNS = -1
	case 1:
		c.UpAtNS = 0
	default:
		c.UpAtNS = rapid.Int64Range(0, 8*s).Draw(t, "upat")
	}
	if rapid.Bool().Draw(t, "staggered") {
		c.UpStepNS = rapid.SampledFrom([]int64{1, s, 3 * s}).Draw(t, "upstep")
	}
	for i, n := 0, rapid.IntRange(0, 2).Draw(t, "nlinks"); i < n; i++ {
		c.Links = append(c.Links, rapid.Int64Range(0, 12*s).Draw(t, "link"))
	}
	for i, n := 0, rapid.IntRange(0, 2).Draw(t, "nflips"); i < n; i++ {
		c.FwdFlips = append(c.FwdFlips, rapid.Int64Range(0, 12*s).Draw(t, "flip"))
	}
	if rapid.IntRange(0, 3).Draw(t, "statefail") == 0 {
		a := rapid.Int64Range(0, 10*s).Draw(t, "failfrom")
		c.StateErr = []int64{a, a + rapid.Int64Range(1, 4*s).Draw(t, "failfor")}
	}
	c.Autoconf = rapid.SliceOfN(rapid.Bool(), 0, 3).Draw(t, "autoconf")
	if rapid.Bool().Draw(t, "addrchange") {
		c.AddrChangeNS = rapid.Int64Range(1, 11*s).Draw(t, "addrchangeat")
		c.AddrDrop = rapid.IntRange(1, 3).Draw(t, "addrdrop")
	}
	c.Probes = []int64{0}
	for i, n := 0, rapid.IntRange(1, 5).Draw(t, "nprobes"); i < n; i++ {
		c.Probes = append(c.Probes, rapid.SampledFrom([]int64{1, 250 * int64(time.Millisecond), s, 3 * s, 8*s + 1, 12 * s}).Draw(t, "probe")+rapid.Int64Range(0, 999).Draw(t, "jitter"))
	}
	if c.UpAtNS >= 0 {
		c.Probes = append(c.Probes, c.UpAtNS, c.UpAtNS+1)
	}
	if len(c.StateErr) > 0 {
		c.Probes = append(c.Probes, c.StateErr[0]+1, c.StateErr[1]+1)
	}
	if c.AddrChangeNS > 0 {
		c.Probes = append(c.Probes, c.AddrChangeNS+1, c.AddrChangeNS+int64(time.Second))
	}
	c.StopNS = 13 * s
	return c
}

func TestVerif_C17(t *testing.T) {
	k := verifkit.Start(t, "C17")
	prop := c17Prop(t, k)
	k.Regress(t, func(sub string, raw json.RawMessage) error { return verifkit.Decode(raw, prop) })
	verifkit.Rapid(k, t, "configurations-x-lifecycle-x-probes", k.N(1500, 250000), c17Gen, prop)
}

func fmtSamples(m map[string]float64) string {
	var ks []string
	for k, v := range m {
		if math.IsNaN(v) {
			v = -999
		}
		ks = append(ks, fmt.Sprintf("%s=%v", k, v))
	}
	sort.Strings(ks)
	return strings.Join(ks, " ; ")
}

package corerad

// C01 (advertiser path): the ndp.Message handed to system.Conn.WriteTo by a
// real Advertiser equals the RA computed from the document model and the
// system state at that instant, for parsed TOML configurations including
// wildcard and deprecated stanzas (buildRA -> send is the only constructor
// used for sending). Same generator and world as C17.

import (
	"encoding/json"
	"fmt"
	"pgregory.net/rapid"
	"strings"
	"sync"
	"testing"
	"time"

	"github.com/mdlayher/corerad/internal/config"
	"github.com/mdlayher/corerad/internal/system"
	"github.com/mdlayher/corerad/internal/verifkit"
)

func c01AdvProp(t *testing.T, k *verifkit.Kit) func(c c17Case) error {
	return func(c c17Case) error {
		text := c.Doc.render()
		epoch := time.Unix(946684800, 0)
		ref := reference(c.Doc, epoch)
		cfg, err := config.Parse(strings.NewReader(text), epoch)
		if err != nil || ref.V != vAccept || len(cfg.Interfaces) != len(ref.Cfg.Interfaces) {
			k.Record(c, false, "not-an-accepted-configuration")
			return nil
		}
		type flip struct{ at time.Duration }
		var (
			w      *simWorld
			names  = map[int]string{} // conn id -> interface
			connMu sync.Mutex
		)
		st := c.State
		st.MAC = vkIfiMAC
		_, pan := bubble(t, func() {
			w = newSimWorld(nil)
			if c.MACMode != 0 {
				w.macFor = c.macOf
			}
			var mu sync.Mutex
			for i := range cfg.Interfaces {
				ifi := &cfg.Interfaces[i]
				p := time.Duration(-1)
				for j := range ifi.Plugins {
					ifi.Plugins[j] = &vkPlug{Plugin: ifi.Plugins[j], st: &st, idx: i, mu: &mu, prepared: &p, w: w.now,
						cur: func() sysState { s, _ := c17StateAt(c, w.now()); return s }}
				}
				w.fwd[ifi.Name] = st.Fwd
			}
			w.dialResult = func(int) error {
				if c.UpAtNS < 0 || w.now() < time.Duration(c.UpAtNS) {
					return vkErrOf("notready")
				}
				return nil
			}
			var runs []*simRun
			var links []func()
			for _, ifi := range cfg.Interfaces {
				if !ifi.Advertise {
					continue
				}
				ifi := ifi
				wc := newWatchC()
				d := w.newDialer(ifi.Name, system.Advertise)
				inner := d.DialFunc
				d.DialFunc = func() (*system.DialContext, error) {
					dc, err := inner()
					if err == nil {
						connMu.Lock()
						names[dc.Conn.(*simConn).id] = ifi.Name
						connMu.Unlock()
					}
					return dc, err
				}
				a := NewAdvertiser(w.cctx, ifi, d, wc, func() bool { return true })
				runs = append(runs, w.start(a))
				links = append(links, func() {
					select {
					case wc <- 1:
					default:
					}
				})
			}
			type tev struct {
				at   int64
				kind int
			}
			var evs []tev
			for _, x := range c.Links {
				evs = append(evs, tev{x, 0})
			}
			for _, x := range c.FwdFlips {
				evs = append(evs, tev{x, 1})
			}
			for _, x := range c.Probes {
				evs = append(evs, tev{x, 2}) // probes become solicitations
			}
			for i := 0; i < len(evs); i++ {
				for j := i + 1; j < len(evs); j++ {
					if evs[j].at < evs[i].at {
						evs[i], evs[j] = evs[j], evs[i]
					}
				}
			}
			for _, e := range evs {
				if d := time.Duration(e.at) - w.now(); d > 0 {
					time.Sleep(d)
				}
				switch e.kind {
				case 0:
					for _, f := range links {
						f()
					}
				case 1:
					for _, ifi := range cfg.Interfaces {
						w.setForwarding(ifi.Name, !w.forwarding(ifi.Name))
					}
					w.mu.Lock()
					w.events = append(w.events, fmt.Sprintf("FLIP %d", w.now()))
					w.mu.Unlock()
				case 2:
					w.mu.Lock()
					conns := append([]*simConn(nil), w.conns...)
					w.mu.Unlock()
					for _, cn := range conns {
						cn.deliver(simIn{Msg: vkRS(false), HopLimit: 255, From: vkAddr("fe80::5")})
					}
				}
			}
			if d := time.Duration(c.StopNS) - w.now(); d > 0 {
				time.Sleep(d)
			}
			for _, r := range runs {
				r.cancel()
			}
			for _, r := range runs {
				r.waitDone(30 * time.Second)
			}
		})
		if pan != nil || w == nil {
			return verifkit.Violf("panic", "panic in bubble: %v\n%s", pan, text)
		}
		// forwarding value over time (all interfaces flip together in this scenario)
		flips := append([]int64(nil), c.FwdFlips...)
		fwdAt := func(t0 time.Duration) (bool, bool) {
			v, amb := st.Fwd, false
			for _, f := range flips {
				switch {
				case time.Duration(f) < t0:
					v = !v
				case time.Duration(f) == t0:
					amb = true
				}
			}
			return v, amb
		}
		writes := w.writesCopy()
		byName := map[string]rIface{}
		idxOf := map[string]int{}
		for i, ri := range ref.Cfg.Interfaces {
			byName[ri.Name] = ri
			idxOf[ri.Name] = i
		}
		wild, dep, nwrites := false, false, 0
		for _, ri := range ref.Cfg.Interfaces {
			for _, p := range ri.Plugins {
				wild = wild || p.Auto
				dep = dep || p.Deprecated
			}
		}
		stopAt := time.Duration(c.StopNS)
		for i, x := range writes {
			ri, ok := byName[names[x.Conn]]
			if !ok {
				return verifkit.Violf("C01/unknown-connection", "write on an unknown connection %d", x.Conn)
			}
			f, amb := fwdAt(x.Start)
			if amb {
				continue
			}
			base, amb2 := c17StateAt(c, x.Start)
			if amb2 {
				continue
			}
			s2 := stFor(base, idxOf[ri.Name])
			s2.MAC = vkMACFor(ri.Name)
			if c.MACMode != 0 {
				w.mu.Lock()
				s2.MAC = w.connMAC[x.Conn] // what the interface reported when this connection was dialled
				w.mu.Unlock()
			}
			s2.Fwd, s2.NowNS = f, int64(x.Start)
			want, wantErr := expectRA(ri, s2, epoch)
			if wantErr {
				return verifkit.Violf("C01/ra-sent-although-generation-must-fail", "interface %s sent an RA at %v although a source fails / no RDNSS address is eligible: %s\n%s", ri.Name, x.Start, x.RA, text)
			}
			final := x.Start >= stopAt && x.Dst == vkAllNodes && (i == len(writes)-1 || writes[i+1].Conn != x.Conn) && x.Lifetime == 0
			if final {
				want.RouterLifetime = 0
			}
			nwrites++
			if got, w2 := x.RA, raStr(want); got != w2 {
				return verifkit.Violf("C01/transmitted-ra-differs", "interface %s, RA to %v at %v (forwarding=%v):\nwant %s\ngot  %s\n%s", ri.Name, x.Dst, x.Start, f, w2, got, text)
			}
		}
		cls := []string{fmt.Sprintf("transmitted-ras/4=%d", min(nwrites/4, 6))}
		if wild {
			cls = append(cls, "wildcard")
		}
		if dep {
			cls = append(cls, "deprecated")
		}
		k.Record(c, nwrites > 0 && (wild || dep), cls...)
		return nil
	}
}

func TestVerif_C01adv(t *testing.T) {
	k := verifkit.Start(t, "C01")
	prop := c01AdvProp(t, k)
	k.Regress(t, func(sub string, raw json.RawMessage) error {
		if !strings.HasPrefix(sub, "advertiser") {
			return nil
		}
		return verifkit.Decode(raw, prop)
	})
	gen := func(t *rapid.T) c17Case {
		c := c17Gen(t)
		if rapid.IntRange(0, 2).Draw(t, "macmode") == 0 {
			// the interface is re-created between two dials: another hardware address, none, or one that is not 48 bits long
			c.MACMode = rapid.IntRange(1, 3).Draw(t, "macmodev")
			if len(c.Links) == 0 && c.StopNS > int64(2*time.Second) {
				c.Links = []int64{c.StopNS / 2}
			}
		}
		return c
	}
	verifkit.Rapid(k, t, "advertiser-transmissions", k.N(1200, 150000), gen, prop)
}

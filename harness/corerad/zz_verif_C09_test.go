package corerad

// C09: invalid NDP messages are counted and otherwise ignored, and no number
// or pattern of them disrupts service. Oracle: differential against the same
// message sequence with the invalid messages deleted, plus the C07 matching
// rules for the valid solicitations and the invalid counter by type.

import (
	"encoding/json"
	"fmt"
	"sort"
	"strings"
	"testing"
	"time"

	"github.com/mdlayher/corerad/internal/verifkit"
	"pgregory.net/rapid"
)

type c09Case struct {
	Events  []advEvent `json:"events"`
	StopNS  int64      `json:"stop_ns"`
	Monitor bool       `json:"monitor"`
}

// c09Invalid reports whether the message fails validation on the given kind of interface.
func c09Invalid(e advEvent, monitor bool) bool {
	if e.Hop != 0 && e.Hop != 255 {
		return true
	}
	if monitor {
		return false
	}
	return e.Kind == "msg" && (e.Msg == "ns" || e.Msg == "na")
}

func c09Cfg() advCfg {
	c := c06BaseCfg(600)
	c.MinNS = int64(200 * time.Second)
	c.RA.Opts = append(c.RA.Opts, vOpt{Kind: "mtu", MTU: 1500})
	return c
}

// c09WriteSummary counts transmissions per destination and content. Multicast
// RAs are summarised by content only (count returned separately): how many of
// them serve k solicitations from :: depends on when those are read relative
// to a pending multicast RA, and the reader's lag legitimately differs between
// the two runs by the receive back-off.
func c09WriteSummary(ws []simWrite) (string, int) {
	m := map[string]int{}
	multicast := 0
	for _, w := range ws {
		if w.Dst == vkAllNodes {
			multicast++
			m[w.Dst.String()+" "+w.RA] = 1
			continue
		}
		m[w.Dst.String()+" "+w.RA]++
	}
	var ks []string
	for k, n := range m {
		ks = append(ks, fmt.Sprintf("%dx %s", n, k))
	}
	sort.Strings(ks)
	return strings.Join(ks, "\n"), multicast
}

func c09Prop(t *testing.T, k *verifkit.Kit) func(c c09Case) error {
	return func(c c09Case) error {
		var filtered []advEvent
		invalid := map[string]float64{}
		run, maxRun, followed := 0, 0, false
		for _, e := range c.Events {
			if e.Kind == "readerr" {
				// transient receive timeouts (fewer than 5 per receive) stay in the reference
				// sequence: their back-off legitimately delays the reads that follow
				filtered = append(filtered, e)
				continue
			}
			if c09Invalid(e, c.Monitor) {
				typ := e.Msg
				if e.Kind == "rs" {
					typ = "rs"
				}
				invalid[vkTypeName(typ)] += float64(max(e.N, 1))
				run += max(e.N, 1)
				maxRun = max(maxRun, run)
			} else {
				if run > 0 {
					followed = true
				}
				run = 0
				filtered = append(filtered, e)
			}
		}
		cls := []string{fmt.Sprintf("longest-invalid-run=%d", min(maxRun, 12)), fmt.Sprintf("monitor=%v", c.Monitor)}
		if maxRun >= 5 {
			cls = append(cls, "run>=retry-budget")
		}
		for _, e := range c.Events {
			if e.Kind == "readerr" {
				cls = append(cls, "with-receive-timeouts")
				break
			}
		}
		k.Record(c, followed, cls...)

		if c.Monitor {
			full := runMonitor(t, monScenario{Events: c.Events, StopNS: c.StopNS})
			ref := runMonitor(t, monScenario{Events: filtered, StopNS: c.StopNS})
			if full.Panic != nil {
				return verifkit.Violf("panic", "panic in bubble: %v", full.Panic)
			}
			tl := full.W.timeline()
			if full.Returned && full.RetAt < full.StopAt {
				return verifkit.Violf("C09/monitor-stopped", "Monitor.Run returned %v at %v, before the stop\n%s", full.RetErr, full.RetAt, tl)
			}
			if full.Conns != 1 {
				return verifkit.Violf("C09/monitor-redialed", "monitor opened %d connections: invalid messages disrupted it\n%s", full.Conns, tl)
			}
			// (the run without invalid messages is itself judged against the script, so that the comparison below is not
			// the implementation agreeing with itself: every message delivered before the stop reaches the consumer)
			var wantCB []string
			for _, d := range ref.Delivered {
				if d.Ev.Kind != "readerr" && d.At+time.Second < ref.StopAt {
					wantCB = append(wantCB, vkTypeName(d.Ev.Msg))
				}
			}
			if len(ref.Callbacks) < len(wantCB) || strings.Join(ref.Callbacks[:len(wantCB)], ",") != strings.Join(wantCB, ",") {
				return verifkit.Violf("C09/monitor-valid-message-not-served", "the monitor was sent %v (valid messages only), its consumer saw %v\n%s", wantCB, ref.Callbacks, ref.W.timeline())
			}
			if strings.Join(full.Callbacks, ",") != strings.Join(ref.Callbacks, ",") {
				return verifkit.Violf("C09/monitor-callbacks-differ", "messages delivered to the monitor differ from the sequence without invalid messages:\nwith    %v\nwithout %v\n%s", full.Callbacks, ref.Callbacks, tl)
			}
			for name, s := range ref.Series {
				if !strings.HasPrefix(name, "corerad_monitor_") {
					continue
				}
				if fmt.Sprint(s.Samples) != fmt.Sprint(full.Series[name].Samples) {
					return verifkit.Violf("C09/monitor-metrics-differ", "%s: with invalid messages %v, without %v\n%s", name, full.Series[name].Samples, s.Samples, tl)
				}
			}
			for typ, n := range invalid {
				if got := full.counter(msgInvalid, "interface=eth1,message="+typ); got != n {
					return verifkit.Violf("C09/invalid-counter", "messages_received_invalid_total{%s} = %v, want %v\n%s", typ, got, n, tl)
				}
			}
			for key, got := range full.Series[msgInvalid].Samples {
				typ := strings.TrimPrefix(key, "interface=eth1,message=")
				if invalid[typ] != got {
					return verifkit.Violf("C09/invalid-counter", "messages_received_invalid_total{%s} = %v, want %v\n%s", key, got, invalid[typ], tl)
				}
			}
			return nil
		}

		sc := advScenario{Cfg: c09Cfg(), Fwd0: true, Events: c.Events, StopNS: c.StopNS}
		full := runAdvertiser(t, sc, nil)
		sc2 := sc
		sc2.Events = filtered
		ref := runAdvertiser(t, sc2, nil)
		if full.Panic != nil || full.W == nil {
			return verifkit.Violf("panic", "panic in bubble: %v", full.Panic)
		}
		tl := full.W.timeline()
		if full.Returned && full.RetAt < full.StopAt {
			return verifkit.Violf("C09/advertiser-stopped", "Advertiser.Run returned %v at %v, before the stop\n%s", full.RetErr, full.RetAt, tl)
		}
		full.W.mu.Lock()
		nconns := len(full.W.conns)
		full.W.mu.Unlock()
		if nconns != 1 {
			return verifkit.Violf("C09/advertiser-redialed", "advertiser opened %d connections: invalid messages disrupted it\n%s", nconns, tl)
		}
		// valid solicitations are served, nothing else is transmitted (C07 rules)
		if err := c07Oracle(c07Case{Sc: sc, ForcedDraw: -1}, full, k); err != nil {
			v := err.(*verifkit.Violation)
			return verifkit.Violf("C09/"+strings.TrimPrefix(v.Sig, "C07/"), "%s", v.Msg)
		}
		a, ma := c09WriteSummary(full.Writes)
		b, mb := c09WriteSummary(ref.Writes)
		if a != b {
			return verifkit.Violf("C09/transmissions-differ", "transmissions differ from the sequence without invalid messages:\nwith:\n%s\nwithout:\n%s\n%s", a, b, tl)
		}
		// k valid solicitations from :: are served by 1..k multicast RAs in either run (C06, judged
		// by the C07 rules above): the two counts may differ by at most k-1, and not at all otherwise
		fromUnspec := 0
		for _, e := range filtered {
			if e.Kind == "rs" && e.From == "::" {
				fromUnspec += max(e.N, 1)
			}
		}
		if d := ma - mb; d > max(fromUnspec-1, 0) || -d > max(fromUnspec-1, 0) {
			return verifkit.Violf("C09/transmissions-differ", "%d multicast RAs with the invalid messages, %d without (%d valid solicitations from ::)\n%s", ma, mb, fromUnspec, tl)
		}
		if len(full.Hooks) != len(ref.Hooks) {
			return verifkit.Violf("C09/consistency-checks-differ", "%d inconsistency notifications with invalid messages, %d without\n%s", len(full.Hooks), len(ref.Hooks), tl)
		}
		if a, b := fmt.Sprint(full.Series[advInconsistencies].Samples), fmt.Sprint(ref.Series[advInconsistencies].Samples); a != b {
			return verifkit.Violf("C09/consistency-checks-differ", "inconsistencies_total with invalid messages %s, without %s\n%s", a, b, tl)
		}
		for typ, n := range invalid {
			if got := full.counter(msgInvalid, "interface=eth0,message="+typ); got != n {
				return verifkit.Violf("C09/invalid-counter", "messages_received_invalid_total{%s} = %v, want %v\n%s", typ, got, n, tl)
			}
		}
		for key, got := range full.Series[msgInvalid].Samples {
			typ := strings.TrimPrefix(key, "interface=eth0,message=")
			if invalid[typ] != got {
				return verifkit.Violf("C09/invalid-counter", "messages_received_invalid_total{%s} = %v, want %v\n%s", key, got, invalid[typ], tl)
			}
		}
		return nil
	}
}

func c09GenEvent(t *rapid.T, at int64, wantInvalid bool, monitor bool) advEvent {
	ev := advEvent{AtNS: at, From: rapid.SampledFrom([]string{"fe80::a", "fe80::b", "2001:db8::c", "::"}).Draw(t, "from")}
	switch rapid.IntRange(0, 5).Draw(t, "type") {
	case 0:
		ev.Kind, ev.Msg = "msg", "ra"
		if rapid.Bool().Draw(t, "inconsistent") {
			ev.RA = &vRA{Hop: 32, M: true, LifeS: 1800, Opts: []vOpt{{Kind: "mtu", MTU: 9000}, {Kind: "prefix", Prefix: "2001:db8:1::/64", ValidS: 100, PrefS: 50}}}
			if rapid.IntRange(0, 3).Draw(t, "rawlen") == 0 {
				// a prefix option whose length byte is impossible (the wire allows any byte)
				ev.RA.Opts = append(ev.RA.Opts, vOpt{Kind: "prefix", Prefix: "2001:db8:2::/64", ValidS: 100, PrefS: 50, RawLen: rapid.SampledFrom([]uint8{129, 255}).Draw(t, "rawlenv")})
			}
		}
		if ev.From == "::" {
			ev.From = "fe80::99"
		}
	case 1:
		ev.Kind, ev.Msg = "msg", "ns"
	case 2:
		ev.Kind, ev.Msg = "msg", "na"
	default:
		ev.Kind = "rs"
		ev.SLLA = rapid.Bool().Draw(t, "slla")
	}
	ev.N = rapid.SampledFrom([]int{1, 1, 1, 2, 3}).Draw(t, "n")
	typeInvalid := !monitor && ev.Kind == "msg" && (ev.Msg == "ns" || ev.Msg == "na")
	if wantInvalid {
		if !typeInvalid || rapid.Bool().Draw(t, "alsohop") {
			ev.Hop = rapid.SampledFrom([]int{1, 64, 128, 254, 1, 2, 100}).Draw(t, "hop")
			if rapid.Bool().Draw(t, "anyhop") {
				ev.Hop = rapid.IntRange(1, 256).Draw(t, "hopv") // 256 encodes hop limit 0
				if ev.Hop == 255 {
					ev.Hop = 253
				}
			}
		}
	} else if typeInvalid {
		ev.Kind, ev.Msg = "rs", ""
	}
	return ev
}

func c09Gen(t *rapid.T) c09Case {
	c := c09Case{Monitor: rapid.IntRange(0, 2).Draw(t, "monitor") == 0}
	at := int64(3500 * time.Millisecond)
	for i, n := 0, rapid.IntRange(1, 8).Draw(t, "nsegments"); i < n; i++ {
		// a run of invalid messages, with up to 4 transient receive timeouts sprinkled in
		// (fewer than the retry budget of 5 between two valid messages) ...
		timeouts := 0
		for j, m := 0, rapid.SampledFrom([]int{0, 1, 2, 4, 5, 6, 12, 40}).Draw(t, "invalidrun"); j < m; {
			if timeouts < 4 && rapid.IntRange(0, 3).Draw(t, "timeout") == 0 {
				n := rapid.IntRange(1, 4-timeouts).Draw(t, "ntimeouts")
				c.Events = append(c.Events, advEvent{AtNS: at, Kind: "readerr", Err: "timeout", N: n})
				timeouts += n
			}
			ev := c09GenEvent(t, at, true, c.Monitor)
			c.Events = append(c.Events, ev)
			j += max(ev.N, 1)
			at += rapid.SampledFrom([]int64{0, 0, 1, int64(time.Millisecond), int64(100 * time.Millisecond)}).Draw(t, "igap")
		}
		if rapid.IntRange(0, 7).Draw(t, "novalid") != 0 {
			// make sure a valid message ends the receive that saw the timeouts
			c.Events = append(c.Events, advEvent{AtNS: at, Kind: "rs", From: "fe80::b"})
		} else if timeouts > 0 {
			c.Events = append(c.Events, advEvent{AtNS: at, Kind: "rs", From: "fe80::b"})
		}
		// ... followed by valid ones
		for j, m := 0, rapid.IntRange(0, 3).Draw(t, "validrun"); j < m; j++ {
			c.Events = append(c.Events, c09GenEvent(t, at, false, c.Monitor))
			at += rapid.SampledFrom([]int64{0, 1, int64(time.Millisecond), int64(600 * time.Millisecond), int64(3 * time.Second)}).Draw(t, "vgap")
		}
	}
	// trailing valid solicitations whose effect is observable
	for _, src := range []string{"fe80::e1", "2001:db8::e2"} {
		c.Events = append(c.Events, advEvent{AtNS: at, Kind: "rs", From: src})
	}
	// The run must outlast every answer that is due in either of the two compared runs: a
	// solicitation from :: may be served by a multicast RA up to 3 s later (MIN_DELAY_BETWEEN_RAS),
	// plus the 500 ms delay, plus the reader's lag, which differs between the runs by at most the
	// receive back-off of the timeouts (<= 300 ms per segment, 8 segments). With a shorter tail the
	// last multicast RA falls before the stop in one run and after it in the other.
	c.StopNS = at + int64(7*time.Second)
	return c
}

// c09Singles: every (hop limit, message type) as a single message followed by a valid RS.
func c09Singles(yield func(c09Case) bool) {
	at := int64(3500 * time.Millisecond)
	for _, mon := range []bool{false, true} {
		for hop := 0; hop <= 255; hop++ {
			for _, typ := range []string{"rs", "ra", "ns", "na"} {
				if mon && hop%16 != 0 && hop < 250 {
					continue
				}
				ev := advEvent{AtNS: at, Kind: "msg", Msg: typ, From: "fe80::a", Hop: hop}
				if hop == 0 {
					ev.Hop = 256 // hop limit 0 (the field's zero value means 255 in the case encoding)
				}
				c := c09Case{Monitor: mon, Events: []advEvent{ev, {AtNS: at + 1, Kind: "rs", From: "fe80::e1"}}, StopNS: at + int64(time.Second)}
				if !yield(c) {
					return
				}
			}
		}
	}
}

func TestVerif_C09(t *testing.T) {
	k := verifkit.Start(t, "C09")
	prop := c09Prop(t, k)
	wire := wireProp(k.Record, true)
	k.Regress(t, func(sub string, raw json.RawMessage) error {
		if sub == "long-invalid-runs" {
			return nil // belongs to the long-run half of C09
		}
		if strings.HasPrefix(sub, "wire") {
			return verifkit.Decode(raw, wire)
		}
		return verifkit.Decode(raw, prop)
	})
	verifkit.Enumerate(k, t, "single-message-hoplimit-x-type", true, c09Singles, prop)
	verifkit.Rapid(k, t, "mixed-sequences", k.N(1500, 400000), c09Gen, prop)
	verifkit.Rapid(k, t, "wire-bytes", k.N(20000, 4000000), wireGen, wire)
}

package corerad

// C08: on termination exactly one zero-lifetime RA is sent, last; on reload
// none; Run returns nil promptly and nothing is transmitted afterwards.
// Oracle over the start/completion log of WriteTo relative to the stop and to
// the return of Run, on virtual time.

import (
	"encoding/json"
	"fmt"
	"testing"
	"time"

	"github.com/mdlayher/corerad/internal/verifkit"
	"pgregory.net/rapid"
)

func c08Oracle(sc advScenario, r *advResult) error {
	if r.Panic != nil {
		return verifkit.Violf("panic", "panic in bubble: %v\n%s", r.Panic, r.W.timeline())
	}
	tl := func() string { return r.W.timeline() }
	if !r.Returned {
		return verifkit.Violf("C08/run-does-not-return", "Run has not returned %v after the stop at %v\n%s", time.Duration(sc.WaitNS), r.StopAt, tl())
	}
	if r.RetErr != nil {
		return verifkit.Violf("C08/run-returns-error", "Run returned %v after a stop request\n%s", r.RetErr, tl())
	}
	// nothing is transmitted after Run returned (the world is kept alive 10 minutes)
	for _, w := range r.Writes {
		if w.Start > r.RetAt || w.End > r.RetAt || w.End < 0 {
			return verifkit.Violf("C08/transmission-after-return", "write to %v started %v / completed %v, Run returned at %v\n%s", w.Dst, w.Start, w.End, r.RetAt, tl())
		}
	}
	// every packet goes out on the connection that is the interface's current one: once the interface has been
	// re-initialised, nothing new is written to the connection it had before (the final RA least of all)
	r.W.mu.Lock()
	created := map[int]time.Duration{}
	for _, c := range r.W.conns {
		created[c.id] = c.created
	}
	r.W.mu.Unlock()
	for _, w := range r.Writes {
		if next, ok := created[w.Conn+1]; ok && w.Start > next {
			return verifkit.Violf("C08/write-on-superseded-connection", "write to %v (lifetime %v) at %v on connection %d, which was replaced by connection %d at %v\n%s", w.Dst, w.Lifetime, w.Start, w.Conn, w.Conn+1, next, tl())
		}
	}
	// the final RA
	var after []simWrite // writes that start at or after the stop
	inflight := time.Duration(0)
	for _, w := range r.Writes {
		if w.Start >= r.StopAt {
			after = append(after, w)
		} else if w.End > r.StopAt {
			inflight += w.End - r.StopAt
		}
	}
	lifeKnown := sc.Cfg.LifeS > 0 && sc.Fwd0 // (otherwise every RA has lifetime 0, and the final one is told by its position)
	isFinal := func(w simWrite) bool { return w.Dst == vkAllNodes && w.Lifetime == 0 }
	finals := 0
	var finalW simWrite
	for _, w := range r.Writes {
		if lifeKnown && w.Lifetime == 0 {
			if !isFinal(w) {
				return verifkit.Violf("C08/zero-lifetime-unicast", "zero-lifetime RA sent to %v at %v\n%s", w.Dst, w.Start, tl())
			}
			if w.Start < r.StopAt {
				return verifkit.Violf("C08/final-ra-before-stop", "zero-lifetime RA at %v, before the stop at %v\n%s", w.Start, r.StopAt, tl())
			}
			finals++
			finalW = w
		}
	}
	strictlyAfter, atStop := 0, 0
	if !lifeKnown {
		// configured lifetime 0 (or not forwarding): every RA has lifetime 0; judge by position only
		seenConn := map[int]bool{}
		for _, w := range r.Writes {
			initial := !seenConn[w.Conn] // (the first write of a connection is its initial RA)
			seenConn[w.Conn] = true
			if w.Start < r.StopAt {
				continue
			}
			if w.Dst == vkAllNodes {
				if initial {
					continue // the initial RA of a connection that was being set up when the stop came: work in progress, not a farewell
				}
				finals++
				finalW = w
				if w.Start > r.StopAt && sc.StateDelayNS == 0 {
					strictlyAfter++ // (with slow state reads an RA whose generation began before the stop goes out after it)
				} else {
					atStop++ // (may have been due before the stop)
				}
			}
		}
	}
	// the stop may arrive while the interface has no connection at all: its task was torn down (a link change) and the
	// re-initialisation has not produced the next connection yet - or both happened at the very instant of the stop.
	// What a farewell would be sent on then, the statement does not say: the count of final RAs is not judged (every
	// other rule is)
	noConn := false
	r.W.mu.Lock()
	if n := len(r.W.conns); n > 0 {
		lc := r.W.conns[n-1]
		lc.mu.Lock()
		noConn = lc.torn >= 0 && lc.torn <= r.StopAt
		lc.mu.Unlock()
	}
	r.W.mu.Unlock()
	if sc.Terminate && noConn && finals == 0 {
		return nil
	}
	if sc.Terminate {
		if lifeKnown && finals != 1 {
			return verifkit.Violf(fmt.Sprintf("C08/terminate-%d-final-ras", min(finals, 2)), "terminating advertiser sent %d zero-lifetime RAs, want exactly 1\n%s", finals, tl())
		}
		if !lifeKnown && finals < 1 {
			return verifkit.Violf("C08/terminate-0-final-ras", "terminating advertiser sent no multicast RA after the stop\n%s", tl())
		}
		if !lifeKnown && strictlyAfter > 1 {
			return verifkit.Violf("C08/terminate-2-final-ras", "terminating advertiser sent %d multicast RAs after the stop, want exactly 1\n%s", strictlyAfter, tl())
		}
		{
			if want := sc.Cfg.expect(sc.Fwd0, true); finalW.RA != want {
				return verifkit.Violf("C08/final-ra-content", "final RA differs from the normal RA in more than the lifetime:\nwant %s\ngot  %s", want, finalW.RA)
			}
		}
		for _, w := range r.Writes {
			if w.Start > finalW.Start {
				return verifkit.Violf("C08/transmission-after-final-ra", "write to %v starts at %v, after the final RA started at %v\n%s", w.Dst, w.Start, finalW.Start, tl())
			}
			if w.End > finalW.Start && w.Start < finalW.Start {
				return verifkit.Violf("C08/final-ra-overtakes-transmission", "final RA started at %v while the write to %v begun at %v was still in flight (completed %v): it is not the last packet\n%s", finalW.Start, w.Dst, w.Start, w.End, tl())
			}
		}
	} else if lifeKnown && finals != 0 {
		return verifkit.Violf("C08/reload-final-ra", "reloading advertiser sent a zero-lifetime RA at %v\n%s", finalW.Start, tl())
	} else if !lifeKnown && strictlyAfter != 0 {
		return verifkit.Violf("C08/reload-final-ra", "reloading advertiser sent a multicast RA at %v, after the stop\n%s", finalW.Start, tl())
	}
	// promptness: never waits for a pending delay
	// (every RA built after the stop is preceded by one state read)
	bound := r.StopAt + inflight + time.Duration(sc.StateDelayNS)
	for _, w := range after {
		bound += w.End - w.Start + time.Duration(sc.StateDelayNS)
	}
	if r.RetAt > bound {
		return verifkit.Violf("C08/slow-stop", "stop at %v, Run returned at %v, later than in-flight work allows (%v)\n%s", r.StopAt, r.RetAt, bound, tl())
	}
	return nil
}

func c08Prop(t *testing.T, k *verifkit.Kit) func(sc advScenario) error {
	return func(sc advScenario) error {
		sc.TailNS = int64(10 * time.Minute)
		sc.WaitNS = int64(30 * time.Second)
		for _, l := range sc.Lat {
			sc.WaitNS += 3 * l.NS // a transmission in flight, then the final one: the wait is the harness's patience, not a verdict
		}
		sc.WaitNS += 50 * sc.StateDelayNS
		r := runAdvertiser(t, sc, nil)
		if r.W == nil {
			return fmt.Errorf("verif: world not created: %v", r.Panic)
		}
		pending := false
		for _, w := range r.Writes {
			if w.Start < r.StopAt && w.End > r.StopAt {
				pending = true
			}
		}
		for _, d := range r.Reads {
			if d.In.Err == nil && r.StopAt-d.At < 3*time.Second && r.StopAt >= d.At {
				pending = true
			}
		}
		cls := []string{fmt.Sprintf("terminate=%v", sc.Terminate)}
		if pending {
			cls = append(cls, "work-pending-at-stop")
		}
		if sc.Cfg.LifeS == 0 {
			cls = append(cls, "configured-lifetime-0")
		}
		k.Record(sc, pending, cls...)
		return c08Oracle(sc, r)
	}
}

func c08Gen(t *rapid.T) advScenario {
	s := int64(time.Second)
	cfg := c06BaseCfg(rapid.SampledFrom([]int64{4, 5, 8, 30}).Draw(t, "max"))
	if cfg.MaxNS > 9*s {
		cfg.MinNS = 10 * s
	}
	if rapid.IntRange(0, 7).Draw(t, "life0") == 0 {
		cfg.LifeS = 0
	}
	sc := advScenario{Cfg: cfg, Fwd0: rapid.IntRange(0, 5).Draw(t, "notforwarding") != 0, Terminate: rapid.Bool().Draw(t, "terminate")}
	stop := rapid.SampledFrom([]int64{0, 1, 3 * s, 3*s - 1, 3*s + 1, 4 * s, 7 * s}).Draw(t, "stopbase")
	if rapid.Bool().Draw(t, "stopany") {
		stop = rapid.Int64Range(0, 12*s).Draw(t, "stop")
	}
	sc.StopNS = stop
	for i, n := 0, rapid.IntRange(0, 8).Draw(t, "nevents"); i < n; i++ {
		// most events shortly before (or exactly at) the stop
		back := rapid.SampledFrom([]int64{0, 1, 1000, int64(time.Millisecond), 100 * int64(time.Millisecond), 499999999, 500000000, 600 * int64(time.Millisecond), 2 * s, 3 * s}).Draw(t, "back")
		at := stop - back
		if at < 0 {
			at = 0
		}
		if rapid.IntRange(0, 5).Draw(t, "linkevent") == 0 {
			// the interface is re-initialised before the stop: the final RA belongs on the connection that is live then
			sc.Events = append(sc.Events, advEvent{AtNS: at, Kind: "link"})
			continue
		}
		from := rapid.SampledFrom([]string{"fe80::a", "fe80::b", "::", "::", "2001:db8::c"}).Draw(t, "from")
		sc.Events = append(sc.Events, advEvent{AtNS: at, Kind: "rs", From: from, N: rapid.SampledFrom([]int{1, 1, 2, 20}).Draw(t, "burst")})
	}
	switch rapid.IntRange(0, 3).Draw(t, "latkind") {
	case 0:
	case 1:
		sc.Lat = []latRule{{Dst: "any", N: -1, NS: rapid.SampledFrom([]int64{1, int64(time.Millisecond), 700 * int64(time.Millisecond), 2 * s, 2*s + 1, 5 * s, 31 * s, 300 * s}).Draw(t, "lat")}}
	case 2:
		sc.Lat = []latRule{{Dst: "unicast", N: -1, NS: c08Lat(t, "ulat")}}
	default:
		sc.Lat = []latRule{{Dst: "multicast", N: rapid.IntRange(1, 3).Draw(t, "mn"), NS: c08Lat(t, "mlat")}}
	}
	if rapid.IntRange(0, 5).Draw(t, "statedelay") == 0 {
		sc.StateDelayNS = rapid.SampledFrom([]int64{1, int64(time.Millisecond), 300 * int64(time.Millisecond), 4 * s}).Draw(t, "sd")
	}
	if len(sc.Lat) > 0 && sc.Lat[0].NS > 0 && rapid.IntRange(0, 2).Draw(t, "failsafterstop") == 0 {
		// a transmission that is in flight when the stop arrives and fails afterwards (the link went away): the stop
		// still ends with the final advertisement (terminate) and without an error
		sc.Lat[0].Err, sc.Lat[0].AfterStop = rapid.SampledFrom([]string{"syscall", "syscall:ENOBUFS", "other"}).Draw(t, "lateerr"), true
		if sc.Lat[0].Dst == "any" {
			sc.Lat[0].Dst = "unicast" // (the final advertisement itself is a multicast write after the stop)
		}
	}
	return sc
}

// c08Lat: how long a transmission takes - mostly what a busy link does, sometimes what a stalled one does (a
// write to a raw socket has no deadline: nothing bounds it).
func c08Lat(t *rapid.T, label string) int64 {
	s := int64(time.Second)
	if rapid.IntRange(0, 3).Draw(t, label+"long") == 0 {
		return rapid.Int64Range(2*s, 120*s).Draw(t, label)
	}
	return rapid.Int64Range(0, 2*s).Draw(t, label)
}

// c08Matrix: {idle, pending unicast, pending multicast, in-flight unicast,
// in-flight multicast, RS at the stop instant} x {terminate, reload} x latency.
func c08Matrix(yield func(advScenario) bool) {
	s := int64(time.Second)
	ms := int64(time.Millisecond)
	for _, lat := range []int64{0, ms, 700 * ms, 6 * s} {
		for _, term := range []bool{true, false} {
			for kind := 0; kind < 6; kind++ {
				for _, life := range []int64{1800, 0} {
					cfg := c06BaseCfg(8)
					cfg.LifeS = life
					sc := advScenario{Cfg: cfg, Fwd0: true, Terminate: term}
					if lat > 0 {
						sc.Lat = []latRule{{Dst: "any", N: -1, NS: lat}}
					}
					switch kind {
					case 0: // idle
						sc.StopNS = 5 * s
					case 1: // response pending in its random delay
						sc.Events = []advEvent{{AtNS: 5 * s, Kind: "rs", From: "fe80::a", N: 3}}
						sc.StopNS = 5*s + 1
					case 2: // multicast pending in the 3 s spacing
						sc.Events = []advEvent{{AtNS: 4 * s, Kind: "rs", From: "::"}}
						sc.StopNS = 4*s + 500*ms
					case 3: // unicast transmission in flight (started within 500 ms, still running at +600 ms if latency is 700 ms)
						sc.Events = []advEvent{{AtNS: 5 * s, Kind: "rs", From: "fe80::a", N: 4}}
						sc.StopNS = 5*s + 600*ms
					case 4: // periodic multicast in flight
						sc.StopNS = 3*s + lat + 100*ms + 500*ms
						if lat == 700*ms {
							sc.StopNS = 3*s + lat + 1000*ms // initial RA took lat, first periodic RA 3 s later, in flight for lat
						}
					case 5: // solicitation arriving at the stop instant
						sc.Events = []advEvent{{AtNS: 6 * s, Kind: "rs", From: "fe80::a"}, {AtNS: 6 * s, Kind: "rs", From: "::"}}
						sc.StopNS = 6 * s
					}
					if !yield(sc) {
						return
					}
				}
			}
		}
	}
}

func TestVerif_C08(t *testing.T) {
	k := verifkit.Start(t, "C08")
	prop := c08Prop(t, k)
	k.Regress(t, func(sub string, raw json.RawMessage) error { return verifkit.Decode(raw, prop) })
	verifkit.Enumerate(k, t, "stop-situation-matrix", true, c08Matrix, prop)
	verifkit.Rapid(k, t, "stop-instant-x-backlog", k.N(3000, 600000), c08Gen, prop)
	verifkit.Enumerate(k, t, "fatal-error-surfacing-after-the-stop", true, c08FatalMatrix, c08FatalProp(t, k))
}

// c08FatalMatrix: the advertiser is asked to stop while it is busy with something that then fails for a
// reason no re-initialisation would cure - the forwarding state, slow to read, turns out to be unreadable
// while another router's RA (or a solicitation's answer) is being worked on. The stop came first: the run
// still ends in success. (No final RA can be demanded: building it needs the same unreadable state.)
func c08FatalMatrix(yield func(advScenario) bool) {
	s, ms := int64(time.Second), int64(time.Millisecond)
	for _, term := range []bool{true, false} {
		for _, kind := range []string{"other", "perm"} {
			for _, delay := range []int64{300 * ms, 900 * ms} {
				for _, lead := range []int64{100 * ms, delay - 1} { // how long before the stop the work began
					for _, what := range []string{"ra", "rs"} {
						sc := advScenario{Cfg: c06BaseCfg(30), Fwd0: true, Terminate: term, StateDelayNS: delay, StopNS: 8 * s}
						ev := advEvent{AtNS: 8*s - lead, Kind: "msg", Msg: what, From: "fe80::b"}
						if what == "ra" {
							ev.RA = &sc.Cfg.RA
						} else {
							ev.AtNS -= 500 * ms // (the answer is built when its random delay of at most 500 ms is over)
						}
						sc.Events = []advEvent{{AtNS: 8*s - lead - 700*ms, Kind: "statefail", Err: kind}, ev}
						if !yield(sc) {
							return
						}
					}
				}
			}
		}
	}
}

func c08FatalProp(t *testing.T, k *verifkit.Kit) func(sc advScenario) error {
	return func(sc advScenario) error {
		sc.TailNS = int64(10 * time.Minute)
		sc.WaitNS = int64(30*time.Second) + 50*sc.StateDelayNS
		r := runAdvertiser(t, sc, nil)
		if r.W == nil {
			return fmt.Errorf("verif: world not created: %v", r.Panic)
		}
		if r.Panic != nil {
			return verifkit.Violf("panic", "panic in bubble: %v\n%s", r.Panic, r.W.timeline())
		}
		if !r.Returned {
			return verifkit.Violf("C08/run-does-not-return", "Run has not returned %v after the stop at %v\n%s", time.Duration(sc.WaitNS), r.StopAt, r.W.timeline())
		}
		after := r.RetAt > r.StopAt // (a run that ended before, or at the very instant of, the stop was not stopped: not judged)
		k.Record(sc, after, fmt.Sprintf("terminate=%v", sc.Terminate), fmt.Sprintf("returned-after-stop=%v", after))
		if after && r.RetErr != nil {
			return verifkit.Violf("C08/run-returns-error", "Run returned %v at %v, after the stop request at %v\n%s", r.RetErr, r.RetAt, r.StopAt, r.W.timeline())
		}
		for _, w := range r.Writes {
			if w.Start > r.RetAt || w.End > r.RetAt || w.End < 0 {
				return verifkit.Violf("C08/transmission-after-return", "write to %v started %v / completed %v, Run returned at %v\n%s", w.Dst, w.Start, w.End, r.RetAt, r.W.timeline())
			}
		}
		return nil
	}
}

package corerad

// C12: exactly the RFC 4861 6.2.7 inconsistencies (and the documented
// extensions) are reported for another router's RA. Oracle: an independent
// implementation of the rule list in the statement, judged both ways
// (soundness and completeness) on verifyRAs and, through Advertiser.handle,
// on the counter, the log and the notification hook. Every received RA also
// passes through the wire codec.

import (
	"bytes"
	"encoding/json"
	"fmt"
	"log"
	"net/netip"
	"slices"
	"sort"
	"strings"
	"sync"
	"testing"
	"time"

	"github.com/mdlayher/corerad/internal/config"
	"github.com/mdlayher/corerad/internal/plugin"
	"github.com/mdlayher/corerad/internal/system"
	"github.com/mdlayher/corerad/internal/verifkit"
	"github.com/mdlayher/metricslite"
	"github.com/mdlayher/ndp"
	"pgregory.net/rapid"
)

// A vOpt is a JSON-friendly NDP option.
type vOpt struct {
	Kind    string   `json:"kind"` // prefix route rdnss dnssl mtu cp lla pref64 raw
	Prefix  string   `json:"prefix,omitempty"`
	OnLink  bool     `json:"on_link,omitempty"`
	Auto    bool     `json:"autonomous,omitempty"`
	ValidS  int64    `json:"valid_s,omitempty"`
	PrefS   int64    `json:"pref_s,omitempty"`
	RPref   int      `json:"route_pref,omitempty"`
	LifeS   int64    `json:"life_s,omitempty"`
	Servers []string `json:"servers,omitempty"`
	Domains []string `json:"domains,omitempty"`
	MTU     uint32   `json:"mtu,omitempty"`
	URI     string   `json:"uri,omitempty"`
	RawLen  uint8    `json:"raw_prefix_len,omitempty"` // prefix options: if > 128, the length byte is overwritten on the wire (a peer can send anything)
}

type vRA struct {
	Hop       uint8  `json:"hop"`
	M         bool   `json:"m"`
	O         bool   `json:"o"`
	Pref      int    `json:"pref"`
	LifeS     int64  `json:"life_s"`
	ReachMS   int64  `json:"reach_ms"`
	RetransMS int64  `json:"retrans_ms"`
	Opts      []vOpt `json:"opts"`
}

func (o vOpt) ndp() ndp.Option {
	switch o.Kind {
	case "prefix":
		p := netip.MustParsePrefix(o.Prefix)
		return &ndp.PrefixInformation{PrefixLength: uint8(p.Bits()), OnLink: o.OnLink, AutonomousAddressConfiguration: o.Auto,
			ValidLifetime: time.Duration(o.ValidS) * time.Second, PreferredLifetime: time.Duration(o.PrefS) * time.Second, Prefix: p.Addr()}
	case "route":
		p := netip.MustParsePrefix(o.Prefix)
		return &ndp.RouteInformation{PrefixLength: uint8(p.Bits()), Preference: ndp.Preference(o.RPref), RouteLifetime: time.Duration(o.LifeS) * time.Second, Prefix: p.Addr()}
	case "rdnss":
		var ss []netip.Addr
		for _, s := range o.Servers {
			ss = append(ss, netip.MustParseAddr(s))
		}
		return &ndp.RecursiveDNSServer{Lifetime: time.Duration(o.LifeS) * time.Second, Servers: ss}
	case "dnssl":
		return &ndp.DNSSearchList{Lifetime: time.Duration(o.LifeS) * time.Second, DomainNames: append([]string(nil), o.Domains...)}
	case "mtu":
		return ndp.NewMTU(o.MTU)
	case "cp":
		return &ndp.CaptivePortal{URI: o.URI}
	case "lla":
		return &ndp.LinkLayerAddress{Direction: ndp.Source, Addr: []byte{2, 0, 0, 0, 0, byte(o.MTU)}}
	case "pref64":
		return &ndp.PREF64{Prefix: netip.MustParsePrefix(o.Prefix), Lifetime: time.Duration(o.LifeS) * time.Second}
	case "raw":
		return &ndp.RawOption{Type: 200, Length: 1, Value: []byte{1, 2, 3, 4, 5, 6}}
	}
	panic("verif: unknown option kind " + o.Kind)
}

func (r vRA) ndp() *ndp.RouterAdvertisement {
	ra := &ndp.RouterAdvertisement{CurrentHopLimit: r.Hop, ManagedConfiguration: r.M, OtherConfiguration: r.O,
		RouterSelectionPreference: ndp.Preference(r.Pref), RouterLifetime: time.Duration(r.LifeS) * time.Second,
		ReachableTime: time.Duration(r.ReachMS) * time.Millisecond, RetransmitTimer: time.Duration(r.RetransMS) * time.Millisecond}
	for _, o := range r.Opts {
		ra.Options = append(ra.Options, o.ndp())
	}
	return ra
}

// iface builds the configuration whose RA is r (static plugins only), so that
// "ours" is produced by the real buildRA.
func (r vRA) iface(name string) config.Interface {
	ifi := config.Interface{Name: name, Advertise: true, HopLimit: r.Hop, Managed: r.M, OtherConfig: r.O, Preference: ndp.Preference(r.Pref),
		DefaultLifetime: time.Duration(r.LifeS) * time.Second, ReachableTime: time.Duration(r.ReachMS) * time.Millisecond,
		RetransmitTimer: time.Duration(r.RetransMS) * time.Millisecond, MinInterval: 200 * time.Second, MaxInterval: 600 * time.Second}
	for _, o := range r.Opts {
		switch o.Kind {
		case "prefix":
			ifi.Plugins = append(ifi.Plugins, &plugin.Prefix{Prefix: netip.MustParsePrefix(o.Prefix), OnLink: o.OnLink, Autonomous: o.Auto,
				ValidLifetime: time.Duration(o.ValidS) * time.Second, PreferredLifetime: time.Duration(o.PrefS) * time.Second})
		case "route":
			ifi.Plugins = append(ifi.Plugins, &plugin.Route{Prefix: netip.MustParsePrefix(o.Prefix), Preference: ndp.Preference(o.RPref), Lifetime: time.Duration(o.LifeS) * time.Second})
		case "rdnss":
			var ss []netip.Addr
			for _, s := range o.Servers {
				ss = append(ss, netip.MustParseAddr(s))
			}
			ifi.Plugins = append(ifi.Plugins, &plugin.RDNSS{Lifetime: time.Duration(o.LifeS) * time.Second, Servers: ss})
		case "dnssl":
			ifi.Plugins = append(ifi.Plugins, &plugin.DNSSL{Lifetime: time.Duration(o.LifeS) * time.Second, DomainNames: append([]string(nil), o.Domains...)})
		case "mtu":
			ifi.Plugins = append(ifi.Plugins, plugin.NewMTU(int(o.MTU)))
		case "cp":
			ifi.Plugins = append(ifi.Plugins, &plugin.CaptivePortal{Portal: &ndp.CaptivePortal{URI: o.URI}})
		case "lla":
			ifi.Plugins = append(ifi.Plugins, &plugin.LLA{Addr: []byte{2, 0, 0, 0, 0, byte(o.MTU)}})
		case "pref64":
			ifi.Plugins = append(ifi.Plugins, &plugin.PREF64{Inner: &ndp.PREF64{Prefix: netip.MustParsePrefix(o.Prefix), Lifetime: time.Duration(o.LifeS) * time.Second}})
		}
	}
	return ifi
}

type c12Case struct {
	Ours   vRA `json:"ours"`
	Theirs vRA `json:"theirs"`
}

type c12Label struct{ Field, Details string }

func c12Pick(r vRA, kind string) []vOpt {
	var out []vOpt
	for _, o := range r.Opts {
		if o.Kind == kind {
			out = append(out, o)
		}
	}
	return out
}

// c12Expected is the rule list of the statement. unspec lists aspects the
// statement leaves open for this pair.
func c12Expected(a, b vRA) (want []c12Label, unspec []string) {
	add := func(f, d string) { want = append(want, c12Label{f, d}) }
	if a.Hop != b.Hop {
		if a.Hop == 0 || b.Hop == 0 {
			unspec = append(unspec, "hop_limit")
		} else {
			add("hop_limit", "")
		}
	}
	if a.M != b.M {
		add("managed_configuration", "")
	}
	if a.O != b.O {
		add("other_configuration", "")
	}
	if a.ReachMS != 0 && b.ReachMS != 0 && a.ReachMS != b.ReachMS {
		add("reachable_time", "")
	}
	if a.RetransMS != 0 && b.RetransMS != 0 && a.RetransMS != b.RetransMS {
		add("retransmit_timer", "")
	}
	if ma, mb := c12Pick(a, "mtu"), c12Pick(b, "mtu"); len(ma) > 0 && len(mb) > 0 && ma[0].MTU != mb[0].MTU {
		add("mtu", "")
	}
	for _, pa := range c12Pick(a, "prefix") {
		for _, pb := range c12Pick(b, "prefix") {
			if pa.Prefix != pb.Prefix {
				continue
			}
			if pa.PrefS != pb.PrefS {
				add("prefix_information_preferred_lifetime", pa.Prefix)
			}
			if pa.ValidS != pb.ValidS {
				add("prefix_information_valid_lifetime", pa.Prefix)
			}
		}
	}
	for _, pa := range c12Pick(a, "route") {
		for _, pb := range c12Pick(b, "route") {
			if pa.Prefix == pb.Prefix && pa.RPref == pb.RPref && pa.LifeS != pb.LifeS {
				add("route_information_lifetime", pa.Prefix)
			}
		}
	}
	if da, db := c12Pick(a, "rdnss"), c12Pick(b, "rdnss"); len(da) > 0 && len(db) > 0 {
		if len(da) != len(db) {
			add("rdnss_count", "")
		} else {
			for i := range da {
				if da[i].LifeS != db[i].LifeS {
					add("rdnss_lifetime", "")
				}
				if strings.Join(da[i].Servers, ",") != strings.Join(db[i].Servers, ",") {
					add("rdnss_servers", "")
				}
			}
		}
	}
	if da, db := c12Pick(a, "dnssl"), c12Pick(b, "dnssl"); len(da) > 0 && len(db) > 0 {
		if len(da) != len(db) {
			add("dnssl_count", "")
		} else {
			for i := range da {
				if da[i].LifeS != db[i].LifeS {
					add("dnssl_lifetime", "")
				}
				if strings.Join(da[i].Domains, ",") != strings.Join(db[i].Domains, ",") {
					add("dnssl_domain_names", "")
				}
			}
		}
	}
	if ca, cb := c12Pick(a, "cp"), c12Pick(b, "cp"); len(ca) > 0 && len(cb) > 0 && ca[0].URI != cb[0].URI {
		add("captive_portal", "")
	}
	return want, unspec
}

func c12Multiset(ls []c12Label, drop map[string]bool) string {
	var ss []string
	for _, l := range ls {
		if drop[l.Field] {
			continue
		}
		ss = append(ss, l.Field+"("+l.Details+")")
	}
	sort.Strings(ss)
	return strings.Join(ss, " ")
}

// lockedBuf is a log sink.
type lockedBuf struct {
	mu sync.Mutex
	b  bytes.Buffer
}

func (l *lockedBuf) Write(p []byte) (int, error) {
	l.mu.Lock()
	defer l.mu.Unlock()
	return l.b.Write(p)
}
func (l *lockedBuf) String() string {
	l.mu.Lock()
	defer l.mu.Unlock()
	return l.b.String()
}

func c12Diff(want, got string) string {
	w, g := strings.Fields(want), strings.Fields(got)
	cnt := map[string]int{}
	for _, x := range w {
		cnt[x]++
	}
	for _, x := range g {
		cnt[x]--
	}
	for _, x := range w {
		if cnt[x] > 0 {
			return "missed:" + strings.SplitN(x, "(", 2)[0]
		}
	}
	for _, x := range g {
		if cnt[x] < 0 {
			return "spurious:" + strings.SplitN(x, "(", 2)[0]
		}
	}
	return "differs"
}

func c12Prop(k *verifkit.Kit) func(c c12Case) error {
	return func(c c12Case) error {
		want, unspec := c12Expected(c.Ours, c.Theirs)
		drop := map[string]bool{}
		for _, u := range unspec {
			drop[u] = true
			k.Unspecified("C12 " + u + " difference with a zero side")
		}
		both := 0
		for _, kind := range []string{"prefix", "route", "rdnss", "dnssl", "mtu", "cp"} {
			if len(c12Pick(c.Ours, kind)) > 0 && len(c12Pick(c.Theirs, kind)) > 0 {
				both++
			}
		}
		cls := []string{fmt.Sprintf("expected-problems=%d", min(len(want), 4)), fmt.Sprintf("aspects-on-both-sides=%d", min(both, 4))}
		if np, nr := len(c12Pick(c.Ours, "prefix"))*len(c12Pick(c.Theirs, "prefix")), len(c12Pick(c.Ours, "route"))*len(c12Pick(c.Theirs, "route")); np > 16 || nr > 16 {
			cls = append(cls, "more-than-16-option-pairs-of-a-kind")
		}
		// the other router may list one prefix (or route) in several options: every copy is compared with ours, and an
		// inconsistency of any copy must be reported; how often a label that several copies give rise to is counted
		// the statement does not say, so with such copies the labels are compared as sets
		dupTheirs := false
		for _, kind := range []string{"prefix", "route"} {
			seen := map[string]bool{}
			for _, o := range c12Pick(c.Theirs, kind) {
				if seen[o.Prefix] {
					dupTheirs = true
				}
				seen[o.Prefix] = true
			}
		}
		if dupTheirs {
			cls = append(cls, "received-RA-repeats-a-prefix-or-route")
			k.Unspecified("C12 multiplicity of a label when the received RA repeats a prefix or route")
		}
		k.Record(c, both >= 1 || len(want) > 0, cls...)
		c12Multiset := func(ls []c12Label, drop map[string]bool) string {
			if !dupTheirs {
				return c12Multiset(ls, drop)
			}
			return strings.Join(slices.Compact(strings.Fields(c12Multiset(ls, drop))), " ")
		}
		wantS := c12Multiset(want, drop)

		ours := c.Ours.ndp()
		theirsDirect := c.Theirs.ndp()
		b, err := ndp.MarshalMessage(theirsDirect)
		if err != nil {
			return fmt.Errorf("verif: generated RA does not encode: %v", err)
		}
		m, err := ndp.ParseMessage(b)
		if err != nil {
			return fmt.Errorf("verif: generated RA does not decode: %v", err)
		}
		theirsWire := m.(*ndp.RouterAdvertisement)

		for name, theirs := range map[string]*ndp.RouterAdvertisement{"direct": theirsDirect, "wire": theirsWire} {
			var got []c12Label
			for _, p := range verifyRAs(ours, theirs) {
				got = append(got, c12Label{p.Field, p.Details})
			}
			if gotS := c12Multiset(got, drop); gotS != wantS {
				return verifkit.Violf("C12/verify/"+c12Diff(wantS, gotS), "verifyRAs (%s): want {%s} got {%s}", name, wantS, gotS)
			}
		}

		// through the advertiser: ours is built by buildRA from a configuration
		logs := &lockedBuf{}
		mem := metricslite.NewMemory()
		mm := NewMetrics(mem, "verif", time.Time{}, system.TestState{Forwarding: true}, nil)
		cctx := NewContext(log.New(logs, "", 0), mm, system.TestState{Forwarding: true})
		cfg := c.Ours.iface("eth0")
		a := NewAdvertiser(cctx, cfg, nil, nil, func() bool { return false })
		hooks := 0
		var hookOurs, hookTheirs *ndp.RouterAdvertisement
		a.OnInconsistentRA = func(o, t *ndp.RouterAdvertisement) { hooks++; hookOurs, hookTheirs = o, t }
		ip, err := a.handle(theirsWire, netip.MustParseAddr("fe80::2"))
		if err != nil {
			return verifkit.Violf("C12/handle-error", "handle returned %v", err)
		}
		if ip.IsValid() {
			return verifkit.Violf("C12/ra-answered", "an RA from another router triggered a response to %v", ip)
		}
		series, _ := mm.Series()
		var counted []c12Label
		for key, v := range series[advInconsistencies].Samples {
			var l c12Label
			for _, kv := range strings.Split(key, ",") {
				switch {
				case strings.HasPrefix(kv, "details="):
					l.Details = strings.TrimPrefix(kv, "details=")
				case strings.HasPrefix(kv, "field="):
					l.Field = strings.TrimPrefix(kv, "field=")
				case strings.HasPrefix(kv, "interface="):
					if kv != "interface=eth0" {
						return verifkit.Violf("C12/counter-label", "unexpected label %q", key)
					}
				}
			}
			for i := 0; i < int(v); i++ {
				counted = append(counted, l)
			}
		}
		if gotS := c12Multiset(counted, drop); gotS != wantS {
			return verifkit.Violf("C12/counter/"+c12Diff(wantS, gotS), "inconsistencies_total: want {%s} got {%s}", wantS, gotS)
		}
		// "logged ... once": every inconsistency has a log line of its own that names its field and, where there is one,
		// the prefix or route concerned - and no other line names a field.  (The field names are the label values of
		// the counter; how the line is worded around them is the code's business.)
		var problemLines []string
		for _, line := range strings.Split(logs.String(), "\n") {
			for _, f := range c12FieldNames {
				if strings.Contains(line, f) {
					problemLines = append(problemLines, line)
					break
				}
			}
		}
		dropped := 0
		for _, l := range counted {
			if drop[l.Field] {
				dropped++
			}
		}
		if !dupTheirs && len(problemLines)-dropped != len(strings.Fields(wantS)) {
			return verifkit.Violf("C12/log-lines", "want %d log lines that name an inconsistency, got %d:\n%s", len(strings.Fields(wantS)), len(problemLines)-dropped, logs.String())
		}
		used := make([]bool, len(problemLines))
		for _, l := range want {
			if drop[l.Field] {
				continue
			}
			found := false
			for li, line := range problemLines {
				// (the longest field name that occurs in the line is the one it is about: "rdnss_lifetime" is not "lifetime")
				if used[li] || !strings.Contains(line, l.Field) || (l.Details != "" && !strings.Contains(line, l.Details)) {
					continue
				}
				longer := false
				for _, f := range c12FieldNames {
					longer = longer || (len(f) > len(l.Field) && strings.Contains(f, l.Field) && strings.Contains(line, f))
				}
				if longer {
					continue
				}
				used[li], found = true, true
				break
			}
			if !found && !dupTheirs {
				return verifkit.Violf("C12/log-line-content/missed:"+l.Field, "no log line of its own names the inconsistency %s(%s):\n%s", l.Field, l.Details, logs.String())
			}
		}
		if len(unspec) == 0 {
			if (hooks > 0) != (len(want) > 0) || hooks > 1 {
				return verifkit.Violf("C12/hook", "hook fired %d times for %d expected inconsistencies", hooks, len(want))
			}
			if hooks == 1 && (hookTheirs != theirsWire || raStr(hookOurs) != raStr(ours)) {
				return verifkit.Violf("C12/hook-arguments", "hook received ours=%s theirs=%s", raStr(hookOurs), raStr(hookTheirs))
			}
		}

		// special case: our own RA after a wire round trip produces no report
		ob, err := ndp.MarshalMessage(ours)
		if err == nil {
			if em, err := ndp.ParseMessage(ob); err == nil {
				if ps := verifyRAs(ours, em.(*ndp.RouterAdvertisement)); len(ps) != 0 {
					return verifkit.Violf("C12/own-echo-reported/"+ps[0].Field, "our own RA after a wire round trip is reported inconsistent: %+v", ps)
				}
			}
		}
		return nil
	}
}

// c12FieldNames: the label values of corerad_advertiser_inconsistencies_total.
var c12FieldNames = []string{"hop_limit", "managed_configuration", "other_configuration", "reachable_time", "retransmit_timer", "mtu",
	"prefix_information_preferred_lifetime", "prefix_information_valid_lifetime", "route_information_lifetime", "rdnss_count", "rdnss_lifetime", "rdnss_servers",
	"dnssl_count", "dnssl_lifetime", "dnssl_domain_names", "captive_portal"}

func raStr(ra *ndp.RouterAdvertisement) string {
	if ra == nil {
		return "<nil>"
	}
	var b strings.Builder
	fmt.Fprintf(&b, "hop=%d M=%v O=%v pref=%v life=%v reach=%v retrans=%v opts=[", ra.CurrentHopLimit, ra.ManagedConfiguration,
		ra.OtherConfiguration, ra.RouterSelectionPreference, ra.RouterLifetime, ra.ReachableTime, ra.RetransmitTimer)
	for i, o := range ra.Options {
		if i > 0 {
			b.WriteString("; ")
		}
		fmt.Fprintf(&b, "%T%+v", o, o)
	}
	b.WriteString("]")
	return b.String()
}

// --- generators --------------------------------------------------------------

var c12Prefixes = []string{"2001:db8:1::/64", "2001:db8:2::/64", "2001:db8:1::/48", "fd00::/64"}

// c12PrefixesLarge is the pool of the "large" generator mode (one case in
// four, up to 24 options a side): several lengths at the same base address,
// nested and disjoint networks, so that long option lists with near-equal
// keys occur on both sides.
var c12PrefixesLarge = append(append([]string(nil), c12Prefixes...), "2001:db8::/32", "2001:db8::/48", "2001:db8::/56", "2001:db8::/64", "2001:db8:1::/56",
	"2001:db8:2::/48", "2001:db8:3::/64", "fd00::/8", "fd00::/48", "fd00:0:0:1::/64", "2a00:1::/32", "2a00:1::/64")
var c12Servers = [][]string{{"2001:db8::53"}, {"2001:db8::53", "2001:db8::54"}, {"2001:db8::54", "2001:db8::53"}, {"fd00::53"}}
// (the last three differ from earlier ones in letter case only: on the wire those are different contents)
var c12Domains = [][]string{{"lan"}, {"lan", "example.com"}, {"example.com", "lan"}, {"corp.example.net"},
	{"LAN"}, {"lan", "Example.com"}, {"corp.example.NET"}}

func c12GenOpt(t *rapid.T, kind string, pool []string) vOpt {
	life := rapid.SampledFrom([]int64{0, 600, 1800, 86400, 1, 599, 601, 65535, 4294967294, 4294967295}).Draw(t, kind+"-life")
	switch kind {
	case "prefix":
		v := rapid.SampledFrom([]int64{600, 1800, 86400, 4294967295, 600, 1800, 1, 601, 4294967294, 0}).Draw(t, "valid")
		return vOpt{Kind: kind, Prefix: rapid.SampledFrom(pool).Draw(t, "prefix"), OnLink: rapid.Bool().Draw(t, "l"), Auto: rapid.Bool().Draw(t, "a"),
			ValidS: v, PrefS: max(0, min(v, rapid.SampledFrom([]int64{300, 600, v, 0, 1, 599, v - 1}).Draw(t, "pref")))}
	case "route":
		return vOpt{Kind: kind, Prefix: rapid.SampledFrom(pool).Draw(t, "rprefix"), RPref: rapid.SampledFrom([]int{0, 1, 3}).Draw(t, "rpref"), LifeS: life}
	case "rdnss":
		return vOpt{Kind: kind, LifeS: life, Servers: rapid.SampledFrom(c12Servers).Draw(t, "servers")}
	case "dnssl":
		return vOpt{Kind: kind, LifeS: life, Domains: rapid.SampledFrom(c12Domains).Draw(t, "domains")}
	case "mtu":
		return vOpt{Kind: kind, MTU: rapid.SampledFrom([]uint32{1280, 1500, 9000, 1280, 1500, 1, 1499, 1501, 65535, 65536, 4294967295}).Draw(t, "mtu")}
	case "cp":
		return vOpt{Kind: kind, URI: rapid.SampledFrom([]string{"https://a.example/", "https://b.example/", "urn:ietf:params:capport:unrestricted", "https://A.example/",
			"https://a.example/#", "HTTPS://a.example/", "https://a.example", "https://a.example/%7e", "https://a.example/~"}).Draw(t, "uri")}
	case "lla":
		return vOpt{Kind: kind, MTU: uint32(rapid.IntRange(1, 3).Draw(t, "mac"))}
	case "pref64":
		return vOpt{Kind: kind, Prefix: "64:ff9b::/96", LifeS: rapid.SampledFrom([]int64{600, 1800, 0, 8, 65528}).Draw(t, "p64life")}
	}
	return vOpt{Kind: "raw"}
}

// c12Foreign: what another router sends need not obey the rules our own configuration parser enforces - one
// prefix option in three gets a preferred lifetime drawn without regard to the valid one (also above it).
func c12Foreign(t *rapid.T, o vOpt) vOpt {
	if o.Kind == "prefix" && rapid.IntRange(0, 2).Draw(t, "foreign-pref") == 0 {
		o.PrefS = rapid.SampledFrom([]int64{0, 300, 600, 601, 1800, 7200, 86400, 4294967295, min(o.ValidS+1, 4294967295)}).Draw(t, "fpref")
	}
	return o
}

func c12GenRA(t *rapid.T, theirs bool, pool []string) vRA {
	r := vRA{
		Hop:   rapid.SampledFrom([]uint8{0, 64, 64, 255}).Draw(t, "hop"),
		M:     rapid.Bool().Draw(t, "m"),
		O:     rapid.Bool().Draw(t, "o"),
		Pref:  rapid.SampledFrom([]int{0, 1, 3}).Draw(t, "pref"),
		LifeS: rapid.SampledFrom([]int64{0, 1800, 9000, 1, 1799, 65535}).Draw(t, "life"),
		// the two timers travel in milliseconds: values within one second of each other, sub-second and large ones
		ReachMS:   rapid.SampledFrom([]int64{0, 0, 1000, 30000, 1200, 1800, 250, 3600000}).Draw(t, "reach"),
		RetransMS: rapid.SampledFrom([]int64{0, 0, 1000, 5000, 1001, 1999, 500, 1}).Draw(t, "retrans"),
	}
	if rapid.IntRange(0, 2).Draw(t, "anyhop") == 0 {
		r.Hop = rapid.Uint8().Draw(t, "hopv")
	}
	kinds := []string{"prefix", "prefix", "route", "route", "rdnss", "rdnss", "dnssl", "dnssl", "mtu", "cp", "lla", "pref64"}
	if theirs {
		kinds = append(kinds, "raw")
	}
	nopts := rapid.IntRange(0, 7).Draw(t, "nopts")
	if len(pool) > len(c12Prefixes) {
		kinds = append(kinds, "prefix", "prefix", "prefix", "prefix", "route", "route", "route", "route", "route", "route")
		nopts = rapid.IntRange(6, 30).Draw(t, "noptslarge")
	}
	usedP, usedR, single := map[string]bool{}, map[string]bool{}, map[string]bool{}
	repeats := theirs && rapid.IntRange(0, 2).Draw(t, "repeats") == 0
	for i, n := 0, nopts; i < n; i++ {
		kind := rapid.SampledFrom(kinds).Draw(t, "kind")
		o := c12GenOpt(t, kind, pool)
		if theirs {
			o = c12Foreign(t, o)
		}
		// in the large mode our own lists are as a configuration allows them:
		// no two prefixes (or routes) overlap; other routers may send anything
		overlaps := func(used map[string]bool) bool {
			if theirs || len(pool) == len(c12Prefixes) {
				return false
			}
			for u := range used {
				if netip.MustParsePrefix(u).Overlaps(netip.MustParsePrefix(o.Prefix)) {
					return true
				}
			}
			return false
		}
		switch kind {
		case "prefix": // ours: one option per prefix (a configuration cannot repeat one); another router may repeat
			if (usedP[o.Prefix] && !(theirs && repeats)) || overlaps(usedP) {
				continue
			}
			usedP[o.Prefix] = true
		case "route":
			if (usedR[o.Prefix] && !(theirs && repeats)) || overlaps(usedR) {
				continue
			}
			usedR[o.Prefix] = true
		case "mtu", "cp", "lla", "pref64":
			if single[kind] {
				continue
			}
			single[kind] = true
		}
		r.Opts = append(r.Opts, o)
	}
	if !theirs {
		// ours comes out of the configuration in the fixed plugin order
		order := map[string]int{"prefix": 0, "route": 1, "rdnss": 2, "dnssl": 3, "mtu": 4, "lla": 5, "cp": 6, "pref64": 7}
		sort.SliceStable(r.Opts, func(i, j int) bool { return order[r.Opts[i].Kind] < order[r.Opts[j].Kind] })
	}
	return r
}

func c12Gen(t *rapid.T) c12Case {
	pool := c12Prefixes
	if rapid.IntRange(0, 3).Draw(t, "large") == 3 {
		pool = c12PrefixesLarge
	}
	ours := c12GenRA(t, false, pool)
	var theirs vRA
	repeats := false
	if rapid.Bool().Draw(t, "derive") {
		// theirs = ours with a few edits: keeps many aspects present on both sides
		b, _ := json.Marshal(ours)
		_ = json.Unmarshal(b, &theirs)
		for i, n := 0, rapid.IntRange(0, 3+len(pool)/4).Draw(t, "nedits"); i < n; i++ {
			switch rapid.IntRange(0, 8).Draw(t, "edit") {
			case 8:
				// a second option for a prefix / route the RA already lists, with values of its own, anywhere in the RA
				if len(theirs.Opts) > 0 {
					j := rapid.IntRange(0, len(theirs.Opts)-1).Draw(t, "ecopy")
					if o := theirs.Opts[j]; o.Kind == "prefix" || o.Kind == "route" {
						o2 := c12Foreign(t, c12GenOpt(t, o.Kind, pool))
						o2.Prefix = o.Prefix
						if rapid.Bool().Draw(t, "samepref") {
							o2.RPref = o.RPref
						}
						at := rapid.IntRange(0, len(theirs.Opts)).Draw(t, "ecopyat")
						theirs.Opts = slices.Insert(slices.Clone(theirs.Opts), at, o2)
						repeats = true
					}
				}
			case 0:
				theirs.Hop = rapid.SampledFrom([]uint8{0, 64, 255}).Draw(t, "ehop")
			case 1:
				theirs.M = !theirs.M
			case 2:
				theirs.O = !theirs.O
			case 3:
				theirs.ReachMS = rapid.SampledFrom([]int64{0, 1000, 30000, 1200, 1800, 250, 1001}).Draw(t, "ereach")
			case 4:
				theirs.RetransMS = rapid.SampledFrom([]int64{0, 1000, 5000, 1001, 1999, 500, 1}).Draw(t, "eretrans")
			case 5:
				if len(theirs.Opts) > 0 {
					j := rapid.IntRange(0, len(theirs.Opts)-1).Draw(t, "eopt")
					prefix := theirs.Opts[j].Prefix
					theirs.Opts[j] = c12Foreign(t, c12GenOpt(t, theirs.Opts[j].Kind, pool))
					if prefix != "" && rapid.Bool().Draw(t, "keepprefix") {
						theirs.Opts[j].Prefix = prefix
					}
				}
			case 6:
				if len(theirs.Opts) > 0 {
					j := rapid.IntRange(0, len(theirs.Opts)-1).Draw(t, "edel")
					theirs.Opts = append(theirs.Opts[:j], theirs.Opts[j+1:]...)
				}
			default:
				if len(theirs.Opts) > 1 {
					theirs.Opts = rapid.Permutation(theirs.Opts).Draw(t, "shuffle")
				}
			}
		}
		// keep prefixes / routes unique within theirs
		seen := map[string]bool{}
		var opts []vOpt
		for _, o := range theirs.Opts {
			key := o.Kind + o.Prefix
			if (o.Kind == "prefix" || o.Kind == "route") && seen[key] && !repeats {
				continue
			}
			seen[key] = true
			opts = append(opts, o)
		}
		theirs.Opts = opts
	} else {
		theirs = c12GenRA(t, true, pool)
	}
	return c12Case{Ours: ours, Theirs: theirs}
}

// c12Aspects enumerates, per aspect, the classes absent/zero, value x, value y
// on each side, and all pairs of aspects combined.
func c12Aspects(yield func(c12Case) bool) {
	type setter func(r *vRA, class int) // class 0 absent/zero, 1 value x, 2 value y
	aspects := []setter{
		func(r *vRA, c int) { r.Hop = []uint8{0, 64, 255}[c] },
		func(r *vRA, c int) { r.M = c == 1 },
		func(r *vRA, c int) { r.O = c == 2 },
		func(r *vRA, c int) { r.ReachMS = []int64{0, 1200, 1800}[c] }, // x and y within the same second: the unit is the millisecond
		func(r *vRA, c int) { r.RetransMS = []int64{0, 1000, 5000}[c] },
		func(r *vRA, c int) {
			if c > 0 {
				r.Opts = append(r.Opts, vOpt{Kind: "mtu", MTU: []uint32{0, 1500, 9000}[c]})
			}
		},
		func(r *vRA, c int) {
			if c > 0 {
				r.Opts = append(r.Opts, vOpt{Kind: "prefix", Prefix: "2001:db8:1::/64", ValidS: []int64{0, 86400, 7200}[c], PrefS: []int64{0, 14400, 3600}[c]})
			}
		},
		func(r *vRA, c int) {
			if c > 0 {
				r.Opts = append(r.Opts, vOpt{Kind: "prefix", Prefix: []string{"", "2001:db8:2::/64", "2001:db8:2::/48"}[c], ValidS: int64(1000 * c), PrefS: 500})
			}
		},
		func(r *vRA, c int) {
			if c > 0 {
				r.Opts = append(r.Opts, vOpt{Kind: "route", Prefix: "2001:db8:3::/48", LifeS: []int64{0, 1800, 600}[c]})
			}
		},
		func(r *vRA, c int) {
			if c > 0 {
				r.Opts = append(r.Opts, vOpt{Kind: "route", Prefix: "2001:db8:4::/48", LifeS: int64(600 * c), RPref: []int{0, 1, 3}[c]})
			}
		},
		func(r *vRA, c int) {
			if c > 0 {
				r.Opts = append(r.Opts, vOpt{Kind: "rdnss", LifeS: []int64{0, 1800, 600}[c], Servers: c12Servers[0]})
			}
		},
		func(r *vRA, c int) {
			if c > 0 {
				r.Opts = append(r.Opts, vOpt{Kind: "rdnss", LifeS: 1800, Servers: c12Servers[c]})
			}
		},
		func(r *vRA, c int) {
			for i := 0; i < c; i++ {
				r.Opts = append(r.Opts, vOpt{Kind: "rdnss", LifeS: 1800, Servers: c12Servers[3]})
			}
		},
		func(r *vRA, c int) {
			if c > 0 {
				r.Opts = append(r.Opts, vOpt{Kind: "dnssl", LifeS: []int64{0, 1800, 600}[c], Domains: c12Domains[0]})
			}
		},
		func(r *vRA, c int) {
			if c > 0 {
				r.Opts = append(r.Opts, vOpt{Kind: "dnssl", LifeS: 1800, Domains: c12Domains[c]})
			}
		},
		func(r *vRA, c int) {
			for i := 0; i < c; i++ {
				r.Opts = append(r.Opts, vOpt{Kind: "dnssl", LifeS: 1800, Domains: c12Domains[3]})
			}
		},
		func(r *vRA, c int) {
			if c > 0 {
				r.Opts = append(r.Opts, vOpt{Kind: "cp", URI: []string{"", "https://a.example/", "https://b.example/"}[c]})
			}
		},
	}
	order := map[string]int{"prefix": 0, "route": 1, "rdnss": 2, "dnssl": 3, "mtu": 4, "lla": 5, "cp": 6, "pref64": 7}
	emit := func(sets []setter, classes [][2]int) bool {
		var a, b vRA
		a.Hop, b.Hop = 64, 64
		for i, s := range sets {
			s(&a, classes[i][0])
			s(&b, classes[i][1])
		}
		sort.SliceStable(a.Opts, func(i, j int) bool { return order[a.Opts[i].Kind] < order[a.Opts[j].Kind] })
		return yield(c12Case{Ours: a, Theirs: b})
	}
	for i, s := range aspects {
		for ca := 0; ca < 3; ca++ {
			for cb := 0; cb < 3; cb++ {
				if !emit([]setter{s}, [][2]int{{ca, cb}}) {
					return
				}
				for j := i + 1; j < len(aspects); j++ {
					// aspects that add the same option kind interact (rdnss/dnssl counts): combined on purpose
					for da := 0; da < 3; da++ {
						for db := 0; db < 3; db++ {
							if !emit([]setter{s, aspects[j]}, [][2]int{{ca, cb}, {da, db}}) {
								return
							}
						}
					}
				}
			}
		}
	}
	// the same inconsistency several times over: k options of a kind on both sides, each pair differing in the same
	// way - k identical problems, each of which is logged and counted
	for _, kind := range []string{"rdnss", "dnssl", "route"} {
		for k := 2; k <= 3; k++ {
			var a, b vRA
			a.Hop, b.Hop = 64, 64
			for i := 0; i < k; i++ {
				switch kind {
				case "rdnss":
					a.Opts = append(a.Opts, vOpt{Kind: kind, LifeS: 1800, Servers: c12Servers[0]})
					b.Opts = append(b.Opts, vOpt{Kind: kind, LifeS: 600, Servers: c12Servers[0]})
				case "dnssl":
					a.Opts = append(a.Opts, vOpt{Kind: kind, LifeS: 1800, Domains: c12Domains[0]})
					b.Opts = append(b.Opts, vOpt{Kind: kind, LifeS: 600, Domains: c12Domains[0]})
				default:
					// (our configuration cannot repeat a route, the other router can: one of ours against k of theirs)
					if i == 0 {
						a.Opts = append(a.Opts, vOpt{Kind: kind, Prefix: "2001:db8:3::/48", LifeS: 1800})
					}
					b.Opts = append(b.Opts, vOpt{Kind: kind, Prefix: "2001:db8:3::/48", LifeS: 600})
				}
			}
			if !yield(c12Case{Ours: a, Theirs: b}) {
				return
			}
		}
	}
}

// --- the own RA follows the system ----------------------------------------------

// c12Live: an advertiser whose configuration has a ::/64 wildcard prefix stanza
// receives the same foreign RA several times while the interface's address
// list (and with it the RA the advertiser itself sends) changes in between.
// Every reception must be judged against the own RA of that moment.
type c12Live struct {
	Ours   vRA        `json:"ours"` // static part of the own RA
	Wild   vOpt       `json:"wildcard_prefix"`
	Nets   [][]string `json:"address_networks"` // per step: the /64 networks the interface has addresses in
	Theirs vRA        `json:"theirs"`
	// Later, if present: the RA received at step i is Later[i-1] instead of Theirs (steps beyond it: the last
	// one) - several routers, or one that changes what it sends, seen by one long-lived Advertiser
	Later []vRA `json:"theirs_later,omitempty"`
}

func c12LiveProp(k *verifkit.Kit) func(c c12Live) error {
	return func(c c12Live) error {
		changes := 0
		for i := 1; i < len(c.Nets); i++ {
			if fmt.Sprint(c.Nets[i]) != fmt.Sprint(c.Nets[i-1]) {
				changes++
			}
		}
		k.Record(c, changes >= 1 || len(c.Later) > 0, fmt.Sprintf("live:address-changes=%d", min(changes, 3)))
		logs := &lockedBuf{}
		mem := metricslite.NewMemory()
		mm := NewMetrics(mem, "verif", time.Time{}, system.TestState{Forwarding: true}, nil)
		cctx := NewContext(log.New(logs, "", 0), mm, system.TestState{Forwarding: true})
		cfg := c.Ours.iface("eth0")
		var cur []string
		wild := &plugin.Prefix{Auto: true, Prefix: netip.MustParsePrefix("::/64"), OnLink: c.Wild.OnLink, Autonomous: c.Wild.Auto,
			ValidLifetime: time.Duration(c.Wild.ValidS) * time.Second, PreferredLifetime: time.Duration(c.Wild.PrefS) * time.Second,
			TimeNow: time.Now, Addrs: func() ([]system.IP, error) {
				var out []system.IP
				for _, n := range cur {
					p := netip.MustParsePrefix(n)
					out = append(out, system.IP{Address: netip.PrefixFrom(p.Addr().Next(), 64)})
				}
				return out, nil
			}}
		cfg.Plugins = append([]plugin.Plugin{wild}, cfg.Plugins...)
		a := NewAdvertiser(cctx, cfg, nil, nil, func() bool { return false })
		hooks := 0
		a.OnInconsistentRA = func(o, t *ndp.RouterAdvertisement) { hooks++ }
		wire := func(r vRA) (ndp.Message, error) {
			b, err := ndp.MarshalMessage(r.ndp())
			if err != nil {
				return nil, fmt.Errorf("verif: generated RA does not encode: %v", err)
			}
			m, err := ndp.ParseMessage(b)
			if err != nil {
				return nil, fmt.Errorf("verif: generated RA does not decode: %v", err)
			}
			return m, nil
		}
		if len(c.Later) > 0 {
			k.Class("live:a-different-RA-per-reception")
		}
		prev := map[string]float64{}
		prevLogs, prevHooks := 0, 0
		for step, nets := range c.Nets {
			cur = nets
			// the own RA of this moment: the wildcard's networks in ascending order, then the static options
			ours := c.Ours
			ours.Opts = nil
			sorted := append([]string(nil), nets...)
			sort.Slice(sorted, func(i, j int) bool {
				return netip.MustParsePrefix(sorted[i]).Addr().Less(netip.MustParsePrefix(sorted[j]).Addr())
			})
			seen := map[string]bool{}
			for _, n := range sorted {
				if !seen[n] {
					seen[n] = true
					ours.Opts = append(ours.Opts, vOpt{Kind: "prefix", Prefix: n, OnLink: c.Wild.OnLink, Auto: c.Wild.Auto, ValidS: c.Wild.ValidS, PrefS: c.Wild.PrefS})
				}
			}
			ours.Opts = append(ours.Opts, c.Ours.Opts...)
			theirs := c.Theirs
			if step > 0 && len(c.Later) > 0 {
				theirs = c.Later[min(step, len(c.Later))-1]
			}
			m, err := wire(theirs)
			if err != nil {
				return err
			}
			want, unspec := c12Expected(ours, theirs)
			drop := map[string]bool{}
			for _, u := range unspec {
				drop[u] = true
			}
			if _, err := a.handle(m, netip.MustParseAddr("fe80::2")); err != nil {
				return verifkit.Violf("C12/handle-error", "step %d: handle returned %v", step, err)
			}
			series, _ := mm.Series()
			var counted []c12Label
			for key, v := range series[advInconsistencies].Samples {
				var l c12Label
				for _, kv := range strings.Split(key, ",") {
					switch {
					case strings.HasPrefix(kv, "details="):
						l.Details = strings.TrimPrefix(kv, "details=")
					case strings.HasPrefix(kv, "field="):
						l.Field = strings.TrimPrefix(kv, "field=")
					}
				}
				for i := 0; i < int(v-prev[key]); i++ {
					counted = append(counted, l)
				}
				prev[key] = v
			}
			if gotS, wantS := c12Multiset(counted, drop), c12Multiset(want, drop); gotS != wantS {
				return verifkit.Violf("C12/live/"+c12Diff(wantS, gotS), "reception %d with addresses in %v: want {%s} got {%s} (own RA of this moment: %s)", step, nets, wantS, gotS, raStr(ours.ndp()))
			}
			if len(unspec) == 0 && ((hooks-prevHooks > 0) != (len(want) > 0) || hooks-prevHooks > 1) {
				return verifkit.Violf("C12/live/hook", "reception %d: hook fired %d times for %d expected inconsistencies", step, hooks-prevHooks, len(want))
			}
			prevHooks = hooks
			_ = prevLogs
		}
		return nil
	}
}

func c12GenLive(t *rapid.T) c12Live {
	nets := []string{"2001:db8:1::/64", "2001:db8:2::/64", "fd00::/64", "2001:db8:3::/64"}
	c := c12Live{Ours: c12GenRA(t, false, c12Prefixes), Wild: vOpt{Kind: "prefix", OnLink: rapid.Bool().Draw(t, "wl"), Auto: rapid.Bool().Draw(t, "wa"),
		ValidS: rapid.SampledFrom([]int64{600, 1800, 86400}).Draw(t, "wvalid")}}
	c.Wild.PrefS = rapid.SampledFrom([]int64{300, 600, c.Wild.ValidS}).Draw(t, "wpref")
	if c.Wild.PrefS > c.Wild.ValidS {
		c.Wild.PrefS = c.Wild.ValidS
	}
	// no static prefix stanza of ours may coincide with a network the wildcard can expand to
	var opts []vOpt
	for _, o := range c.Ours.Opts {
		if o.Kind != "prefix" {
			opts = append(opts, o)
		}
	}
	c.Ours.Opts = opts
	for i, n := 0, rapid.IntRange(2, 4).Draw(t, "steps"); i < n; i++ {
		var step []string
		for _, x := range nets {
			if rapid.Bool().Draw(t, "has") {
				step = append(step, x)
			}
		}
		c.Nets = append(c.Nets, step)
	}
	// the other router advertises some of these networks, with its own lifetimes
	c.Theirs = c12GenRA(t, true, c12Prefixes)
	var topts []vOpt
	for _, o := range c.Theirs.Opts {
		if o.Kind != "prefix" {
			topts = append(topts, o)
		}
	}
	for _, x := range nets {
		if rapid.Bool().Draw(t, "theirs-has") {
			v := rapid.SampledFrom([]int64{600, 1800, 86400}).Draw(t, "tvalid")
			topts = append(topts, vOpt{Kind: "prefix", Prefix: x, OnLink: true, Auto: true, ValidS: v, PrefS: rapid.SampledFrom([]int64{300, 600, v, v + 1, 7200}).Draw(t, "tpref")})
		}
	}
	c.Theirs.Opts = topts
	if rapid.Bool().Draw(t, "later") {
		// later receptions bring other RAs: the first one with single-valued options (MTU, captive portal) dropped,
		// changed or added, and everything else re-drawn now and then
		for i, n := 0, rapid.IntRange(1, 3).Draw(t, "nlater"); i < n; i++ {
			var r vRA
			bb, _ := json.Marshal(c.Theirs)
			_ = json.Unmarshal(bb, &r)
			if rapid.IntRange(0, 3).Draw(t, "redraw") == 0 {
				r = c12GenRA(t, true, c12Prefixes)
			}
			var opts []vOpt
			for _, o := range r.Opts {
				if (o.Kind == "mtu" || o.Kind == "cp") && rapid.Bool().Draw(t, "dropsingle") {
					continue
				}
				if (o.Kind == "mtu" || o.Kind == "cp") && rapid.Bool().Draw(t, "changesingle") {
					o = c12Foreign(t, c12GenOpt(t, o.Kind, c12Prefixes))
				}
				opts = append(opts, o)
			}
			for _, kind := range []string{"mtu", "cp"} {
				if len(c12Pick(vRA{Opts: opts}, kind)) == 0 && rapid.IntRange(0, 2).Draw(t, "addsingle") == 0 {
					opts = append(opts, c12Foreign(t, c12GenOpt(t, kind, c12Prefixes)))
				}
			}
			r.Opts = opts
			c.Later = append(c.Later, r)
		}
	}
	return c
}

// Two advertising interfaces at once: each has its own Advertiser (its own listener goroutine in the daemon), both
// share the Context, the Metrics and the logger, and each hears an RA from another router while the other is still
// writing its report (writing a log line takes 0.1 ms here). Each interface must report exactly its own
// inconsistencies under its own name.
type c12Two struct {
	Ours     [2]vRA `json:"ours"`
	Theirs   [2]vRA `json:"theirs"`
	OffsetNS int64  `json:"offset_ns"` // the second RA arrives this long after the first
}

type slowLog struct {
	mu sync.Mutex
	b  bytes.Buffer
}

func (l *slowLog) Write(p []byte) (int, error) {
	time.Sleep(100 * time.Microsecond)
	l.mu.Lock()
	defer l.mu.Unlock()
	return l.b.Write(p)
}

func c12TwoProp(t *testing.T, k *verifkit.Kit) func(c c12Two) error {
	return func(c c12Two) error {
		names := [2]string{"lan0", "lan1"}
		var want [2][]c12Label
		var drops [2]map[string]bool
		total := 0
		for i := range names {
			w, unspec := c12Expected(c.Ours[i], c.Theirs[i])
			want[i], drops[i] = w, map[string]bool{}
			for _, u := range unspec {
				drops[i][u] = true
			}
			if len(w) > 0 {
				total++
			}
		}
		k.Record(c, total == 2, fmt.Sprintf("two-interfaces:both-inconsistent=%v", total == 2))
		var msgs [2]ndp.Message
		for i := range names {
			b, err := ndp.MarshalMessage(c.Theirs[i].ndp())
			if err != nil {
				return fmt.Errorf("verif: generated RA does not encode: %v", err)
			}
			if msgs[i], err = ndp.ParseMessage(b); err != nil {
				return fmt.Errorf("verif: generated RA does not decode: %v", err)
			}
		}
		var series map[string]metricslite.Series
		var hooks [2]int
		var herr [2]error
		var pan any
		func() {
			defer func() { pan = recover() }()
			// (on the real clock, not in a bubble: the two share one logger, whose mutex a sleeping writer holds - a
			// goroutine waiting for a mutex is not "durably blocked", so a bubble's clock would never move. Nothing
			// here is judged by time: whatever the interleaving, each interface must count its own labels.)
			func() {
				mem := metricslite.NewMemory()
				st := system.TestState{Forwarding: true}
				mm := NewMetrics(mem, "verif", time.Time{}, st, nil)
				cctx := NewContext(log.New(&slowLog{}, "", 0), mm, st)
				var wg sync.WaitGroup
				for i, name := range names {
					a := NewAdvertiser(cctx, c.Ours[i].iface(name), nil, nil, func() bool { return false })
					a.OnInconsistentRA = func(o, th *ndp.RouterAdvertisement) { hooks[i]++ }
					wg.Add(1)
					go func() {
						defer wg.Done()
						if i == 1 {
							time.Sleep(time.Duration(c.OffsetNS))
						}
						_, herr[i] = a.handle(msgs[i], netip.MustParseAddr("fe80::2"))
					}()
				}
				wg.Wait()
				series, _ = mm.Series()
			}()
		}()
		if pan != nil {
			return verifkit.Violf("panic", "panic: %v", pan)
		}
		for i, name := range names {
			if herr[i] != nil {
				return verifkit.Violf("C12/handle-error", "%s: handle returned %v", name, herr[i])
			}
			var counted []c12Label
			for key, v := range series[advInconsistencies].Samples {
				var l c12Label
				mine := false
				for _, kv := range strings.Split(key, ",") {
					switch {
					case strings.HasPrefix(kv, "details="):
						l.Details = strings.TrimPrefix(kv, "details=")
					case strings.HasPrefix(kv, "field="):
						l.Field = strings.TrimPrefix(kv, "field=")
					case kv == "interface="+name:
						mine = true
					}
				}
				for j := 0; mine && j < int(v); j++ {
					counted = append(counted, l)
				}
			}
			// (as sets: a received RA may repeat a prefix, see above)
			set := func(ls []c12Label) string {
				return strings.Join(slices.Compact(strings.Fields(c12Multiset(ls, drops[i]))), " ")
			}
			if g, w := set(counted), set(want[i]); g != w {
				return verifkit.Violf("C12/two-interfaces/"+c12Diff(w, g), "%s (the two RAs arrive %v apart, a log line takes 0.1 ms): counted {%s}, its own inconsistencies are {%s}; the other interface's are {%s}",
					name, time.Duration(c.OffsetNS), g, w, set(want[1-i]))
			}
			if len(drops[i]) == 0 && (hooks[i] > 0) != (len(want[i]) > 0) {
				return verifkit.Violf("C12/two-interfaces/hook", "%s: hook fired %d times for %d expected inconsistencies", name, hooks[i], len(want[i]))
			}
		}
		return nil
	}
}

func c12GenTwo(t *rapid.T) c12Two {
	var c c12Two
	for i := range c.Ours {
		c.Ours[i] = c12GenRA(t, false, c12Prefixes)
		// theirs = ours with a few header edits: several inconsistencies, hence several log lines
		b, _ := json.Marshal(c.Ours[i])
		_ = json.Unmarshal(b, &c.Theirs[i])
		for j, n := 0, rapid.IntRange(1, 4).Draw(t, "nedits"); j < n; j++ {
			switch rapid.IntRange(0, 5).Draw(t, "edit") {
			case 0:
				c.Theirs[i].Hop = rapid.SampledFrom([]uint8{1, 64, 255}).Draw(t, "hop")
			case 1:
				c.Theirs[i].M = !c.Theirs[i].M
			case 2:
				c.Theirs[i].O = !c.Theirs[i].O
			case 3:
				c.Theirs[i].ReachMS = rapid.SampledFrom([]int64{1000, 30000, 1200}).Draw(t, "reach")
			case 4:
				c.Theirs[i].RetransMS = rapid.SampledFrom([]int64{1000, 5000, 500}).Draw(t, "retrans")
			default:
				c.Theirs[i] = c12GenRA(t, true, c12Prefixes)
			}
		}
	}
	c.OffsetNS = rapid.SampledFrom([]int64{0, 20000, 50000, 100000, 150000, 250000}).Draw(t, "offset")
	return c
}

func TestVerif_C12(t *testing.T) {
	k := verifkit.Start(t, "C12")
	prop := c12Prop(k)
	live := c12LiveProp(k)
	k.Regress(t, func(sub string, raw json.RawMessage) error {
		if strings.HasPrefix(sub, "live") {
			return verifkit.Decode(raw, live)
		}
		if strings.HasPrefix(sub, "two-interfaces") {
			return verifkit.Decode(raw, c12TwoProp(t, k))
		}
		return verifkit.Decode(raw, prop)
	})
	verifkit.Enumerate(k, t, "aspect-classes-singles-and-pairs", true, c12Aspects, prop)
	verifkit.Rapid(k, t, "random-ra-pairs", k.N(6000, 2000000), c12Gen, prop)
	verifkit.Rapid(k, t, "live-own-ra-follows-the-system", k.N(4000, 400000), c12GenLive, live)
	verifkit.Rapid(k, t, "two-interfaces-at-once", k.N(1500, 150000), c12GenTwo, c12TwoProp(t, k))
}

package corerad

// C18: monitor metrics describe every received message exactly. Oracle: a
// last-write-wins model of the corerad_monitor_* series, compared after every
// message on the value path (Monitor.handle with an injected clock) and at the
// end of a real Monitor.Run on virtual time (messages through the codec and
// the listener, so the zone stripping is on the path).

import (
	"encoding/json"
	"fmt"
	"log"
	"net/netip"
	"sort"
	"strings"
	"testing"
	"time"

	"github.com/mdlayher/corerad/internal/system"
	"github.com/mdlayher/corerad/internal/verifkit"
	"github.com/mdlayher/metricslite"
	"github.com/mdlayher/ndp"
	"pgregory.net/rapid"
)

type c18Case struct {
	Msgs       []c18Msg `json:"msgs"`
	StartS     int64    `json:"start_unix_s"` // value path: wall clock at start
	StartNS    int64    `json:"start_ns"`
	RunPath    bool     `json:"run_path"`
	ConsumerNS int64    `json:"consumer_ns,omitempty"` // run path: the OnMessage consumer is slow
}

func c18Build(msg c18Msg) ndp.Message {
	e := advEvent{Msg: msg.Kind, RA: msg.RA}
	return vkMsg(e) // RAs pass through MarshalMessage/ParseMessage
}

func c18Prop(t *testing.T, k *verifkit.Kit) func(c c18Case) error {
	return func(c c18Case) error {
		prefixes, repeated := 0, false
		seen := map[string]bool{}
		for _, m := range c.Msgs {
			if seen[m.From] {
				repeated = true
			}
			seen[m.From] = true
			if m.RA != nil {
				for _, o := range m.RA.Opts {
					if o.Kind == "prefix" {
						prefixes++
					}
				}
			}
		}
		cls := []string{fmt.Sprintf("run-path=%v", c.RunPath), fmt.Sprintf("prefix-options/4=%d", min(prefixes/4, 5))}
		impossible := false
		for _, m := range c.Msgs {
			if m.RA != nil {
				for _, o := range m.RA.Opts {
					impossible = impossible || o.RawLen > 128
				}
			}
		}
		if impossible {
			cls = append(cls, "impossible-prefix-length")
		}
		k.Record(c, prefixes > 0 || repeated, cls...)
		model := c18Model{}
		if !c.RunPath {
			mem := metricslite.NewMemory()
			mm := NewMetrics(mem, "verif", time.Time{}, system.TestState{}, nil)
			cctx := NewContext(log.New(&lockedBuf{}, "", 0), mm, system.TestState{})
			mon := NewMonitor(cctx, "eth1", nil, nil, true)
			var now time.Time
			mon.now = func() time.Time { return now }
			start := time.Unix(c.StartS, c.StartNS)
			for i, msg := range c.Msgs {
				now = start.Add(time.Duration(msg.AtNS))
				mon.handle(c18Build(msg), msg.From)
				c18Apply(model, msg, now, "eth1")
				series, _ := mm.Series()
				if err := c18Compare(model, series, i); err != nil {
					return err
				}
			}
			return nil
		}
		var evs []advEvent
		for _, msg := range c.Msgs {
			from := msg.From
			evs = append(evs, advEvent{AtNS: msg.AtNS, Kind: "msg", Msg: msg.Kind, RA: msg.RA, From: from})
		}
		last := int64(0)
		if len(c.Msgs) > 0 {
			last = c.Msgs[len(c.Msgs)-1].AtNS
		}
		r := runMonitor(t, monScenario{Events: evs, StopNS: last + int64(time.Second) + int64(len(evs)+1)*c.ConsumerNS, Verbose: true, ConsumerNS: c.ConsumerNS})
		if r.Panic != nil || r.W == nil {
			return verifkit.Violf("panic", "panic in bubble: %v", r.Panic)
		}
		if r.Returned && r.RetAt < r.StopAt {
			return verifkit.Violf("C18/monitor-stopped", "Monitor.Run returned %v before the stop\n%s", r.RetErr, r.W.timeline())
		}
		epoch := time.Unix(946684800, 0)
		for _, rd := range r.Reads {
			_ = rd
		}
		if len(r.Reads) != len(c.Msgs) {
			return verifkit.Violf("C18/messages-not-read", "%d of %d messages were read\n%s", len(r.Reads), len(c.Msgs), r.W.timeline())
		}
		for i, msg := range c.Msgs {
			c18Apply(model, msg, epoch.Add(r.Reads[i].At), "eth1")
		}
		if err := c18Compare(model, r.Series, len(c.Msgs)-1); err != nil {
			return err
		}
		if len(r.Callbacks) != len(c.Msgs) {
			return verifkit.Violf("C18/callback-count", "OnMessage fired %d times for %d messages", len(r.Callbacks), len(c.Msgs))
		}
		return nil
	}
}

var c18Hosts = []string{"fe80::1", "fe80::2", "2001:db8::1", "fe80::aaaa:bbbb"}

// several prefixes share an address and differ only in length
var c18Prefixes = []string{"2001:db8:1::/64", "2001:db8:1::/48", "2001:db8:2::/64", "2001:db8::/32", "2001:db8::/48", "2001:db8::/64", "fd00::/8", "fd00::/16", "::/0", "::/64", "2001:db8::1/128", "2001:db8:1::/64"}

func c18Gen(t *rapid.T) c18Case {
	c := c18Case{RunPath: rapid.IntRange(0, 2).Draw(t, "runpath") == 0,
		StartS: rapid.Int64Range(0, 4102444800).Draw(t, "start"), StartNS: rapid.Int64Range(0, 999999999).Draw(t, "startns")}
	if c.RunPath && rapid.IntRange(0, 2).Draw(t, "slowconsumer") == 0 {
		c.ConsumerNS = rapid.SampledFrom([]int64{int64(time.Millisecond), int64(time.Second), int64(3 * time.Second)}).Draw(t, "consumer")
	}
	at := int64(0)
	for i, n := 0, rapid.IntRange(1, 16).Draw(t, "nmsgs"); i < n; i++ {
		at += rapid.SampledFrom([]int64{0, 1, 999999999, int64(time.Second), int64(time.Hour)}).Draw(t, "gap")
		if c.RunPath && at > int64(48*time.Hour) {
			at = int64(48 * time.Hour)
		}
		m := c18Msg{From: rapid.SampledFrom(c18Hosts).Draw(t, "from"), AtNS: at}
		// one message in four repeats an earlier one (verbatim, from another
		// sender, or with one flag flipped): histories like A, B, A within one
		// second are what any memoisation of "already seen" gets wrong
		if len(c.Msgs) > 0 && rapid.IntRange(0, 3).Draw(t, "again") == 0 {
			prev := c.Msgs[rapid.IntRange(0, len(c.Msgs)-1).Draw(t, "again-which")]
			b, _ := json.Marshal(prev)
			var cp c18Msg
			_ = json.Unmarshal(b, &cp)
			cp.AtNS = at
			switch rapid.IntRange(0, 3).Draw(t, "again-how") {
			case 0:
				cp.From = m.From
			case 1:
				if cp.RA != nil {
					cp.RA.M = !cp.RA.M
				}
			}
			c.Msgs = append(c.Msgs, cp)
			continue
		}
		switch rapid.IntRange(0, 5).Draw(t, "kind") {
		case 0:
			m.Kind = "rs"
		case 1:
			m.Kind = rapid.SampledFrom([]string{"ns", "na"}).Draw(t, "nkind")
		default:
			m.Kind = "ra"
			ra := &vRA{Hop: uint8(rapid.IntRange(0, 255).Draw(t, "hop")), M: rapid.Bool().Draw(t, "m"), O: rapid.Bool().Draw(t, "o"),
				Pref: rapid.SampledFrom([]int{0, 1, 3}).Draw(t, "pref"), LifeS: rapid.SampledFrom([]int64{0, 0, 1, 1800, 9000, 65535}).Draw(t, "life"),
				ReachMS: rapid.Int64Range(0, 3600000).Draw(t, "reach"), RetransMS: rapid.Int64Range(0, 3600000).Draw(t, "retrans")}
			for j, np := 0, rapid.IntRange(0, 6).Draw(t, "nopts"); j < np; j++ {
				switch rapid.IntRange(0, 5).Draw(t, "okind") {
				case 0:
					ra.Opts = append(ra.Opts, vOpt{Kind: "raw"})
				case 1:
					ra.Opts = append(ra.Opts, c12GenOpt(t, rapid.SampledFrom([]string{"route", "rdnss", "dnssl", "mtu", "lla"}).Draw(t, "other"), c12Prefixes))
				default:
					o := vOpt{Kind: "prefix", Prefix: rapid.SampledFrom(c18Prefixes).Draw(t, "prefix"), OnLink: rapid.Bool().Draw(t, "l"), Auto: rapid.Bool().Draw(t, "a"),
						ValidS: rapid.SampledFrom([]int64{0, 1, 600, 86400, 4294967295}).Draw(t, "valid"), PrefS: rapid.SampledFrom([]int64{0, 1, 300, 14400, 4294967295}).Draw(t, "preferred")}
					if rapid.IntRange(0, 11).Draw(t, "rawlen") == 0 {
						// the length is a raw byte on the wire: a peer can send 129..255
						o.RawLen = rapid.SampledFrom([]uint8{129, 200, 255}).Draw(t, "rawlenv")
					}
					ra.Opts = append(ra.Opts, o)
				}
			}
			m.RA = ra
		}
		c.Msgs = append(c.Msgs, m)
	}
	return c
}

// c18Crowd: a busy link - N distinct senders, each heard once (the messages cycle through a few generated
// templates), then a few more messages from the usual hosts and from members of the crowd.  Every one of them must
// be counted, however many there are: nothing in the statement bounds the number of senders a monitor hears.
type c18Crowd struct {
	N     int      `json:"n_senders"`
	Style int      `json:"address_style"`
	Tmpl  []c18Msg `json:"templates"`
	After []c18Msg `json:"after"`
	Again []int    `json:"again"` // crowd members heard a second time at the end
}

func (c c18Crowd) addr(i int) string {
	switch c.Style {
	case 0:
		return fmt.Sprintf("fe80::1:%x:%x", i>>16, i&0xffff)
	case 1:
		return fmt.Sprintf("2001:db8:%x:%x::1", i>>16, i&0xffff)
	default:
		return fmt.Sprintf("fe80::%x:%x:0:1", i&0xffff, i>>16)
	}
}

func c18CrowdProp(k *verifkit.Kit) func(c c18Crowd) error {
	return func(c c18Crowd) error {
		k.Record(c, c.N > 16, fmt.Sprintf("senders>=2^%d", bitsLen(c.N)))
		mem := metricslite.NewMemory()
		mm := NewMetrics(mem, "verif", time.Time{}, system.TestState{}, nil)
		cctx := NewContext(log.New(&lockedBuf{}, "", 0), mm, system.TestState{})
		mon := NewMonitor(cctx, "eth1", nil, nil, false)
		now := time.Unix(1700000000, 0)
		mon.now = func() time.Time { return now }
		model := c18Model{}
		hear := func(msg c18Msg) {
			now = now.Add(time.Millisecond)
			mon.handle(c18Build(msg), msg.From)
			c18Apply(model, msg, now, "eth1")
		}
		for i := 0; i < c.N; i++ {
			msg := c.Tmpl[i%len(c.Tmpl)]
			msg.From = c.addr(i)
			hear(msg)
		}
		for _, msg := range c.After {
			hear(msg)
		}
		for j, i := range c.Again {
			msg := c.Tmpl[j%len(c.Tmpl)]
			msg.From = c.addr(i % max(c.N, 1))
			hear(msg)
		}
		series, _ := mm.Series()
		return c18Compare(model, series, c.N+len(c.After)+len(c.Again)-1)
	}
}

func bitsLen(n int) int {
	b := 0
	for n > 1 {
		n >>= 1
		b++
	}
	return b
}

func c18GenCrowd(thorough bool) func(t *rapid.T) c18Crowd {
	return func(t *rapid.T) c18Crowd {
		ns := []int{17, 64, 255, 256, 257, 300, 1000, 1025}
		if thorough {
			ns = append(ns, 4097, 20000, 65537)
		}
		c := c18Crowd{N: rapid.SampledFrom(ns).Draw(t, "senders"), Style: rapid.IntRange(0, 2).Draw(t, "style")}
		if rapid.Bool().Draw(t, "anyn") {
			c.N = rapid.IntRange(1, 2000).Draw(t, "nsenders")
		}
		c.Tmpl, c.After = c18Gen(t).Msgs, c18Gen(t).Msgs
		for i, n := 0, rapid.IntRange(0, 4).Draw(t, "nagain"); i < n; i++ {
			c.Again = append(c.Again, rapid.IntRange(0, c.N-1).Draw(t, "again-member"))
		}
		return c
	}
}

func TestVerif_C18(t *testing.T) {
	k := verifkit.Start(t, "C18")
	prop := c18Prop(t, k)
	wire := wireProp(k.Record, false)
	crowd := c18CrowdProp(k)
	k.Regress(t, func(sub string, raw json.RawMessage) error {
		if strings.HasPrefix(sub, "wire") {
			return verifkit.Decode(raw, wire)
		}
		if strings.HasPrefix(sub, "many") {
			return verifkit.Decode(raw, crowd)
		}
		return verifkit.Decode(raw, prop)
	})
	verifkit.Rapid(k, t, "many-senders", k.N(60, 3000), c18GenCrowd(k.Thorough()), crowd)
	verifkit.Rapid(k, t, "message-sequences", k.N(5000, 1000000), c18Gen, prop)
	verifkit.Rapid(k, t, "wire-bytes", k.N(20000, 4000000), wireGen, wire)
}

var _ = sort.Strings
var _ = strings.Join
var _ = netip.Addr{}

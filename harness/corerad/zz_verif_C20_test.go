package corerad

// C20: server supervision. BuildTasks is compared with the task list the
// statement calls for; Serve runs scripted tasks on virtual time with signals
// at generated instants and its event log is checked against ordering
// invariants; readiness is observed on a real sd_notify unixgram socket.

import (
	"context"
	"encoding/json"
	"errors"
	"fmt"
	"io"
	"log"
	"net"
	"net/http"
	"os"
	"strings"
	"sync"
	"syscall"
	"testing"
	"time"

	"github.com/mdlayher/corerad/internal/config"
	"github.com/mdlayher/corerad/internal/system"
	"github.com/mdlayher/corerad/internal/verifkit"
	"github.com/mdlayher/sdnotify"
	"pgregory.net/rapid"
)

// --- BuildTasks ----------------------------------------------------------------

type c20Build struct {
	Modes []int  `json:"modes"` // per interface: 0 neither, 1 advertise, 2 monitor
	Debug string `json:"debug_address"`
}

func c20BuildProp(k *verifkit.Kit) func(c c20Build) error {
	return func(c c20Build) error {
		var cfg config.Config
		var want []string
		kinds := map[int]bool{}
		for i, m := range c.Modes {
			name := fmt.Sprintf("eth%d", i)
			ifi := config.Interface{Name: name, Advertise: m == 1, Monitor: m == 2, MinInterval: 200 * time.Second, MaxInterval: 600 * time.Second}
			cfg.Interfaces = append(cfg.Interfaces, ifi)
			kinds[m] = true
			switch m {
			case 1:
				want = append(want, fmt.Sprintf("*corerad.Advertiser advertiser %q", name))
			case 2:
				want = append(want, fmt.Sprintf("*corerad.Monitor monitor %q", name))
			}
		}
		if c.Debug != "" {
			cfg.Debug.Address = c.Debug
			want = append(want, fmt.Sprintf("*corerad.httpTask debug HTTP server %q", c.Debug))
		}
		want = append(want, "*corerad.watcherTask link state watcher")
		k.Record(c, len(kinds) >= 2, fmt.Sprintf("interfaces=%d", min(len(c.Modes), 6)), fmt.Sprintf("debug=%v", c.Debug != ""))
		s := NewServer(NewContext(log.New(io.Discard, "", 0), nil, system.TestState{}))
		tasks := s.BuildTasks(cfg, http.NotFoundHandler())
		var got []string
		for _, tk := range tasks {
			got = append(got, fmt.Sprintf("%T %s", tk, tk))
		}
		// (kind by kind and in order; a task is told by its type and by the interface name or address its description
		// mentions - how the description is worded is the code's business)
		same := len(got) == len(want)
		for i := 0; same && i < len(want); i++ {
			wt, wrest, _ := strings.Cut(want[i], " ")
			gt, grest, _ := strings.Cut(got[i], " ")
			same = wt == gt
			if q := strings.Index(wrest, "\""); same && q >= 0 {
				name := strings.Trim(wrest[q:], "\"")
				same = strings.Contains(grest, name)
			}
		}
		if !same {
			return verifkit.Violf("C20/task-list", "modes %v debug %q:\nwant %s\ngot  %s", c.Modes, c.Debug, strings.Join(want, " | "), strings.Join(got, " | "))
		}
		return nil
	}
}

// --- Serve -----------------------------------------------------------------------

const c20Sentinel = "VERIF-END-OF-NOTIFICATIONS"

type c20Task struct {
	FailNS  int64 `json:"fail_ns"`    // >0: Run returns an error at this instant (unless cancelled before)
	NilNS   int64 `json:"nil_ns"`     // >0: Run returns nil at this instant
	StopNS  int64 `json:"stop_ns"`    // time Run takes to return after observing cancellation
	ReadyNS int64 `json:"ready_ns"`   // <0: never ready
	StopErr bool  `json:"stop_error"` // returns an error (instead of nil) when cancelled
}

type c20Serve struct {
	Tasks []c20Task `json:"tasks"`
	Sig   string    `json:"signal"` // "" none, INT TERM HUP
	SigNS int64     `json:"signal_ns"`
	// the service manager's end of the notification socket is gone (closed before the server starts): every
	// notification fails; supervision must be unaffected (what is announced cannot be observed then)
	NotifyGone bool `json:"notify_gone,omitempty"`
}

type c20Log struct {
	At   time.Duration
	What string
	Task int
	Term bool
}

type scriptedTask struct {
	id     int
	spec   c20Task
	readyC chan struct{}
	t0     time.Time
	mu     *sync.Mutex
	log    *[]c20Log
	term   func() bool
}

func (s *scriptedTask) add(what string, term bool) {
	s.mu.Lock()
	*s.log = append(*s.log, c20Log{time.Since(s.t0), what, s.id, term})
	s.mu.Unlock()
}

func (s *scriptedTask) Run(ctx context.Context) error {
	s.add("run-start", false)
	if s.spec.ReadyNS >= 0 {
		go func() {
			select {
			case <-time.After(time.Duration(s.spec.ReadyNS)):
				close(s.readyC)
				s.add("ready", false)
			case <-ctx.Done():
			}
		}()
	}
	var failC, nilC <-chan time.Time
	if s.spec.FailNS > 0 {
		failC = time.After(time.Duration(s.spec.FailNS))
	}
	if s.spec.NilNS > 0 {
		nilC = time.After(time.Duration(s.spec.NilNS))
	}
	select {
	case <-failC:
		s.add("run-fail", false)
		return fmt.Errorf("verif: task %d failed", s.id)
	case <-nilC:
		s.add("run-nil", false)
		return nil
	case <-ctx.Done():
		s.add("cancel-observed", s.term())
		if s.spec.StopNS > 0 {
			time.Sleep(time.Duration(s.spec.StopNS))
		}
		if s.spec.StopErr {
			s.add("run-fail", false)
			return fmt.Errorf("verif: task %d failed while stopping", s.id)
		}
		s.add("run-nil", false)
		return nil
	}
}
func (s *scriptedTask) Ready() <-chan struct{} { return s.readyC }
func (s *scriptedTask) String() string         { return fmt.Sprintf("scripted task %d", s.id) }

func c20Signal(name string) os.Signal {
	switch name {
	case "INT":
		return os.Interrupt
	case "TERM":
		return syscall.SIGTERM
	case "HUP":
		return syscall.SIGHUP
	}
	return nil
}

func c20ServeProp(t *testing.T, k *verifkit.Kit) func(c c20Serve) error {
	return func(c c20Serve) error {
		// notification socket outside of the bubble
		pc, err := net.ListenPacket("unixgram", "")
		if err != nil {
			return fmt.Errorf("verif: cannot create notify socket: %v", err)
		}
		defer pc.Close()
		n, err := sdnotify.Open(pc.LocalAddr().String())
		if err != nil {
			return fmt.Errorf("verif: cannot open notifier: %v", err)
		}
		defer n.Close()
		if c.NotifyGone {
			pc.Close()
		}

		// The notifications are read while the server runs: a datagram socket
		// queues only a few messages (net.unix.max_dgram_qlen), and a server
		// with many tasks would otherwise block in sendmsg, outside of the
		// bubble's control.
		var notes []string
		readerDone := make(chan struct{})
		go func() {
			defer close(readerDone)
			buf := make([]byte, 4096)
			for {
				nn, _, err := pc.ReadFrom(buf)
				if err != nil {
					return
				}
				if string(buf[:nn]) == c20Sentinel {
					return
				}
				notes = append(notes, string(buf[:nn]))
			}
		}()
		var (
			mu       sync.Mutex
			evlog    []c20Log
			serveErr error
			serveAt  time.Duration
			returned bool
		)
		_, pan := bubble(t, func() {
			t0 := time.Now()
			s := NewServer(NewContext(log.New(io.Discard, "", 0), nil, system.TestState{}))
			var tasks []Task
			for i, spec := range c.Tasks {
				tasks = append(tasks, &scriptedTask{id: i, spec: spec, readyC: make(chan struct{}), t0: t0, mu: &mu, log: &evlog, term: s.t.terminate})
			}
			sigC := make(chan os.Signal, 1)
			if sg := c20Signal(c.Sig); sg != nil {
				go func() {
					time.Sleep(time.Duration(c.SigNS))
					mu.Lock()
					evlog = append(evlog, c20Log{time.Since(t0), "signal-sent", -1, false})
					mu.Unlock()
					sigC <- sg
				}()
			}
			done := make(chan struct{})
			go func() {
				err := s.Serve(sigC, n, tasks)
				mu.Lock()
				serveErr, serveAt, returned = err, time.Since(t0), true
				mu.Unlock()
				close(done)
			}()
			select {
			case <-done:
			case <-time.After(10 * time.Minute):
			}
		})
		// Everything the server sent is queued in the socket by now (sends are synchronous) and
		// datagrams are delivered in order: a sentinel sent by the harness ends the reader once it
		// has read all of them. (A read deadline would not do: an expired deadline fails a read
		// even when data is queued, so a reader that is scheduled late loses notifications.)
		if sc, err := net.Dial("unixgram", pc.LocalAddr().String()); err == nil {
			_, _ = sc.Write([]byte(c20Sentinel))
			sc.Close()
		} else {
			pc.Close()
		}
		<-readerDone
		if pan != nil {
			return verifkit.Violf("panic", "panic in bubble: %v", pan)
		}
		mu.Lock()
		defer mu.Unlock()
		desc := func() string {
			var b strings.Builder
			fmt.Fprintf(&b, "tasks %+v signal %s at %v\n", c.Tasks, c.Sig, time.Duration(c.SigNS))
			for _, e := range evlog {
				fmt.Fprintf(&b, "%10v task %d %s term=%v\n", e.At, e.Task, e.What, e.Term)
			}
			fmt.Fprintf(&b, "Serve returned=%v at %v: %v\nnotifications: %q", returned, serveAt, serveErr, notes)
			return b.String()
		}
		// classification
		fails, slow := 0, 0
		for _, tk := range c.Tasks {
			if tk.FailNS > 0 {
				fails++
			}
			if tk.StopNS > 0 {
				slow++
			}
		}
		cls := []string{fmt.Sprintf("tasks=%d", len(c.Tasks)), "signal=" + c.Sig, fmt.Sprintf("failing=%d", min(fails, 3))}
		if c.Sig != "" && fails > 0 {
			cls = append(cls, "signal-and-failure")
		}
		k.Record(c, len(c.Tasks) >= 2 && (fails >= 1 || c.Sig != ""), cls...)

		// will anything ever end the server?
		ends := c.Sig != "" || fails > 0
		allNil := true
		for _, tk := range c.Tasks {
			if tk.NilNS == 0 || (tk.FailNS > 0 && tk.FailNS <= tk.NilNS) {
				allNil = false
			}
		}
		readiness := func(serveAt, cause time.Duration) error {
			// 5. readiness (what the tasks actually reported is in the event log)
			readyAt := map[int]time.Duration{}
			for _, e := range evlog {
				if e.What == "ready" {
					readyAt[e.Task] = e.At
				}
			}
			allReady, latestReady := len(readyAt) == len(c.Tasks), time.Duration(0)
			for _, at := range readyAt {
				if at > latestReady {
					latestReady = at
				}
			}
			// The per-task notes are recognised by their shape (a status and nothing else), not
			// by their wording; a server that announces no per-task status at all is not judged
			// by their number (the statement speaks of the overall announcement only).
			perTask := 0
			for _, s := range notes {
				if c20PerTaskNote(s) {
					perTask++
				}
			}
			readyIdx, startedN := -1, 0
			for i, s := range notes {
				if strings.Contains(s, sdnotify.Ready) {
					if readyIdx >= 0 {
						return verifkit.Violf("C20/ready-twice", "READY announced twice\n%s", desc())
					}
					readyIdx = i
					if startedN != len(c.Tasks)+1 && perTask > 0 {
						return verifkit.Violf("C20/ready-before-all-started", "READY after %d 'started' statuses, want %d\n%s", startedN, len(c.Tasks)+1, desc())
					}
				}
				if c20PerTaskNote(s) {
					startedN++
				}
			}
			if readyIdx >= 0 && !allReady {
				return verifkit.Violf("C20/ready-although-a-task-is-not", "READY announced although a task never reported ready\n%s", desc())
			}
			if readyIdx < 0 && allReady && latestReady < serveAt && (cause < 0 || latestReady < cause) && !c.NotifyGone {
				return verifkit.Violf("C20/ready-not-announced", "every task was ready at %v but READY was never announced\n%s", latestReady, desc())
			}
			return nil
		}
		if !ends {
			if returned {
				return verifkit.Violf("C20/serve-returned-spuriously", "no signal and no failure, yet Serve returned\n%s", desc())
			}
			_ = allNil
			// (the signal task keeps the server alive even if every task returned nil; readiness is judged all the same)
			for i := range c.Tasks {
				seen := false
				for _, e := range evlog {
					seen = seen || (e.What == "run-start" && e.Task == i)
				}
				if !seen {
					return verifkit.Violf("C20/task-not-run", "task %d was never run\n%s", i, desc())
				}
			}
			return readiness(10*time.Minute, -1)
		}
		if !returned {
			return verifkit.Violf("C20/serve-does-not-return", "Serve has not returned after 10 virtual minutes\n%s", desc())
		}
		// 1. Serve returns only after every task's Run has returned
		started, ended := map[int]bool{}, map[int]time.Duration{}
		var errs []string
		firstFail, sigAt := time.Duration(-1), time.Duration(-1)
		for _, e := range evlog {
			switch e.What {
			case "run-start":
				if started[e.Task] {
					return verifkit.Violf("C20/task-run-twice", "task %d was run more than once\n%s", e.Task, desc())
				}
				started[e.Task] = true
			case "run-fail":
				ended[e.Task] = e.At
				if firstFail < 0 {
					firstFail = e.At
				}
				errs = append(errs, fmt.Sprintf("task %d failed", e.Task))
			case "run-nil":
				ended[e.Task] = e.At
			case "signal-sent":
				sigAt = e.At
			}
		}
		for i := range c.Tasks {
			if !started[i] {
				return verifkit.Violf("C20/task-not-run", "task %d was never run\n%s", i, desc())
			}
			at, ok := ended[i]
			if !ok || at > serveAt {
				return verifkit.Violf("C20/serve-returns-before-tasks", "Serve returned at %v, task %d had not returned\n%s", serveAt, i, desc())
			}
		}
		// 2. result
		if len(errs) == 0 {
			if serveErr != nil {
				return verifkit.Violf("C20/spurious-error", "no task failed but Serve returned %v\n%s", serveErr, desc())
			}
		} else {
			if serveErr == nil {
				if sigAt >= 0 && firstFail > sigAt {
					// a signal first, failures only while stopping: "a signal ... serving returns success" and "a fatal error
					// ... returns that error" both apply - either
					goto resultDone
				}
				return verifkit.Violf("C20/error-swallowed", "tasks failed (%v) but Serve returned nil\n%s", errs, desc())
			}
			named := false
			for _, e := range errs {
				if strings.Contains(serveErr.Error(), e) {
					named = true
				}
			}
			if !named {
				return verifkit.Violf("C20/wrong-error", "Serve returned %q which names none of the errors actually returned (%v)\n%s", serveErr, errs, desc())
			}
			// "serving returns that error": the error of the task whose failure came first (it is what cancelled the
			// others; what they return while stopping is a consequence) - any of them if several failed at that instant
			var firstErrs []string
			for _, e := range evlog {
				if e.What == "run-fail" && e.At == firstFail {
					firstErrs = append(firstErrs, fmt.Sprintf("task %d failed", e.Task))
				}
			}
			first := false
			for _, e := range firstErrs {
				if strings.Contains(serveErr.Error(), e) {
					first = true
				}
			}
			if !first {
				return verifkit.Violf("C20/not-the-causing-error", "Serve returned %q; the failure that came first, at %v, was %v\n%s", serveErr, firstFail, firstErrs, desc())
			}
		}
	resultDone:
		// 3. cancellation reaches every task once a task failed or a signal arrived
		cause := time.Duration(-1)
		for _, e := range evlog {
			if (e.What == "run-fail" || e.What == "signal-sent") && (cause < 0 || e.At < cause) {
				// a failure *while stopping* is a consequence, not a cause
				if e.What == "run-fail" && c.Tasks[e.Task].StopErr && (c.Tasks[e.Task].FailNS == 0 || time.Duration(c.Tasks[e.Task].FailNS) != e.At) {
					continue
				}
				cause = e.At
			}
		}
		for _, e := range evlog {
			if e.What == "cancel-observed" {
				if e.At != cause {
					return verifkit.Violf("C20/cancellation-late-or-early", "task %d observed cancellation at %v, the first failure/signal was at %v\n%s", e.Task, e.At, cause, desc())
				}
				// 4. the signal's meaning is recorded before any task observes the cancellation
				if sigAt >= 0 && sigAt == cause && (firstFail < 0 || firstFail > sigAt) {
					if want := c.Sig != "HUP"; e.Term != want {
						return verifkit.Violf("C20/terminate-not-recorded-before-cancel", "task %d observed cancellation by SIG%s with terminate()=%v\n%s", e.Task, c.Sig, e.Term, desc())
					}
				}
			}
		}
		for i, tk := range c.Tasks {
			end := ended[i]
			natural := ((tk.FailNS > 0 && time.Duration(tk.FailNS) == end) || (tk.NilNS > 0 && time.Duration(tk.NilNS) == end)) && (cause < 0 || end <= cause)
			if !natural && end != cause+time.Duration(tk.StopNS) {
				return verifkit.Violf("C20/cancellation-late-or-early", "task %d returned at %v; cancellation cause at %v, it needs %v to stop\n%s", i, end, cause, time.Duration(tk.StopNS), desc())
			}
		}
		if err := readiness(serveAt, cause); err != nil {
			return err
		}
		return nil
	}
}

func c20GenServe(t *rapid.T) c20Serve {
	s := int64(time.Second)
	var c c20Serve
	times := []int64{1, s, 2 * s, 2*s + 1, 5 * s, 10 * s}
	ntasks := rapid.IntRange(1, 6).Draw(t, "ntasks")
	many := rapid.IntRange(0, 7).Draw(t, "manytasks") == 0
	if many {
		// as many tasks as a router with many VLAN interfaces has; most of them behave
		ntasks = rapid.SampledFrom([]int{9, 16, 17, 31, 33, 63, 64, 65, 66, 100, 130}).Draw(t, "ntasksmany")
	}
	for i, n := 0, ntasks; i < n; i++ {
		var tk c20Task
		if many && rapid.IntRange(0, 19).Draw(t, "plain") != 0 {
			if rapid.IntRange(0, 9).Draw(t, "plainready") == 0 {
				tk.ReadyNS = rapid.SampledFrom(times).Draw(t, "plainreadyat")
			}
			c.Tasks = append(c.Tasks, tk)
			continue
		}
		switch rapid.IntRange(0, 5).Draw(t, "behaviour") {
		case 0:
			tk.FailNS = rapid.SampledFrom(times).Draw(t, "fail")
		case 1:
			tk.NilNS = rapid.SampledFrom(times).Draw(t, "nil")
		case 2:
			tk.StopNS = rapid.SampledFrom([]int64{1, s, 5*s + 1, 11 * s, 30 * s, 31 * s, 91 * s, 301 * s}).Draw(t, "stop")
			tk.StopErr = rapid.IntRange(0, 3).Draw(t, "stoperr") == 0
		}
		switch rapid.IntRange(0, 3).Draw(t, "ready") {
		case 0:
			tk.ReadyNS = -1
		case 1:
			tk.ReadyNS = 0
		default:
			tk.ReadyNS = rapid.SampledFrom(times).Draw(t, "readyat")
		}
		c.Tasks = append(c.Tasks, tk)
	}
	c.Sig = rapid.SampledFrom([]string{"", "INT", "TERM", "HUP", "HUP", "INT"}).Draw(t, "sig")
	if c.Sig != "" {
		c.SigNS = rapid.SampledFrom(times).Draw(t, "sigat")
	}
	c.NotifyGone = rapid.IntRange(0, 9).Draw(t, "notifygone") == 0
	return c
}

// c20Matrix: {behaviour}^2 x {signal}.
func c20Matrix(yield func(c20Serve) bool) {
	s := int64(time.Second)
	beh := []c20Task{{}, {FailNS: 2 * s}, {NilNS: s}, {StopNS: 5 * s}, {ReadyNS: -1}, {ReadyNS: 3 * s}, {StopNS: s, StopErr: true}}
	for _, a := range beh {
		for _, b := range beh {
			for _, sig := range []string{"", "INT", "TERM", "HUP"} {
				for _, at := range []int64{s, 2 * s, 4 * s} {
					if sig == "" && at != s {
						continue
					}
					if !yield(c20Serve{Tasks: []c20Task{a, b}, Sig: sig, SigNS: at}) {
						return
					}
				}
			}
		}
	}
}

// c20Crowds: many tasks, one of which is never (or late) ready - at the positions where a fixed-width bookkeeping of
// readiness would lose it (the 1st, 33rd, 64th, 65th, the last of 63..130 tasks).
func c20Crowds(yield func(c20Serve) bool) {
	s := int64(time.Second)
	for _, n := range []int{63, 64, 65, 66, 128, 129, 130} {
		for _, pos := range []int{0, 32, 63, 64, n - 1} {
			if pos >= n {
				continue
			}
			for _, ready := range []int64{-1, 3 * s} {
				tasks := make([]c20Task, n)
				tasks[pos].ReadyNS = ready
				if !yield(c20Serve{Tasks: tasks, Sig: "TERM", SigNS: 5 * s}) {
					return
				}
			}
		}
	}
}

func c20GenBuild(t *rapid.T) c20Build {
	maxIfaces := 8
	if rapid.IntRange(0, 7).Draw(t, "manyifaces") == 0 {
		maxIfaces = 130
	}
	return c20Build{Modes: rapid.SliceOfN(rapid.IntRange(0, 2), (maxIfaces-8)/2, maxIfaces).Draw(t, "modes"),
		Debug: rapid.SampledFrom([]string{"", "", "localhost:9430", ":0"}).Draw(t, "debug")}
}

func TestVerif_C20(t *testing.T) {
	k := verifkit.Start(t, "C20")
	bprop := c20BuildProp(k)
	sprop := c20ServeProp(t, k)
	k.Regress(t, func(sub string, raw json.RawMessage) error {
		if strings.HasPrefix(sub, "build") {
			return verifkit.Decode(raw, bprop)
		}
		return verifkit.Decode(raw, sprop)
	})
	verifkit.Enumerate(k, t, "build-tasks-all-mode-vectors<=5", true, func(yield func(c20Build) bool) {
		for n := 0; n <= 5; n++ {
			total := 1
			for i := 0; i < n; i++ {
				total *= 3
			}
			for v := 0; v < total; v++ {
				modes := make([]int, n)
				for i, x := 0, v; i < n; i, x = i+1, x/3 {
					modes[i] = x % 3
				}
				for _, dbg := range []string{"", "localhost:9430"} {
					if !yield(c20Build{Modes: modes, Debug: dbg}) {
						return
					}
				}
			}
		}
	}, bprop)
	verifkit.Enumerate(k, t, "serve-behaviour-pairs-x-signal", true, c20Matrix, sprop)
	verifkit.Enumerate(k, t, "serve-many-tasks-one-not-ready", true, c20Crowds, sprop)
	verifkit.Rapid(k, t, "serve-scripted-tasks", k.N(3000, 400000), c20GenServe, sprop)
}

var _ = errors.New

// c20PerTaskNote: a notification that carries a status text and no state change.
func c20PerTaskNote(s string) bool {
	return strings.HasPrefix(s, "STATUS=") && !strings.Contains(s, "\n") && !strings.Contains(s, sdnotify.Ready) && !strings.Contains(s, sdnotify.Stopping)
}

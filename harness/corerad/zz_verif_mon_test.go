package corerad

// Scenario runner for a real Monitor on virtual time (C09, C10, C18).

import (
	"fmt"
	"net/netip"
	"sort"
	"testing"
	"testing/synctest"
	"time"

	"github.com/mdlayher/corerad/internal/netstate"
	"github.com/mdlayher/corerad/internal/system"
	"github.com/mdlayher/metricslite"
	"github.com/mdlayher/ndp"
)

type monResult struct {
	W         *simWorld
	Reads     []simRead
	Delivered []advDelivered
	Callbacks []string // message types seen by OnMessage, in order
	Returned  bool
	RetAt     time.Duration
	RetErr    error
	StopAt    time.Duration
	Leaked    bool
	Panic     any
	Series    map[string]metricslite.Series
	Snapshots []map[string]metricslite.Series // after each delivered message when requested
	Logs      string
	Conns     int
}

type monScenario struct {
	Events   []advEvent `json:"events"`
	StopNS   int64      `json:"stop_ns"`
	Verbose  bool       `json:"verbose,omitempty"`
	DialFail []string   `json:"dial_failures,omitempty"`
	NoStop   bool       `json:"no_stop,omitempty"`
	WaitNS   int64      `json:"wait_ns,omitempty"`
	Snapshot bool       `json:"-"`
	// ConsumerNS: the OnMessage consumer takes this long per message (whoever hooks into the monitor may be slow: the
	// next message then waits in the socket until it is read)
	ConsumerNS int64 `json:"consumer_ns,omitempty"`
}

func runMonitor(t *testing.T, sc monScenario) *monResult {
	res := &monResult{}
	sc.Events = append([]advEvent(nil), sc.Events...)
	sort.SliceStable(sc.Events, func(i, j int) bool { return sc.Events[i].AtNS < sc.Events[j].AtNS })
	res.Leaked, res.Panic = bubble(t, func() {
		w := newSimWorld(nil)
		res.W = w
		if len(sc.DialFail) > 0 {
			w.dialResult = func(i int) error {
				if i < len(sc.DialFail) {
					return vkErrOf(sc.DialFail[i])
				}
				return nil
			}
		}
		watchC := newWatchC()
		m := NewMonitor(w.cctx, "eth1", w.newDialer("eth1", system.Monitor), watchC, sc.Verbose)
		m.OnMessage = func(msg ndp.Message) {
			w.mu.Lock()
			res.Callbacks = append(res.Callbacks, msg.Type().String())
			w.mu.Unlock()
			if sc.ConsumerNS > 0 {
				time.Sleep(time.Duration(sc.ConsumerNS))
			}
		}
		run := w.start(m)
		synctest.Wait() // let the task dial and start reading before the first event
		cur := func() *simConn {
			w.mu.Lock()
			defer w.mu.Unlock()
			if len(w.conns) == 0 {
				return nil
			}
			return w.conns[len(w.conns)-1]
		}
		for i := range sc.Events {
			ev := sc.Events[i]
			if d := time.Duration(ev.AtNS) - w.now(); d > 0 {
				select {
				case <-time.After(d):
				case <-run.done:
				}
			}
			if done, _, _ := run.finished(); done {
				break
			}
			switch ev.Kind {
			case "rs", "msg":
				c := cur()
				if c == nil {
					continue
				}
				hop := ev.Hop
				if hop == 0 {
					hop = 255
				} else if hop == 256 {
					hop = 0
				}
				from := netip.MustParseAddr(ev.From)
				if from.Is6() && from.IsLinkLocalUnicast() {
					from = from.WithZone("eth1")
				}
				for j := 0; j < max(ev.N, 1); j++ {
					e2 := ev
					if ev.Kind == "rs" {
						e2.Msg = "rs"
					}
					c.deliver(simIn{Msg: vkMsg(e2), HopLimit: hop, From: from})
					res.Delivered = append(res.Delivered, advDelivered{Ev: e2, At: w.now(), Conn: c.id})
				}
				w.eventf("deliver %s x%d from %s hop=%d", ev.Kind+ev.Msg, max(ev.N, 1), ev.From, hop)
			case "link":
				w.eventf("link event")
				select {
				case watchC <- netstate.LinkDown:
				default:
				}
			case "readerr":
				if c := cur(); c != nil {
					for j := 0; j < max(ev.N, 1); j++ {
						c.deliver(simIn{Err: vkErrOf(ev.Err)})
					}
					w.eventf("inject read error %s x%d on conn %d", ev.Err, max(ev.N, 1), c.id)
					res.Delivered = append(res.Delivered, advDelivered{Ev: ev, At: w.now(), Conn: c.id})
				}
			}
		}
		if !sc.NoStop {
			if d := time.Duration(sc.StopNS) - w.now(); d > 0 {
				select {
				case <-time.After(d):
				case <-run.done:
				}
			}
			res.StopAt = w.now()
			w.eventf("stop")
			run.cancel()
		}
		wait := time.Duration(sc.WaitNS)
		if wait == 0 {
			wait = 30 * time.Second
		}
		run.waitDone(wait)
		res.Returned, res.RetAt, res.RetErr = run.finished()
		run.cancel()
		res.Reads = w.readsCopy()
		res.Series, _ = w.mm.Series()
		res.Logs = w.logs.String()
		w.mu.Lock()
		res.Conns = len(w.conns)
		w.mu.Unlock()
	})
	return res
}

func (r *monResult) counter(series, key string) float64 {
	if r.Series == nil {
		return 0
	}
	return r.Series[series].Samples[key]
}

func vkTypeName(msg string) string {
	switch msg {
	case "ra":
		return (&ndp.RouterAdvertisement{}).Type().String()
	case "ns":
		return (&ndp.NeighborSolicitation{}).Type().String()
	case "na":
		return (&ndp.NeighborAdvertisement{}).Type().String()
	}
	return (&ndp.RouterSolicitation{}).Type().String()
}

var _ = fmt.Sprint

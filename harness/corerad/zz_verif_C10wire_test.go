package corerad

// C10, the wiring its link-change clause rests on: "a link-state change promptly stops every activity of that
// interface's task" holds for the tasks the server really runs only if BuildTasks hands each of them - advertisers
// and monitors alike - a subscription of its own with the link watcher (what a subscription then delivers is C19's
// subject, what a task does with it the live part's).

import (
	"encoding/json"
	"fmt"
	"io"
	"log"
	"net/http"
	"testing"
	"time"

	"github.com/mdlayher/corerad/internal/config"
	"github.com/mdlayher/corerad/internal/netstate"
	"github.com/mdlayher/corerad/internal/system"
	"github.com/mdlayher/corerad/internal/verifkit"
	"pgregory.net/rapid"
)

type c10Wire struct {
	Modes []int `json:"modes"` // per interface: 0 neither, 1 advertise, 2 monitor
}

func c10WireProp(k *verifkit.Kit) func(c c10Wire) error {
	return func(c c10Wire) error {
		var cfg config.Config
		kinds := map[int]bool{}
		for i, m := range c.Modes {
			cfg.Interfaces = append(cfg.Interfaces, config.Interface{Name: fmt.Sprintf("eth%d", i), Advertise: m == 1, Monitor: m == 2,
				MinInterval: 200 * time.Second, MaxInterval: 600 * time.Second})
			kinds[m] = true
		}
		k.Record(c, kinds[1] && kinds[2], fmt.Sprintf("interfaces=%d", min(len(c.Modes), 6)))
		s := NewServer(NewContext(log.New(io.Discard, "", 0), nil, system.TestState{}))
		seen := map[string]string{}
		for _, tk := range s.BuildTasks(cfg, http.NotFoundHandler()) {
			var ch <-chan netstate.Change
			switch t := tk.(type) {
			case *Advertiser:
				ch = t.watchC
			case *Monitor:
				ch = t.watchC
			default:
				continue
			}
			if ch == nil {
				return verifkit.Violf("C10/task-not-subscribed-to-link-changes", "modes %v: task %s was built without a link-state subscription: a link change can never stop it", c.Modes, tk)
			}
			id := fmt.Sprintf("%p", ch)
			if other, dup := seen[id]; dup {
				return verifkit.Violf("C10/tasks-share-a-link-subscription", "modes %v: tasks %s and %s read the same subscription: a change reaches only one of them", c.Modes, other, tk)
			}
			seen[id] = tk.String()
		}
		return nil
	}
}

func TestVerif_C10wiring(t *testing.T) {
	k := verifkit.Start(t, "C10")
	prop := c10WireProp(k)
	k.Regress(t, func(sub string, raw json.RawMessage) error {
		if sub != "build-tasks-link-subscriptions" {
			return nil
		}
		return verifkit.Decode(raw, prop)
	})
	verifkit.Enumerate(k, t, "build-tasks-link-subscriptions", true, func(yield func(c10Wire) bool) {
		for n := 0; n <= 5; n++ {
			total := 1
			for i := 0; i < n; i++ {
				total *= 3
			}
			for v := 0; v < total; v++ {
				modes := make([]int, n)
				for i, x := 0, v; i < n; i, x = i+1, x/3 {
					modes[i] = x % 3
				}
				if !yield(c10Wire{modes}) {
					return
				}
			}
		}
	}, prop)
	verifkit.Rapid(k, t, "build-tasks-link-subscriptions", k.N(200, 20000), func(t *rapid.T) c10Wire {
		return c10Wire{rapid.SliceOfN(rapid.IntRange(0, 2), 0, 130).Draw(t, "modes")}
	}, prop)
}

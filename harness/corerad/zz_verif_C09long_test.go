package corerad

// C09, long runs: "no number ... of such messages stops an advertiser or
// monitor". A run of several hundred thousand consecutive invalid messages is
// pushed through the real listener of a Monitor and of an Advertiser, followed
// by a valid message that must be served. The goroutine stack is limited to
// 32 MiB for this process: handling a message must not cost stack or retry
// budget that is only released by the next valid message.

import (
	"encoding/json"
	"fmt"
	"runtime/debug"
	"testing"
	"testing/synctest"
	"time"

	"github.com/mdlayher/corerad/internal/system"
	"github.com/mdlayher/corerad/internal/verifkit"
	"github.com/mdlayher/ndp"
)

type c09Long struct {
	Monitor bool `json:"monitor"`
	N       int  `json:"n"`
	Hop     int  `json:"hop"`
}

func c09LongProp(t *testing.T, k *verifkit.Kit) func(c c09Long) error {
	return func(c c09Long) error {
		k.Record(c, true, fmt.Sprintf("long-run monitor=%v", c.Monitor))
		var verr error
		_, pan := bubble(t, func() {
			w := newSimWorld(nil)
			var run *simRun
			served := func() bool { return false }
			if c.Monitor {
				m := NewMonitor(w.cctx, "eth1", w.newDialer("eth1", system.Monitor), nil, false)
				n := 0
				m.OnMessage = func(ndp.Message) { n++ }
				served = func() bool { return n == 1 }
				run = w.start(m)
			} else {
				a := NewAdvertiser(w.cctx, c09Cfg().iface("eth0"), w.newDialer("eth0", system.Advertise), nil, func() bool { return false })
				served = func() bool {
					for _, x := range w.writesCopy() {
						if x.Dst == vkAddr("fe80::e1") {
							return true
						}
					}
					return false
				}
				run = w.start(a)
			}
			synctest.Wait()
			time.Sleep(4 * time.Second)
			conn := w.conns[0]
			from := vkAddr("fe80::a").WithZone("eth0")
			stuck := -1
			for sent := 0; sent < c.N && stuck < 0; {
				for i := 0; i < 4000 && sent < c.N; i++ {
					if !conn.offer(simIn{Msg: vkRS(false), HopLimit: c.Hop, From: from}) {
						stuck = sent // nobody reads any more: the verdict follows below
						break
					}
					sent++
				}
				synctest.Wait() // the listener drains the socket buffer
			}
			conn.offer(simIn{Msg: vkRS(false), HopLimit: 255, From: vkAddr("fe80::e1").WithZone("eth0")})
			time.Sleep(time.Second)
			if done, _, err := run.finished(); done {
				verr = verifkit.Violf("C09/long-run-stops-task", "after %d consecutive invalid messages the task returned: %v", c.N, err)
			} else if !served() {
				verr = verifkit.Violf("C09/long-run-valid-message-not-served", "after %d consecutive invalid messages the following valid message was not served", c.N)
			}
			if verr == nil && stuck >= 0 {
				verr = verifkit.Violf("C09/long-run-reader-stopped", "after %d consecutive invalid messages nobody reads the socket any more", stuck)
			}
			if len(w.conns) != 1 {
				verr = verifkit.Violf("C09/long-run-redial", "the task re-dialled during a run of invalid messages")
			}
			series, _ := w.mm.Series()
			iface := "eth0"
			if c.Monitor {
				iface = "eth1"
			}
			if got := series[msgInvalid].Samples["interface="+iface+",message="+vkTypeName("rs")]; verr == nil && got != float64(c.N) {
				verr = verifkit.Violf("C09/invalid-counter", "messages_received_invalid_total = %v after %d invalid messages", got, c.N)
			}
			run.cancel()
			run.waitDone(10 * time.Second)
		})
		if pan != nil {
			return verifkit.Violf("panic", "panic in bubble: %v", pan)
		}
		return verr
	}
}

func TestVerif_C09long(t *testing.T) {
	debug.SetMaxStack(32 << 20)
	k := verifkit.Start(t, "C09")
	prop := c09LongProp(t, k)
	k.Regress(t, func(sub string, raw json.RawMessage) error {
		if sub != "long-invalid-runs" {
			return nil // belongs to the other half of C09
		}
		return verifkit.Decode(raw, prop)
	})
	n := 300000
	if k.Thorough() {
		n = 3000000
	}
	verifkit.Enumerate(k, t, "long-invalid-runs", true, func(yield func(c09Long) bool) {
		for _, mon := range []bool{true, false} {
			for _, hop := range []int{64, 1} {
				if !yield(c09Long{Monitor: mon, N: n, Hop: hop}) {
					return
				}
			}
		}
	}, prop)
}

package corerad

// Scenario runner for a real Advertiser on virtual time (shared by C04, C06,
// C07, C08, C09, C10, C17). A scenario is plain data: configuration, a list of
// timed events, a stop instant; the result is the write/read log with exact
// virtual timestamps, the return of Run, the logs and the metric series.

import (
	"fmt"
	"io/fs"
	"net"
	"net/netip"
	"os"
	"sort"
	"strings"
	"syscall"
	"testing"
	"testing/synctest"
	"time"

	"github.com/mdlayher/corerad/internal/config"
	"github.com/mdlayher/corerad/internal/netstate"
	"github.com/mdlayher/corerad/internal/plugin"
	"github.com/mdlayher/corerad/internal/system"
	"github.com/mdlayher/metricslite"
	"github.com/mdlayher/ndp"
)

type advCfg struct {
	MinNS       int64 `json:"min_ns"`
	MaxNS       int64 `json:"max_ns"`
	UnicastOnly bool  `json:"unicast_only,omitempty"`
	LifeS       int64 `json:"life_s"`
	Verbose     bool  `json:"verbose,omitempty"`
	RA          vRA   `json:"ra"` // header fields and static options
	NoLLA       bool  `json:"no_lla,omitempty"`
}

func (c advCfg) iface(name string) config.Interface {
	r := c.RA
	r.LifeS = c.LifeS
	ifi := r.iface(name)
	ifi.MinInterval, ifi.MaxInterval = time.Duration(c.MinNS), time.Duration(c.MaxNS)
	ifi.UnicastOnly, ifi.Verbose = c.UnicastOnly, c.Verbose
	if !c.NoLLA {
		// as parsePlugins orders it: after MTU, before captive portal / pref64
		var out []plugin.Plugin
		done := false
		for _, p := range ifi.Plugins {
			switch p.(type) {
			case *plugin.CaptivePortal, *plugin.PREF64:
				if !done {
					out = append(out, &plugin.LLA{})
					done = true
				}
			}
			out = append(out, p)
		}
		if !done {
			out = append(out, &plugin.LLA{})
		}
		ifi.Plugins = out
	}
	return ifi
}

// expect is the RA the advertiser must transmit: the configured content, the
// source link-layer address option where the configuration has one, lifetime
// zeroed when not forwarding or for the final RA.
func (c advCfg) expect(forwarding, final bool) string {
	r := c.RA
	r.LifeS = c.LifeS
	if !forwarding || final {
		r.LifeS = 0
	}
	ra := r.ndp()
	if !c.NoLLA {
		lla := &ndp.LinkLayerAddress{Direction: ndp.Source, Addr: vkIfiMAC}
		var out []ndp.Option
		done := false
		for _, o := range ra.Options {
			switch o.(type) {
			case *ndp.CaptivePortal, *ndp.PREF64:
				if !done {
					out = append(out, lla)
					done = true
				}
			}
			out = append(out, o)
		}
		if !done {
			out = append(out, lla)
		}
		ra.Options = out
	}
	return raStr(ra)
}

type advEvent struct {
	AtNS  int64  `json:"at_ns"`
	Kind  string `json:"kind"` // rs msg flip link readerr scrape
	From  string `json:"from,omitempty"`
	SLLA  bool   `json:"slla,omitempty"`
	Hop   int    `json:"hop,omitempty"`   // 0 means 255
	Msg   string `json:"msg,omitempty"`   // rs ra ns na (kind msg)
	RA    *vRA   `json:"ra,omitempty"`    // body for msg=ra
	Value bool   `json:"value,omitempty"` // flip
	Err   string `json:"err,omitempty"`   // readerr: timeout syscall perm other
	N     int    `json:"n,omitempty"`     // repetitions (timeouts, burst size)
	Crowd bool   `json:"crowd,omitempty"` // rs burst: every message of the burst from another host (same kind of address)
}

type latRule struct {
	Dst       string `json:"dst"` // unicast multicast any
	N         int    `json:"n"`   // n-th matching write on a connection (-1 = every)
	NS        int64  `json:"ns"`
	Err       string `json:"err,omitempty"`             // if set, the write fails with this error kind after the latency
	From      bool   `json:"from,omitempty"`            // the n-th matching write and every later one (an outage, not a single fault)
	FirstConn bool   `json:"first_conn_only,omitempty"` // only on the first connection (the link works again after the re-dial)
	AfterStop bool   `json:"only_after_stop,omitempty"` // the write fails only if it completes after the stop request (a transmission in flight when the daemon is told to stop)
}

type advScenario struct {
	Cfg          advCfg     `json:"cfg"`
	Fwd0         bool       `json:"forwarding_at_start"`
	Events       []advEvent `json:"events"`
	StopNS       int64      `json:"stop_ns"`
	Terminate    bool       `json:"terminate"`
	Lat          []latRule  `json:"write_rules,omitempty"`
	DialFail     []string   `json:"dial_failures,omitempty"` // outcome of dial attempt i ("" = ok): notready syscall perm other
	TailNS       int64      `json:"tail_ns,omitempty"`       // keep the world alive after Run returned
	WaitNS       int64      `json:"wait_ns,omitempty"`       // how long to wait for Run to return after the stop (default 30s)
	NoStop       bool       `json:"no_stop,omitempty"`       // never cancel: Run must end on its own (fatal error scenarios)
	StateDelayNS int64      `json:"state_delay_ns,omitempty"`
	StateAfterNS int64      `json:"state_after_ns,omitempty"`    // a forwarding read samples the value at once and returns this much later
	Extra        []advCfg   `json:"extra_interfaces,omitempty"`  // further interfaces known to metrics / debug API (eth1, eth2, ...)
	Before       []string   `json:"interfaces_before,omitempty"` // non-advertising interfaces configured before eth0: "monitor" or "idle" (named pre0, pre1, ...)
}

type advDelivered struct {
	Ev   advEvent
	At   time.Duration
	Conn int
}

type advResult struct {
	W         *simWorld
	Writes    []simWrite
	Reads     []simRead
	Delivered []advDelivered
	Returned  bool
	RetAt     time.Duration
	RetErr    error
	StopAt    time.Duration
	Leaked    bool
	Panic     any
	Series    map[string]metricslite.Series
	Logs      string
	Hooks     []string        // OnInconsistentRA invocations: raStr(ours)
	HookAt    []time.Duration // ... and when (parallel to Hooks)
	Extra     map[string]any
}

func vkErrOf(kind string) error {
	switch kind {
	case "timeout":
		return vkTimeout{}
	case "syscall":
		return vkErrSyscall
	case "syscall:EINTR", "syscall:EMFILE", "syscall:ENFILE", "syscall:ENOBUFS", "syscall:EIO", "syscall:ENODEV", "syscall:ENETDOWN",
		"syscall:ENETUNREACH", "syscall:EADDRNOTAVAIL", "syscall:ENOMEM", "syscall:EMSGSIZE", "syscall:EPERM", "syscall:EACCES":
		// in the shape a socket read really fails with (x/net/ipv6 wraps the system call error in a *net.OpError):
		// for EINTR, EMFILE and ENFILE the error reports Temporary() although it is not a timeout
		errno := map[string]syscall.Errno{"EINTR": syscall.EINTR, "EMFILE": syscall.EMFILE, "ENFILE": syscall.ENFILE, "ENOBUFS": syscall.ENOBUFS,
			"EIO": syscall.EIO, "ENODEV": syscall.ENODEV, "ENETDOWN": syscall.ENETDOWN, "ENETUNREACH": syscall.ENETUNREACH, "EADDRNOTAVAIL": syscall.EADDRNOTAVAIL,
			"ENOMEM": syscall.ENOMEM, "EMSGSIZE": syscall.EMSGSIZE, "EPERM": syscall.EPERM, "EACCES": syscall.EACCES}[strings.TrimPrefix(kind, "syscall:")]
		return &net.OpError{Op: "read", Net: "ip6:ipv6-icmp", Err: os.NewSyscallError("recvmsg", errno)}
	case "perm":
		return vkErrPermission
	case "notready":
		return fmt.Errorf("verif: %w", system.ErrLinkNotReady)
	case "":
		return nil
	}
	return vkErrOther
}

func vkMsg(e advEvent) ndp.Message {
	switch e.Msg {
	case "ra":
		if e.RA != nil {
			ra := e.RA.ndp()
			b, err := ndp.MarshalMessage(ra)
			if err != nil {
				panic("verif: generated RA does not encode: " + err.Error())
			}
			// overlong prefix lengths cannot be marshalled but can be received: patch the wire bytes
			// (4 bytes ICMPv6 header, 12 bytes RA, then options: type, length/8, body)
			var lens []uint8
			for _, o := range e.RA.Opts {
				if o.Kind == "prefix" {
					lens = append(lens, o.RawLen)
				}
			}
			for i, k := 16, 0; i+2 < len(b) && b[i+1] != 0; i += int(b[i+1]) * 8 {
				if b[i] == 3 {
					if k < len(lens) && lens[k] > 128 {
						b[i+2] = lens[k]
					}
					k++
				}
			}
			m, err := ndp.ParseMessage(b)
			if err != nil {
				panic("verif: generated RA does not decode: " + err.Error())
			}
			return m
		}
		return &ndp.RouterAdvertisement{CurrentHopLimit: 64, RouterLifetime: 1800 * time.Second}
	case "ns":
		return &ndp.NeighborSolicitation{TargetAddress: netip.MustParseAddr("fe80::1")}
	case "na":
		return &ndp.NeighborAdvertisement{TargetAddress: netip.MustParseAddr("fe80::2"), Solicited: true}
	}
	return vkRS(e.SLLA)
}

// runAdvertiser executes the scenario. hook, if not nil, is called inside the
// bubble at every "scrape" event and once after the stop (used by C04/C17).
func runAdvertiser(t *testing.T, sc advScenario, hook func(w *simWorld, a *Advertiser, ev *advEvent)) *advResult {
	res := &advResult{Extra: map[string]any{}}
	sc.Events = append([]advEvent(nil), sc.Events...) // never reorder the caller's slice
	sort.SliceStable(sc.Events, func(i, j int) bool { return sc.Events[i].AtNS < sc.Events[j].AtNS })
	res.Leaked, res.Panic = bubble(t, func() {
		cfg := sc.Cfg.iface("eth0")
		var all []config.Interface
		for i, kind := range sc.Before {
			all = append(all, config.Interface{Name: fmt.Sprintf("pre%d", i), Monitor: kind == "monitor"})
		}
		all = append(all, cfg)
		for i, x := range sc.Extra {
			all = append(all, x.iface(fmt.Sprintf("eth%d", i+1)))
		}
		w := newSimWorld(all)
		w.ifis = all
		res.W = w
		w.fwd["eth0"] = sc.Fwd0
		w.eventf("config: min=%v max=%v unicast_only=%v lifetime=%ds forwarding=%v write-rules=%+v dial=%v", time.Duration(sc.Cfg.MinNS), time.Duration(sc.Cfg.MaxNS), sc.Cfg.UnicastOnly, sc.Cfg.LifeS, sc.Fwd0, sc.Lat, sc.DialFail)
		w.stDelay = time.Duration(sc.StateDelayNS)
		w.stAfter = time.Duration(sc.StateAfterNS)
		counts := map[[2]interface{}]int{}
		rule := func(conn, n int, dst netip.Addr) *latRule {
			kind := "unicast"
			if dst.IsMulticast() {
				kind = "multicast"
			}
			for i := range sc.Lat {
				r := &sc.Lat[i]
				if r.Dst != "any" && r.Dst != kind {
					continue
				}
				if r.N < 0 {
					return r
				}
			}
			return nil
		}
		_ = rule
		// per (conn, class) counters are kept inside the latency callback
		w.writeLatency = func(conn, n int, dst netip.Addr) time.Duration {
			kind := "unicast"
			if dst.IsMulticast() {
				kind = "multicast"
			}
			var d time.Duration
			for i := range sc.Lat {
				r := &sc.Lat[i]
				if r.Dst != "any" && r.Dst != kind {
					continue
				}
				key := [2]interface{}{conn, i}
				w.mu.Lock()
				c := counts[key]
				counts[key] = c + 1
				w.mu.Unlock()
				if r.N < 0 || r.N == c {
					d += time.Duration(r.NS)
				}
			}
			return d
		}
		errCounts := map[[2]interface{}]int{}
		w.writeErr = func(conn, n int, dst netip.Addr) error {
			kind := "unicast"
			if dst.IsMulticast() {
				kind = "multicast"
			}
			for i := range sc.Lat {
				r := &sc.Lat[i]
				if r.Err == "" || (r.Dst != "any" && r.Dst != kind) || (r.FirstConn && conn != 0) {
					continue
				}
				if r.AfterStop && (sc.StopNS <= 0 || w.now() < time.Duration(sc.StopNS)) {
					continue
				}
				key := [2]interface{}{conn, i}
				w.mu.Lock()
				c := errCounts[key]
				errCounts[key] = c + 1
				w.mu.Unlock()
				if r.N < 0 || r.N == c || (r.From && c >= r.N) {
					return vkErrOf(r.Err)
				}
			}
			return nil
		}
		if len(sc.DialFail) > 0 {
			w.dialResult = func(i int) error {
				if i < len(sc.DialFail) {
					return vkErrOf(sc.DialFail[i])
				}
				return nil
			}
		}
		watchC := newWatchC()
		term := false
		a := NewAdvertiser(w.cctx, cfg, w.newDialer("eth0", system.Advertise), watchC, func() bool { w.mu.Lock(); defer w.mu.Unlock(); return term })
		a.OnInconsistentRA = func(ours, theirs *ndp.RouterAdvertisement) {
			w.mu.Lock()
			res.Hooks = append(res.Hooks, raStr(ours))
			res.HookAt = append(res.HookAt, w.now())
			w.mu.Unlock()
		}
		run := w.start(a)
		synctest.Wait() // let the task dial and start reading before the first event
		cur := func() *simConn {
			w.mu.Lock()
			defer w.mu.Unlock()
			if len(w.conns) == 0 {
				return nil
			}
			return w.conns[len(w.conns)-1]
		}
		for i := range sc.Events {
			ev := sc.Events[i]
			if sc.StopNS > 0 && ev.AtNS > sc.StopNS && !sc.NoStop {
				break
			}
			if d := time.Duration(ev.AtNS) - w.now(); d > 0 {
				select {
				case <-time.After(d):
				case <-run.done:
				}
			}
			if done, _, _ := run.finished(); done {
				break
			}
			switch ev.Kind {
			case "rs", "msg":
				c := cur()
				if c == nil {
					continue
				}
				hop := ev.Hop
				if hop == 0 {
					hop = 255
				} else if hop == 256 {
					hop = 0
				}
				from := netip.MustParseAddr(ev.From)
				if from.Is6() && from.IsLinkLocalUnicast() {
					from = from.WithZone("eth0")
				}
				n := max(ev.N, 1)
				for j := 0; j < n; j++ {
					e2 := ev
					if ev.Kind == "rs" {
						e2.Msg = "rs"
					}
					from := from
					if ev.Crowd && j > 0 && !from.IsUnspecified() {
						b := from.As16()
						b[8], b[9], b[10], b[11] = byte(j>>24), byte(j>>16), byte(j>>8), byte(j)
						from = netip.AddrFrom16(b).WithZone(from.Zone())
						e2.From = from.WithZone("").String()
					}
					c.deliver(simIn{Msg: vkMsg(e2), HopLimit: hop, From: from})
					res.Delivered = append(res.Delivered, advDelivered{Ev: e2, At: w.now(), Conn: c.id})
				}
				w.eventf("deliver %s x%d from %s hop=%d on conn %d", ev.Kind+ev.Msg, n, ev.From, hop, c.id)
			case "flip":
				w.setForwarding("eth0", ev.Value)
			case "statefail":
				// the forwarding state cannot be read from now on (Err: perm = EACCES on the sysctl file, other), or can again ("")
				w.mu.Lock()
				switch ev.Err {
				case "":
					w.fwdErr = nil
				case "perm":
					w.fwdErr = &fs.PathError{Op: "open", Path: "/proc/sys/net/ipv6/conf/eth0/forwarding", Err: syscall.EACCES}
				default:
					w.fwdErr = vkErrOf(ev.Err)
				}
				w.mu.Unlock()
				w.eventf("forwarding state read fails: %q", ev.Err)
			case "link":
				w.eventf("link event")
				select {
				case watchC <- netstate.LinkDown:
				default:
				}
			case "readerr":
				if c := cur(); c != nil {
					for j := 0; j < max(ev.N, 1); j++ {
						c.deliver(simIn{Err: vkErrOf(ev.Err)})
					}
					w.eventf("inject read error %s x%d on conn %d", ev.Err, max(ev.N, 1), c.id)
					res.Delivered = append(res.Delivered, advDelivered{Ev: ev, At: w.now(), Conn: c.id})
				}
			case "scrape":
				if hook != nil {
					hook(w, a, &ev)
				}
			}
		}
		if !sc.NoStop {
			if d := time.Duration(sc.StopNS) - w.now(); d > 0 {
				select {
				case <-time.After(d):
				case <-run.done:
				}
			}
			w.mu.Lock()
			term = sc.Terminate
			w.mu.Unlock()
			res.StopAt = w.now()
			w.eventf("stop (terminate=%v)", sc.Terminate)
			run.cancel()
		}
		wait := time.Duration(sc.WaitNS)
		if wait == 0 {
			wait = 30 * time.Second
		}
		run.waitDone(wait)
		if sc.TailNS > 0 {
			time.Sleep(time.Duration(sc.TailNS))
		}
		if hook != nil {
			hook(w, a, nil)
		}
		res.Returned, res.RetAt, res.RetErr = run.finished()
		run.cancel()
		res.Writes, res.Reads = w.writesCopy(), w.readsCopy()
		res.Series, _ = w.mm.Series()
		res.Logs = w.logs.String()
	})
	return res
}

// counter reads one sample of a counter/gauge series (0 when absent).
func (r *advResult) counter(series, key string) float64 {
	if r.Series == nil {
		return 0
	}
	return r.Series[series].Samples[key]
}

const (
	serRAs    = "corerad_advertiser_router_advertisements_total"
	serRecv   = "corerad_advertiser_messages_received_total"
	serErrors = "corerad_advertiser_errors_total"
	serLastMC = "corerad_advertiser_last_multicast_timestamp_seconds"
)

package corerad

// C06: multicast RAs are at least MIN_DELAY_BETWEEN_RAS (3 s) apart and every
// multicast trigger is served within 3 s. Oracle over the WriteTo log of a
// real Advertiser on virtual time: spacing (safety) and service (bounded
// response) per (re)initialisation epoch; the final zero-lifetime RA is exempt.

import (
	"encoding/json"
	"fmt"
	"testing"
	"time"

	"github.com/mdlayher/corerad/internal/verifkit"
	"github.com/mdlayher/ndp"
	"pgregory.net/rapid"
)

const c06Min = 3 * time.Second

// advEpochs returns, per connection, [start, end): from its creation (or the
// completion of its initial RA) to the creation of the next connection or the
// stop instant.
func advEpochs(r *advResult) (start, end map[int]time.Duration) {
	start, end = map[int]time.Duration{}, map[int]time.Duration{}
	r.W.mu.Lock()
	conns := append([]*simConn(nil), r.W.conns...)
	r.W.mu.Unlock()
	for _, c := range conns {
		start[c.id] = c.created
	}
	for _, w := range r.Writes {
		// advertising starts when the initial RA has been sent
		if w.Start == start[w.Conn] && w.End > start[w.Conn] {
			start[w.Conn] = w.End
		}
	}
	for i, c := range conns {
		if i+1 < len(conns) {
			end[c.id] = conns[i+1].created
		} else {
			end[c.id] = r.StopAt
		}
		// the task of this connection was torn down (error, link event, stop)
		c.mu.Lock()
		if c.torn >= 0 && c.torn < end[c.id] {
			end[c.id] = c.torn
		}
		c.mu.Unlock()
		for _, w := range r.Writes {
			if w.Conn == c.id && w.Err != nil && w.End >= 0 && w.End < end[c.id] {
				end[c.id] = w.End
			}
		}
	}
	return
}

func c06Oracle(sc advScenario, r *advResult) error {
	if r.Panic != nil {
		return verifkit.Violf("panic", "panic in bubble: %v\n%s", r.Panic, r.W.timeline())
	}
	// safety
	last := map[int]simWrite{}
	seen := map[int]bool{}
	for _, w := range r.Writes {
		if w.Dst != vkAllNodes {
			continue
		}
		if w.Start >= r.StopAt && !sc.NoStop {
			// "only the single zero-lifetime advertisement sent on termination is exempt" - and what starts at the very
			// instant of the stop, which may have been due before it
			if w.Start == r.StopAt || (sc.Terminate && (w.Lifetime == 0 || sc.Cfg.LifeS == 0)) {
				continue
			}
		}
		if seen[w.Conn] {
			if gap := w.Start - last[w.Conn].Start; gap < c06Min {
				return verifkit.Violf("C06/multicast-spacing", "multicast RAs on connection %d at %v and %v are only %v apart\n%s",
					w.Conn, last[w.Conn].Start, w.Start, gap, r.W.timeline())
			}
		}
		seen[w.Conn], last[w.Conn] = true, w
	}
	// service
	start, end := advEpochs(r)
	type trig struct {
		at   time.Duration
		conn int
		what string
	}
	var trigs []trig
	for _, d := range r.Reads {
		if _, isRS := d.In.Msg.(*ndp.RouterSolicitation); isRS && d.In.Err == nil && d.In.HopLimit == ndp.HopLimit && d.In.From.IsUnspecified() {
			trigs = append(trigs, trig{d.At, d.Conn, "RS from ::"})
		}
	}
	if sc.Cfg.MinNS == sc.Cfg.MaxNS && sc.Cfg.MaxNS%int64(time.Second) == 0 {
		for c, s := range start {
			for k := 0; ; k++ {
				at := s + time.Duration(k)*time.Duration(sc.Cfg.MaxNS)
				if at >= end[c] {
					break
				}
				trigs = append(trigs, trig{at, c, fmt.Sprintf("periodic tick %d", k)})
			}
		}
	}
	for _, tr := range trigs {
		if tr.at+c06Min >= end[tr.conn] || tr.at < start[tr.conn] {
			continue // a stop or re-initialisation intervenes
		}
		served := false
		for _, w := range r.Writes {
			if w.Conn == tr.conn && w.Dst == vkAllNodes && w.Start >= tr.at && w.Start <= tr.at+c06Min {
				served = true
				break
			}
		}
		if !served {
			return verifkit.Violf("C06/trigger-not-served", "%s at %v on connection %d: no multicast RA within [%v,%v]\n%s",
				tr.what, tr.at, tr.conn, tr.at, tr.at+c06Min, r.W.timeline())
		}
	}
	// the periodic timer for any min/max pair: it fires no later than MaxRtrAdvInterval (to one second) after it was
	// set, and what it asks for goes out at most 3 s later - so while a connection lives, two consecutive multicast
	// RAs are never further apart than that (a tick that gets lost shows as a gap of up to twice the interval)
	if !sc.Cfg.UnicastOnly {
		var slow time.Duration
		for _, l := range sc.Lat {
			slow = max(slow, time.Duration(l.NS))
		}
		bound := time.Duration(sc.Cfg.MaxNS).Round(time.Second) + time.Second + c06Min + 2*slow
		lastMC := map[int]time.Duration{}
		for c, s := range start {
			lastMC[c] = s
		}
		check := func(conn int, from, to time.Duration) error {
			if to-from > bound {
				return verifkit.Violf("C06/periodic-ra-missing", "connection %d: no multicast RA between %v and %v (%v; max_interval %v + 3 s allow %v)\n%s",
					conn, from, to, to-from, time.Duration(sc.Cfg.MaxNS), bound, r.W.timeline())
			}
			return nil
		}
		for _, w := range r.Writes {
			if w.Dst != vkAllNodes || w.Start < start[w.Conn] || w.Start >= end[w.Conn] {
				continue
			}
			if err := check(w.Conn, lastMC[w.Conn], w.Start); err != nil {
				return err
			}
			lastMC[w.Conn] = w.Start
		}
		for c, at := range lastMC {
			if end[c] > at {
				if err := check(c, at, end[c]); err != nil {
					return err
				}
			}
		}
	}
	return nil
}

func c06Classes(sc advScenario, r *advResult) (bool, []string) {
	// non-trivial: two triggers < 3 s apart, or a trigger within 3 s of the previous multicast write
	nt := false
	var times []time.Duration
	for _, d := range r.Delivered {
		if d.Ev.Kind == "rs" && d.Ev.From == "::" {
			times = append(times, d.At)
		}
	}
	burst := 0
	for i := 1; i < len(times); i++ {
		if times[i]-times[i-1] < c06Min {
			nt = true
			burst++
		}
	}
	for _, tm := range times {
		for _, w := range r.Writes {
			if w.Dst == vkAllNodes && w.Start <= tm && tm-w.Start < c06Min {
				nt = true
			}
		}
	}
	cls := []string{fmt.Sprintf("multicast-triggers=%d", min(len(times), 8)), fmt.Sprintf("close-pairs/8=%d", min(burst/8, 5))}
	conns := map[int]bool{}
	for _, w := range r.Writes {
		conns[w.Conn] = true
	}
	if len(conns) > 1 {
		cls = append(cls, "re-initialised")
	}
	if sc.Cfg.MinNS == sc.Cfg.MaxNS {
		cls = append(cls, "fixed-interval")
		nt = true // periodic ticks collide with the initial RA spacing
	}
	return nt, cls
}

func c06Prop(t *testing.T, k *verifkit.Kit) func(sc advScenario) error {
	return func(sc advScenario) error {
		if sc.WaitNS == 0 {
			sc.WaitNS = int64(30 * time.Second)
			for _, l := range sc.Lat {
				sc.WaitNS += 4 * l.NS // (the harness's patience with slow transmissions, not a verdict)
			}
		}
		r := runAdvertiser(t, sc, nil)
		if r.W == nil {
			return fmt.Errorf("verif: world not created: %v", r.Panic)
		}
		nt, cls := c06Classes(sc, r)
		k.Record(sc, nt, cls...)
		return c06Oracle(sc, r)
	}
}

var c06Sources = []string{"fe80::a", "fe80::b", "2001:db8::c"}

func c06BaseCfg(maxS int64) advCfg {
	return advCfg{MinNS: maxS * int64(time.Second), MaxNS: maxS * int64(time.Second), LifeS: 1800,
		RA: vRA{Hop: 64, Opts: []vOpt{{Kind: "prefix", Prefix: "2001:db8:1::/64", OnLink: true, Auto: true, ValidS: 86400, PrefS: 14400}}}}
}

// c06Grid enumerates every history of <= n events whose gaps come from the
// grid around the 3 s boundary.
func c06Grid(n int) func(yield func(advScenario) bool) {
	s := int64(time.Second)
	return c06GridOn(n, []int64{0, 1, 3 * s / 2, 3*s - 1, 3 * s, 3*s + 1, 6 * s}, []int64{4, 7}, 1)
}

// c06GridOn: every history of minLen..n events whose gaps come from the given grid.
func c06GridOn(n int, gaps, maxes []int64, minLen int) func(yield func(advScenario) bool) {
	s := int64(time.Second)
	kinds := []string{"rs::", "rsu", "link"}
	return func(yield func(advScenario) bool) {
		var rec func(evs []advEvent, at int64) bool
		rec = func(evs []advEvent, at int64) bool {
			if len(evs) >= minLen {
				for _, mx := range maxes {
					sc := advScenario{Cfg: c06BaseCfg(mx), Fwd0: true, Events: append([]advEvent(nil), evs...), StopNS: at + 7*s, Terminate: len(evs)%2 == 0}
					if !yield(sc) {
						return false
					}
				}
			}
			if len(evs) == n {
				return true
			}
			for _, g := range gaps {
				for _, kd := range kinds {
					ev := advEvent{AtNS: at + g, Kind: "rs", From: "::"}
					switch kd {
					case "rsu":
						ev.From = c06Sources[len(evs)%len(c06Sources)]
					case "link":
						ev = advEvent{AtNS: at + g, Kind: "link"}
					}
					if !rec(append(evs, ev), at+g) {
						return false
					}
				}
			}
			return true
		}
		rec(nil, 0)
	}
}

func c06Gen(t *rapid.T) advScenario {
	s := int64(time.Second)
	var cfg advCfg
	if rapid.Bool().Draw(t, "fixed") {
		cfg = c06BaseCfg(rapid.Int64Range(4, 8).Draw(t, "max"))
	} else {
		mx := rapid.Int64Range(4*s, 40*s).Draw(t, "maxns")
		up := (mx * 3 / 4) / s * s
		cfg = c06BaseCfg(4)
		cfg.MaxNS = mx
		cfg.MinNS = rapid.Int64Range(3*s, max(up, 3*s)).Draw(t, "minns")
		if cfg.MinNS > up {
			cfg.MinNS, cfg.MaxNS = 3*s, 4*s
		}
	}
	sc := advScenario{Cfg: cfg, Fwd0: true, Terminate: rapid.Bool().Draw(t, "terminate")}
	at := int64(0)
	for i, n := 0, rapid.IntRange(1, 30).Draw(t, "nevents"); i < n; i++ {
		switch rapid.IntRange(0, 5).Draw(t, "gapkind") {
		case 0:
			at += rapid.SampledFrom([]int64{0, 1, 3*s - 1, 3 * s, 3*s + 1}).Draw(t, "edge")
		case 1, 2:
			at += rapid.Int64Range(0, int64(time.Millisecond)).Draw(t, "burstgap")
		default:
			at += rapid.Int64Range(0, 8*s).Draw(t, "gap")
		}
		switch rapid.IntRange(0, 9).Draw(t, "kind") {
		case 0:
			sc.Events = append(sc.Events, advEvent{AtNS: at, Kind: "link"})
		case 1, 2, 3:
			ev := advEvent{AtNS: at, Kind: "rs", From: rapid.SampledFrom(c06Sources).Draw(t, "src"), SLLA: rapid.Bool().Draw(t, "slla")}
			if rapid.IntRange(0, 3).Draw(t, "uburst") == 0 {
				// a burst of unicast solicitations (more than the 16-slot request queue holds), half of the
				// time at the very instant a periodic tick is due: the tick must not get lost in the crowd
				ev.N = rapid.SampledFrom([]int{17, 40, 60}).Draw(t, "uburstn")
				if cfg.MinNS == cfg.MaxNS && rapid.Bool().Draw(t, "ontick") {
					ev.AtNS = (at/cfg.MaxNS + 1) * cfg.MaxNS
					at = ev.AtNS
				}
			}
			sc.Events = append(sc.Events, ev)
		default:
			sc.Events = append(sc.Events, advEvent{AtNS: at, Kind: "rs", From: "::", N: rapid.SampledFrom([]int{1, 1, 1, 2, 5, 40}).Draw(t, "burst")})
		}
	}
	sc.StopNS = at + rapid.Int64Range(0, 12*s).Draw(t, "tail")
	if rapid.IntRange(0, 5).Draw(t, "longtail") == 0 {
		sc.StopNS += rapid.Int64Range(100*s, 400*s).Draw(t, "longtailv") // (long enough for the periodic timer to leave its initial phase)
	}
	if rapid.IntRange(0, 3).Draw(t, "unicastfails") == 0 {
		// some transmission to a host fails while the all-nodes group can still be reached (the host has left):
		// whatever the advertiser then does - it re-initialises - the multicast RAs of each initialisation keep their distance
		sc.Lat = []latRule{{Dst: rapid.SampledFrom([]string{"unicast", "unicast", "multicast", "any"}).Draw(t, "faildst"), N: rapid.IntRange(0, 4).Draw(t, "failnth"), Err: rapid.SampledFrom([]string{"syscall", "syscall:ENOBUFS", "syscall:EINTR"}).Draw(t, "failkind"),
			From: rapid.IntRange(0, 3).Draw(t, "failall") == 0}}
	}
	if rapid.IntRange(0, 3).Draw(t, "slowwrites") == 0 {
		// transmissions take time (nothing bounds a write to a raw socket): from a busy link to one stalled for
		// longer than MIN_DELAY_BETWEEN_RAS
		sc.Lat = append(sc.Lat, latRule{Dst: rapid.SampledFrom([]string{"any", "multicast", "unicast"}).Draw(t, "slowdst"), N: -1,
			NS: rapid.SampledFrom([]int64{1, int64(time.Millisecond), 100 * int64(time.Millisecond), 3*s - 1, 3 * s, 3*s + 1, 10 * s}).Draw(t, "slowns")})
	}
	return sc
}

func TestVerif_C06(t *testing.T) {
	k := verifkit.Start(t, "C06")
	prop := c06Prop(t, k)
	k.Regress(t, func(sub string, raw json.RawMessage) error { return verifkit.Decode(raw, prop) })
	n := 3
	if k.Thorough() {
		n = 4
	}
	verifkit.Enumerate(k, t, fmt.Sprintf("grid-histories<=%d-events", n), true, c06Grid(n), prop)
	if k.Thorough() {
		// the histories of exactly 5 events on the grid right around the boundary (0, 1 ns, 3 s - 1 ns, 3 s, 3 s + 1 ns)
		s := int64(time.Second)
		verifkit.Enumerate(k, t, "grid-histories-of-5-events(boundary-grid)", true, c06GridOn(5, []int64{0, 1, 3*s - 1, 3 * s, 3*s + 1}, []int64{4}, 5), prop)
	}
	verifkit.Enumerate(k, t, "bursts-on-every-tick", true, c06TickBursts, prop)
	verifkit.Rapid(k, t, "random-bursty-histories", k.N(2000, 100000), c06Gen, prop)
}

// c06TickBursts: a crowd of unicast solicitations (more than the request queue holds) at, just before and just after
// every one of a dozen periodic ticks: whether a tick is lost in the crowd depends on which goroutine runs first at
// that instant, so one burst on one tick (as the random histories have it) finds such a loss only now and then.
func c06TickBursts(yield func(advScenario) bool) {
	s := int64(time.Second)
	for _, mx := range []int64{4, 5, 8} {
		for _, n := range []int{17, 40, 60} {
			for _, off := range []int64{0, -1, 1} {
				sc := advScenario{Cfg: c06BaseCfg(mx), Fwd0: true}
				for k := int64(1); k <= 12; k++ {
					sc.Events = append(sc.Events, advEvent{AtNS: k*mx*s + off, Kind: "rs", From: c06Sources[int(k)%len(c06Sources)], N: n})
				}
				sc.StopNS = 13*mx*s + 2*s
				if !yield(sc) {
					return
				}
			}
		}
	}
}

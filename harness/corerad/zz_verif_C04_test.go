package corerad

// C04: a non-forwarding interface never advertises itself as a default
// router, on every path that generates an RA, tracking forwarding flips.
// Oracle: per-RA invariant against the forwarding value at the instant of
// generation (from the world's flip log), on virtual time.

import (
	"encoding/json"
	"fmt"
	"io"
	"log"
	"net/http/httptest"
	"net/netip"
	"strings"
	"testing"
	"time"

	"github.com/mdlayher/corerad/internal/config"
	"github.com/mdlayher/corerad/internal/crhttp"
	"github.com/mdlayher/corerad/internal/verifkit"
	"pgregory.net/rapid"
)

var vkConstNames = []string{ifiAdvertising, ifiAutoconfiguration, ifiForwarding, ifiMonitoring, advMisconfiguration, advDNSSLLifetime,
	advPrefixAutonomous, advPrefixOnLink, advPrefixValid, advPrefixPreferred, advRDNSSLifetime, advRouteLifetime}

// vkScrape runs one const-metrics scrape and returns the samples of exactly
// this scrape as name -> "label,label" -> value.
func vkScrape(mm *Metrics) (map[string]map[string]float64, error) {
	out := map[string]map[string]float64{}
	metrics := map[string]func(float64, ...string){}
	for _, n := range vkConstNames {
		n := n
		out[n] = map[string]float64{}
		metrics[n] = func(v float64, labels ...string) { out[n][strings.Join(labels, "|")] = v }
	}
	err := mm.constScrape(metrics)
	return out, err
}

type c04Obs struct {
	At     time.Duration
	Path   string // scrape api
	Iface  string
	Life   int     // router lifetime seconds reported (api)
	Fwd    float64 // forwarding gauge (scrape)
	Miscfg bool    // misconfiguration gauge present (scrape)
	Err    string
}

type c04Case struct {
	Sc    advScenario `json:"scenario"`
	Flips []advEvent  `json:"flips_other_interfaces"` // flips of eth1.. (From = interface name)
}

// fwdAt returns the forwarding value of iface at time t and whether a flip
// happens at exactly t (then either value is acceptable).
func fwdAt(c c04Case, iface string, t time.Duration) (bool, bool) {
	v := c.Sc.Fwd0
	if iface != "eth0" {
		v = true
	}
	amb := false
	evs := c.Sc.Events
	if iface != "eth0" {
		evs = c.Flips
	}
	for _, e := range evs {
		if e.Kind != "flip" || (iface != "eth0" && e.From != iface) {
			continue
		}
		at := time.Duration(e.AtNS)
		switch {
		case at < t:
			v = e.Value
		case at == t:
			amb = true
		}
	}
	return v, amb
}

func c04Prop(t *testing.T, k *verifkit.Kit) func(c c04Case) error {
	return func(c c04Case) error {
		sc := c.Sc
		sc.Events = append([]advEvent(nil), c.Sc.Events...)
		// merge the other interfaces' flips into the event list as generic events handled by the hook
		for _, f := range c.Flips {
			sc.Events = append(sc.Events, advEvent{AtNS: f.AtNS, Kind: "scrape", From: f.From, Value: f.Value, Msg: "flip"})
		}
		var obs []c04Obs
		var h *crhttp.Handler
		hook := func(w *simWorld, a *Advertiser, ev *advEvent) {
			if ev == nil {
				return
			}
			if ev.Msg == "flip" {
				w.setForwarding(ev.From, ev.Value)
				return
			}
			now := w.now()
			samples, err := vkScrape(w.mm)
			if err != nil {
				obs = append(obs, c04Obs{At: now, Path: "scrape", Err: err.Error()})
			} else {
				for _, ifi := range w.ifis {
					_, mis := samples[advMisconfiguration][ifi.Name+"|interface_not_forwarding"]
					obs = append(obs, c04Obs{At: now, Path: "scrape", Iface: ifi.Name, Fwd: samples[ifiForwarding][ifi.Name], Miscfg: mis})
				}
			}
			// one handler for the life of the daemon, as main.go builds it (state kept between requests shows)
			if h == nil {
				h = crhttp.NewHandler(log.New(io.Discard, "", 0), simState{w}, config.Config{Interfaces: w.ifis}, nil)
			}
			rec := httptest.NewRecorder()
			h.ServeHTTP(rec, httptest.NewRequest("GET", "/_/api/interfaces", nil))
			var body struct {
				Interfaces []struct {
					Interface     string `json:"interface"`
					Advertisement *struct {
						Life int `json:"router_lifetime_seconds"`
					} `json:"advertisement"`
				} `json:"interfaces"`
			}
			if rec.Code != 200 || json.Unmarshal(rec.Body.Bytes(), &body) != nil {
				obs = append(obs, c04Obs{At: now, Path: "api", Err: fmt.Sprintf("status %d: %s", rec.Code, rec.Body.String())})
			} else {
				for _, x := range body.Interfaces {
					if x.Advertisement != nil {
						obs = append(obs, c04Obs{At: now, Path: "api", Iface: x.Interface, Life: x.Advertisement.Life})
					}
				}
			}
		}
		r := runAdvertiser(t, sc, hook)
		if r.Panic != nil || r.W == nil {
			return verifkit.Violf("panic", "panic in bubble: %v", r.Panic)
		}
		tl := r.W.timeline()
		lifeOf := func(iface string) int64 {
			if iface == "eth0" {
				return c.Sc.Cfg.LifeS
			}
			if strings.HasPrefix(iface, "pre") {
				return 0 // not advertising
			}
			var n int
			fmt.Sscanf(iface, "eth%d", &n)
			return c.Sc.Extra[n-1].LifeS
		}
		// 1. every transmitted RA
		paths := map[string]bool{}
		flips, gensAfterFlip := 0, 0
		for _, e := range c.Sc.Events {
			if e.Kind == "flip" {
				flips++
			}
		}
		misLogsWant, misLogsAmb := 0, 0
		firstFlip := time.Duration(1 << 62)
		for _, e := range c.Sc.Events {
			if e.Kind == "flip" && time.Duration(e.AtNS) < firstFlip {
				firstFlip = time.Duration(e.AtNS)
			}
		}
		firstOnConn := map[int]bool{}
		for i, x := range r.Writes {
			f, amb := fwdAt(c, "eth0", x.Start)
			final := sc.Terminate && x.Start >= r.StopAt && x.Dst == vkAllNodes && i == len(r.Writes)-1 && r.Returned
			path := "solicited"
			switch {
			case !firstOnConn[x.Conn]:
				firstOnConn[x.Conn] = true
				path = "initial"
			case final:
				path = "final"
			case x.Dst == vkAllNodes:
				path = "periodic-or-multicast"
			}
			paths[path] = true
			if x.Start > firstFlip {
				gensAfterFlip++
			}
			okF, okNF := x.RA == c.Sc.Cfg.expect(true, final), x.RA == c.Sc.Cfg.expect(false, final)
			if !(f && okF || !f && okNF || amb && (okF || okNF)) {
				sig := "C04/transmitted-ra-wrong"
				if !f && x.Lifetime != 0 {
					sig = "C04/nonzero-lifetime-while-not-forwarding"
				} else if f && x.Lifetime == 0 && c.Sc.Cfg.LifeS > 0 && !final {
					sig = "C04/zero-lifetime-while-forwarding"
				}
				return verifkit.Violf(sig, "%s RA to %v at %v with forwarding=%v:\nwant %s\ngot  %s\n%s", path, x.Dst, x.Start, f, c.Sc.Cfg.expect(f, final), x.RA, tl)
			}
			if c.Sc.Cfg.LifeS > 0 && !final {
				if amb {
					misLogsAmb++
				} else if !f {
					misLogsWant++
				}
			} else if !f || amb {
				misLogsAmb++ // (configured lifetime 0, or the final RA, while not forwarding: a report is neither demanded nor forbidden)
			}
		}
		// 2. the consistency check's own RA (hook)
		for i, ours := range r.Hooks {
			paths["consistency-check"] = true
			if ours != c.Sc.Cfg.expect(true, false) && ours != c.Sc.Cfg.expect(false, false) {
				return verifkit.Violf("C04/consistency-check-ra-wrong", "own RA used for the consistency check: %s\n%s", ours, tl)
			}
			// ... and it is the RA of that moment: the forwarding state is read when the other router's RA is handled
			// (with slow state reads the hook fires later than the read: then either value within the delay is accepted)
			if i < len(r.HookAt) && c.Sc.StateDelayNS == 0 && c.Sc.StateAfterNS == 0 {
				if f, amb := fwdAt(c, "eth0", r.HookAt[i]); !amb && ours != c.Sc.Cfg.expect(f, false) {
					return verifkit.Violf("C04/consistency-check-ra-stale", "own RA used for the consistency check at %v with forwarding=%v: %s\n%s", r.HookAt[i], f, ours, tl)
				}
			}
		}
		for _, rd := range r.Reads {
			// each received RA makes the advertiser build its own once
			if rd.In.Err == nil && rd.In.HopLimit == 255 && rd.In.Msg != nil && rd.In.Msg.Type().String() == vkTypeName("ra") {
				f, amb := fwdAt(c, "eth0", rd.At)
				if c.Sc.Cfg.LifeS > 0 {
					if amb {
						misLogsAmb++
					} else if !f {
						misLogsWant++
					}
				}
			}
		}
		// 3. scrapes and API requests
		for _, o := range obs {
			if o.Err != "" {
				return verifkit.Violf("C04/scrape-or-api-failed", "%s at %v failed: %s\n%s", o.Path, o.At, o.Err, tl)
			}
			paths[o.Path] = true
			f, amb := fwdAt(c, o.Iface, o.At)
			if amb {
				continue
			}
			cfgLife := lifeOf(o.Iface)
			switch o.Path {
			case "scrape":
				if (o.Fwd == 1) != f {
					return verifkit.Violf("C04/forwarding-gauge-wrong", "scrape at %v: interface_forwarding{%s} = %v, forwarding is %v\n%s", o.At, o.Iface, o.Fwd, f, tl)
				}
				if want := !f && cfgLife > 0; o.Miscfg != want && !(!f && cfgLife == 0) { // (configured lifetime 0 while not forwarding: "whenever forwarding is disabled" says report, the code reports a *mis*configuration only - either)
					return verifkit.Violf("C04/misconfiguration-gauge-wrong", "scrape at %v: interface_not_forwarding{%s} present=%v, want %v (forwarding=%v lifetime=%d)\n%s", o.At, o.Iface, o.Miscfg, want, f, cfgLife, tl)
				}
			case "api":
				want := cfgLife
				if !f {
					want = 0
				}
				if int64(o.Life) != want {
					return verifkit.Violf("C04/api-lifetime-wrong", "debug API at %v: %s router_lifetime_seconds = %d, want %d (forwarding=%v)\n%s", o.At, o.Iface, o.Life, want, f, tl)
				}
			}
		}
		// 4. log lines for advertiser-generated RAs
		// (any line that speaks of forwarding without reporting a failure to read it: the wording is the code's business)
		got := 0
		for _, line := range strings.Split(r.Logs, "\n") {
			if l := strings.ToLower(line); strings.Contains(l, "forwarding") && !strings.Contains(l, "failed") && !strings.Contains(l, "error") {
				got++
			}
		}
		if got < misLogsWant || got > misLogsWant+misLogsAmb {
			return verifkit.Violf("C04/misconfiguration-log-count", "%d 'not configured for IPv6 forwarding' log lines, want %d (+%d ambiguous)\n%s", got, misLogsWant, misLogsAmb, tl)
		}
		cls := []string{fmt.Sprintf("paths=%d", len(paths)), fmt.Sprintf("flips=%d", min(flips, 6))}
		for p := range paths {
			cls = append(cls, "path="+p)
		}
		if c.Sc.Cfg.LifeS == 0 {
			cls = append(cls, "lifetime-0")
		}
		if len(c.Sc.Extra) >= 64 {
			cls = append(cls, "65-or-more-interfaces")
		}
		k.Record(c, flips >= 1 && gensAfterFlip >= 1 && len(paths) >= 2, cls...)
		return nil
	}
}

func c04Gen(t *rapid.T) c04Case {
	s := int64(time.Second)
	cfg := c06BaseCfg(rapid.SampledFrom([]int64{4, 5, 8}).Draw(t, "max"))
	cfg.LifeS = rapid.SampledFrom([]int64{0, 1800, 1800, 9000, 12}).Draw(t, "life")
	cfg.RA.Opts = append(cfg.RA.Opts, vOpt{Kind: "mtu", MTU: 1500}, vOpt{Kind: "rdnss", LifeS: 600, Servers: []string{"2001:db8::53"}})
	cfg.RA.M = rapid.Bool().Draw(t, "m")
	sc := advScenario{Cfg: cfg, Fwd0: rapid.Bool().Draw(t, "fwd0"), Terminate: rapid.IntRange(0, 3).Draw(t, "term") != 0}
	nextra := rapid.IntRange(0, 2).Draw(t, "nextra")
	if rapid.IntRange(0, 7).Draw(t, "manyifaces") == 0 {
		// many configured interfaces: the metrics and the debug API walk all of them
		nextra = rapid.SampledFrom([]int{7, 8, 15, 16, 31, 32, 63, 64, 65, 100}).Draw(t, "nextramany")
	}
	for i, n := 0, nextra; i < n; i++ {
		x := c06BaseCfg(600)
		x.MinNS = 200 * s
		x.LifeS = rapid.SampledFrom([]int64{0, 1800, 600}).Draw(t, "xlife")
		sc.Extra = append(sc.Extra, x)
	}
	// the configuration does not have to start with the advertising interfaces
	for i, n := 0, rapid.SampledFrom([]int{0, 0, 1, 2, 3}).Draw(t, "nbefore"); i < n; i++ {
		sc.Before = append(sc.Before, rapid.SampledFrom([]string{"monitor", "idle"}).Draw(t, "before"))
	}
	c := c04Case{}
	at := int64(0)
	for i, n := 0, rapid.IntRange(2, 14).Draw(t, "nevents"); i < n; i++ {
		at += rapid.SampledFrom([]int64{1, 1000, int64(time.Millisecond), 600 * int64(time.Millisecond), 3 * s, 4 * s}).Draw(t, "gap")
		switch rapid.IntRange(0, 7).Draw(t, "kind") {
		case 0, 1, 2:
			sc.Events = append(sc.Events, advEvent{AtNS: at, Kind: "flip", Value: rapid.Bool().Draw(t, "v")})
		case 3:
			sc.Events = append(sc.Events, advEvent{AtNS: at, Kind: "rs", From: rapid.SampledFrom([]string{"fe80::a", "::", "2001:db8::b"}).Draw(t, "from")})
		case 4:
			sc.Events = append(sc.Events, advEvent{AtNS: at, Kind: "msg", Msg: "ra", From: "fe80::99", RA: &vRA{Hop: 32, LifeS: 1800}})
		case 5:
			if len(sc.Extra) > 0 {
				xi := rapid.IntRange(1, len(sc.Extra)).Draw(t, "xi")
				if rapid.Bool().Draw(t, "xilast") {
					xi = len(sc.Extra) - rapid.IntRange(0, min(3, len(sc.Extra)-1)).Draw(t, "xiback") // rapid favours small values: also the last interfaces
				}
				c.Flips = append(c.Flips, advEvent{AtNS: at, Kind: "flip", From: fmt.Sprintf("eth%d", xi), Value: rapid.Bool().Draw(t, "xv")})
			}
		default:
			sc.Events = append(sc.Events, advEvent{AtNS: at, Kind: "scrape"})
		}
	}
	sc.StopNS = at + rapid.Int64Range(1, 5*s).Draw(t, "tail")
	c.Sc = sc
	return c
}

// c04Matrix: {path} x {forwarding before/after a flip} x {lifetime kind}.
func c04Matrix(yield func(c04Case) bool) {
	s := int64(time.Second)
	for _, life := range []int64{0, 1800, 9000} {
		for _, f0 := range []bool{true, false} {
			for _, flipAt := range []int64{-1, 2 * s, 5*s + 1} {
				cfg := c06BaseCfg(4)
				cfg.LifeS = life
				sc := advScenario{Cfg: cfg, Fwd0: f0, Terminate: true, StopNS: 12 * s}
				if flipAt >= 0 {
					sc.Events = append(sc.Events, advEvent{AtNS: flipAt, Kind: "flip", Value: !f0})
				}
				for _, at := range []int64{1 * s, 4 * s, 7 * s} {
					sc.Events = append(sc.Events,
						advEvent{AtNS: at, Kind: "rs", From: "fe80::a"},
						advEvent{AtNS: at + 10, Kind: "rs", From: "::"},
						advEvent{AtNS: at + 20, Kind: "msg", Msg: "ra", From: "fe80::99", RA: &vRA{Hop: 32, LifeS: 1800}},
						advEvent{AtNS: at + 30, Kind: "scrape"})
				}
				if !yield(c04Case{Sc: sc}) {
					return
				}
			}
		}
	}
}

// Slow state reads: a forwarding read samples the value and returns 700 ms later, so that RA generations overlap.
// Every solicitation comes from a host of its own (one RS per host): the RA for it cannot rest on a forwarding value
// sampled before that RS was read, nor before the generation began (write start - 700 ms) - a generation that
// borrows the result of another one that is still in flight shows as a value from before its own trigger.
func c04SlowProp(t *testing.T, k *verifkit.Kit) func(c c04Case) error {
	return func(c c04Case) error {
		r := runAdvertiser(t, c.Sc, nil)
		if r.Panic != nil || r.W == nil {
			return verifkit.Violf("panic", "panic in bubble: %v", r.Panic)
		}
		tl := r.W.timeline()
		d := time.Duration(c.Sc.StateAfterNS)
		readAt := map[netip.Addr]time.Duration{}
		for _, rd := range r.Reads {
			if rd.In.Err == nil && rd.In.Msg != nil && rd.In.Msg.Type().String() == vkTypeName("rs") {
				if _, ok := readAt[rd.In.From.WithZone("")]; ok {
					return fmt.Errorf("verif: generator bug: two solicitations from %v", rd.In.From)
				}
				readAt[rd.In.From.WithZone("")] = rd.At
			}
		}
		overlapped, tightened := 0, 0
		var prevEnd time.Duration
		for i, x := range r.Writes {
			final := c.Sc.Terminate && x.Start >= r.StopAt && x.Dst == vkAllNodes && i == len(r.Writes)-1 && r.Returned
			lo := x.Start - d
			if tr, ok := readAt[x.Dst]; ok && tr > lo {
				lo = tr
				tightened++
			}
			if x.Start-d < prevEnd {
				overlapped++
			}
			prevEnd = max(prevEnd, x.Start)
			// the values forwarding had at some instant of [lo, x.Start]
			v0, _ := fwdAt(c, "eth0", lo)
			can := map[bool]bool{v0: true}
			for _, e := range c.Sc.Events {
				if at := time.Duration(e.AtNS); e.Kind == "flip" && at >= lo && at <= x.Start {
					can[e.Value], can[!e.Value] = true, true // (at the very instant of a flip either value)
				}
			}
			okF, okNF := x.RA == c.Sc.Cfg.expect(true, final), x.RA == c.Sc.Cfg.expect(false, final)
			if !(can[true] && okF || can[false] && okNF) {
				return verifkit.Violf("C04/ra-rests-on-forwarding-state-from-before-its-trigger", "RA to %v written at %v: forwarding was %v throughout [%v, %v] (its solicitation was read at %v, a state read takes %v), yet the RA is\n%s\n%s",
					x.Dst, x.Start, v0, lo, x.Start, readAt[x.Dst], d, x.RA, tl)
			}
		}
		_ = tightened // (only a generation that borrows an older result is ever bounded by its solicitation rather than by its own start)
		k.Record(c, overlapped > 0, fmt.Sprintf("overlapping-generations=%d", min(overlapped, 4)))
		return nil
	}
}

// Failing state reads: while the forwarding state cannot be read (permission denied on the sysctl file, or any other
// error) the advertiser may stop, re-dial or fail - what it must not do is guess: every RA that does go out still has to
// agree with the forwarding state of that moment. (Run may return an error here; that is not judged.)
func c04FailProp(t *testing.T, k *verifkit.Kit) func(c c04Case) error {
	return func(c c04Case) error {
		r := runAdvertiser(t, c.Sc, nil)
		if r.Panic != nil || r.W == nil {
			return verifkit.Violf("panic", "panic in bubble: %v", r.Panic)
		}
		tl := r.W.timeline()
		failing, during := time.Duration(-1), 0
		var windows [][2]time.Duration
		for _, e := range c.Sc.Events {
			if e.Kind != "statefail" {
				continue
			}
			if e.Err != "" && failing < 0 {
				failing = time.Duration(e.AtNS)
			} else if e.Err == "" && failing >= 0 {
				windows = append(windows, [2]time.Duration{failing, time.Duration(e.AtNS)})
				failing = -1
			}
		}
		if failing >= 0 {
			windows = append(windows, [2]time.Duration{failing, 1 << 62})
		}
		for i, x := range r.Writes {
			// (when Run ended by itself with an error there is no final advertisement: the last write is an ordinary one)
			final := c.Sc.Terminate && x.Start >= r.StopAt && x.Dst == vkAllNodes && i == len(r.Writes)-1 && r.Returned && r.RetErr == nil
			f, amb := fwdAt(c, "eth0", x.Start)
			for _, wd := range windows {
				if x.Start >= wd[0] && x.Start <= wd[1] {
					during++
				}
			}
			okF, okNF := x.RA == c.Sc.Cfg.expect(true, final), x.RA == c.Sc.Cfg.expect(false, final)
			if !(f && okF || !f && okNF || amb && (okF || okNF)) {
				sig := "C04/transmitted-ra-wrong"
				if !f && x.Lifetime != 0 {
					sig = "C04/nonzero-lifetime-while-not-forwarding"
				}
				return verifkit.Violf(sig, "RA to %v at %v with forwarding=%v (state reads failing during %v):\nwant %s\ngot  %s\n%s", x.Dst, x.Start, f, windows, c.Sc.Cfg.expect(f, final), x.RA, tl)
			}
		}
		k.Record(c, len(windows) > 0, fmt.Sprintf("state-read-failures=%d", min(len(windows), 3)), fmt.Sprintf("ras-sent-while-failing=%d", min(during, 3)))
		return nil
	}
}

func c04GenFail(t *rapid.T) c04Case {
	s, ms := int64(time.Second), int64(time.Millisecond)
	cfg := c06BaseCfg(rapid.SampledFrom([]int64{4, 8}).Draw(t, "max"))
	cfg.LifeS = rapid.SampledFrom([]int64{1800, 9000, 12}).Draw(t, "life")
	sc := advScenario{Cfg: cfg, Fwd0: rapid.IntRange(0, 3).Draw(t, "fwd0") == 0, Terminate: rapid.Bool().Draw(t, "term")}
	at, host := int64(0), 0
	for i, n := 0, rapid.IntRange(2, 8).Draw(t, "nevents"); i < n; i++ {
		at += rapid.SampledFrom([]int64{1, ms, 300 * ms, s, 3 * s, 4 * s}).Draw(t, "gap")
		switch rapid.IntRange(0, 5).Draw(t, "kind") {
		case 0:
			sc.Events = append(sc.Events, advEvent{AtNS: at, Kind: "flip", Value: rapid.Bool().Draw(t, "v")})
		case 1, 2:
			sc.Events = append(sc.Events, advEvent{AtNS: at, Kind: "statefail", Err: rapid.SampledFrom([]string{"perm", "perm", "other", "syscall", ""}).Draw(t, "err")})
		case 3:
			sc.Events = append(sc.Events, advEvent{AtNS: at, Kind: "msg", Msg: "ra", From: "fe80::99", RA: &vRA{Hop: 32, LifeS: 1800}})
		default:
			host++
			sc.Events = append(sc.Events, advEvent{AtNS: at, Kind: "rs", From: rapid.SampledFrom([]string{"::", fmt.Sprintf("fe80::%x", 0x300+host)}).Draw(t, "from")})
		}
	}
	sc.StopNS = at + rapid.Int64Range(1, 5*s).Draw(t, "tail")
	if rapid.IntRange(0, 3).Draw(t, "writefails") == 0 {
		// ... and some transmission fails (the advertiser re-initialises on a new connection)
		sc.Lat = []latRule{{Dst: rapid.SampledFrom([]string{"unicast", "multicast", "any"}).Draw(t, "faildst"), N: rapid.IntRange(1, 4).Draw(t, "failnth"), Err: "syscall"}}
	}
	return c04Case{Sc: sc}
}

func c04GenSlow(t *rapid.T) c04Case {
	s, ms := int64(time.Second), int64(time.Millisecond)
	cfg := c06BaseCfg(rapid.SampledFrom([]int64{4, 8, 600}).Draw(t, "max"))
	cfg.LifeS = rapid.SampledFrom([]int64{1800, 9000, 12}).Draw(t, "life")
	sc := advScenario{Cfg: cfg, Fwd0: rapid.Bool().Draw(t, "fwd0"), Terminate: rapid.Bool().Draw(t, "term"), StateAfterNS: 700 * ms}
	at, host, fwd := 4*s, 0, sc.Fwd0
	rs := func(at int64) {
		host++
		sc.Events = append(sc.Events, advEvent{AtNS: at, Kind: "rs", From: fmt.Sprintf("fe80::%x", 0x100+host)})
	}
	for i, n := 0, rapid.IntRange(1, 6).Draw(t, "groups"); i < n; i++ {
		at += rapid.Int64Range(0, 4*s).Draw(t, "gap")
		// a solicitation, a flip while its answer is being generated (the answer is due within 500 ms, a generation
		// takes 700 ms), and further solicitations right after the flip
		rs(at)
		flip := at + rapid.Int64Range(1, 1100*ms).Draw(t, "flipafter")
		fwd = !fwd
		if rapid.IntRange(0, 4).Draw(t, "noflip") == 0 {
			fwd = !fwd // (sometimes the flip is to the value it already has)
		}
		sc.Events = append(sc.Events, advEvent{AtNS: flip, Kind: "flip", Value: fwd})
		for j, m := 0, rapid.IntRange(0, 3).Draw(t, "followers"); j < m; j++ {
			rs(flip + rapid.Int64Range(-200*ms, 600*ms).Draw(t, "after"))
		}
		at = flip + s
	}
	sc.StopNS = at + rapid.Int64Range(1, 3*s).Draw(t, "tail")
	return c04Case{Sc: sc}
}

func TestVerif_C04(t *testing.T) {
	k := verifkit.Start(t, "C04")
	prop := c04Prop(t, k)
	slow := c04SlowProp(t, k)
	k.Regress(t, func(sub string, raw json.RawMessage) error {
		if strings.HasPrefix(sub, "slow") {
			return verifkit.Decode(raw, slow)
		}
		if strings.HasPrefix(sub, "failing-state") {
			return verifkit.Decode(raw, c04FailProp(t, k))
		}
		return verifkit.Decode(raw, prop)
	})
	verifkit.Enumerate(k, t, "path-x-forwarding-x-lifetime-matrix", true, c04Matrix, prop)
	verifkit.Rapid(k, t, "forwarding-flip-histories", k.N(1500, 300000), c04Gen, prop)
	verifkit.Rapid(k, t, "slow-state-reads", k.N(400, 60000), c04GenSlow, slow)
	verifkit.Rapid(k, t, "failing-state-reads", k.N(600, 100000), c04GenFail, c04FailProp(t, k))
}

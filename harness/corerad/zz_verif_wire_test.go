package corerad

// Wire-level inputs for C18 (monitor) and C09 (advertiser): whatever bytes
// package ndp parses into a message can be delivered by a peer, so the
// handlers must deal with every such message - also with field values no
// constructor of this code base would produce (a prefix length of 200, an
// option of an unknown type, an RA that is all options). Cases are mutated
// wire images of well-formed messages (rapid, both tiers) and, in the thorough
// tier, a native coverage-guided fuzz target over the same property.
//
// Oracle (beyond "no panic"): the message is accounted for exactly once in the
// received counter of its type (monitor) / the advertiser answers a
// solicitation with the right destination, reports an RA's inconsistencies
// without error and counts any other type as invalid.

import (
	"fmt"
	"io"
	"log"
	"math"
	"net/netip"
	"sort"
	"strings"
	"testing"
	"time"

	"github.com/mdlayher/corerad/internal/system"
	"github.com/mdlayher/corerad/internal/verifkit"
	"github.com/mdlayher/metricslite"
	"github.com/mdlayher/ndp"
	"pgregory.net/rapid"
)

type wireCase struct {
	Data []byte `json:"wire"`
	From string `json:"from"`
}

// wireSeeds are well-formed messages of every kind the handlers see.
func wireSeeds() [][]byte {
	var out [][]byte
	add := func(m ndp.Message) {
		b, err := ndp.MarshalMessage(m)
		if err != nil {
			panic("verif: seed does not encode: " + err.Error())
		}
		out = append(out, b)
	}
	add(&ndp.RouterSolicitation{})
	add(&ndp.RouterSolicitation{Options: []ndp.Option{&ndp.LinkLayerAddress{Direction: ndp.Source, Addr: []byte{2, 0, 0, 0, 0, 9}}}})
	add(&ndp.NeighborSolicitation{TargetAddress: netip.MustParseAddr("fe80::1")})
	add(&ndp.NeighborAdvertisement{TargetAddress: netip.MustParseAddr("fe80::2"), Solicited: true})
	add(vRA{Hop: 64, LifeS: 1800}.ndp())
	add(vRA{Hop: 64, M: true, O: true, Pref: 1, LifeS: 9000, ReachMS: 1000, RetransMS: 5000, Opts: []vOpt{
		{Kind: "prefix", Prefix: "2001:db8:1::/64", OnLink: true, Auto: true, ValidS: 86400, PrefS: 14400},
		{Kind: "prefix", Prefix: "2001:db8::/32", ValidS: 4294967295, PrefS: 4294967295},
		{Kind: "route", Prefix: "2001:db8:2::/48", RPref: 1, LifeS: 600},
		{Kind: "rdnss", LifeS: 600, Servers: []string{"2001:db8::53", "2001:db8::54"}},
		{Kind: "dnssl", LifeS: 600, Domains: []string{"lan", "example.com"}},
		{Kind: "mtu", MTU: 1500}, {Kind: "lla", MTU: 1}, {Kind: "cp", URI: "https://a.example/"},
		{Kind: "pref64", Prefix: "64:ff9b::/96", LifeS: 600}, {Kind: "raw"}}}.ndp())
	return out
}

func wireProp(record func(c any, nontrivial bool, classes ...string), advertiser bool) func(c wireCase) error {
	return func(c wireCase) error {
		m, err := ndp.ParseMessage(c.Data)
		if err != nil {
			record(c, false, "wire:rejected-by-the-parser")
			return nil // never reaches the handlers
		}
		host, err := netip.ParseAddr(c.From)
		if err != nil {
			return fmt.Errorf("verif: bad sender %q", c.From)
		}
		typ := m.Type().String()
		record(c, true, "wire:"+typ)
		mem := metricslite.NewMemory()
		st := system.TestState{Forwarding: true}
		mm := NewMetrics(mem, "verif", time.Time{}, st, nil)
		cctx := NewContext(log.New(io.Discard, "", 0), mm, st)
		if !advertiser {
			mon := NewMonitor(cctx, "eth1", nil, nil, true)
			at := time.Unix(1700000000, 0)
			mon.now = func() time.Time { return at }
			mon.handle(m, host.String())
			series, _ := mm.Series()
			// everything the monitor reports about a parsed RA, against the model of C18's message sequences (options
			// whose prefix has host bits set or an impossible length are left out: how they are labelled is not prescribed)
			if ra, ok := m.(*ndp.RouterAdvertisement); ok {
				v := &vRA{M: ra.ManagedConfiguration, O: ra.OtherConfiguration, LifeS: int64(ra.RouterLifetime / time.Second)}
				judged := true
				for _, o := range ra.Options {
					if pi, ok := o.(*ndp.PrefixInformation); ok {
						pfx := netip.PrefixFrom(pi.Prefix, int(pi.PrefixLength))
						if pi.PrefixLength > 128 || !pfx.IsValid() || pfx.Masked() != pfx {
							judged = false
							continue
						}
						v.Opts = append(v.Opts, vOpt{Kind: "prefix", Prefix: pfx.String(), OnLink: pi.OnLink, Auto: pi.AutonomousAddressConfiguration,
							ValidS: int64(pi.ValidLifetime / time.Second), PrefS: int64(pi.PreferredLifetime / time.Second)})
					}
				}
				if judged {
					model := c18Model{}
					c18Apply(model, c18Msg{Kind: "ra", RA: v, From: host.String()}, at, "eth1")
					if err := c18Compare(model, series, 0); err != nil {
						return verifkit.Violf("C18/wire-ra-metrics", "a parsed RA from %s: %v\nwire % x", host, err, c.Data)
					}
				}
			}
			key := fmt.Sprintf("interface=eth1,host=%s,message=%s", host, typ)
			if got := series[monReceived].Samples[key]; got != 1 || len(series[monReceived].Samples) != 1 {
				return verifkit.Violf("C18/wire-message-not-counted-once", "a parsed %s from %s: received counter %v\nwire % x", typ, host, series[monReceived].Samples, c.Data)
			}
			if ra, ok := m.(*ndp.RouterAdvertisement); ok {
				rk := fmt.Sprintf("interface=eth1,router=%s", host)
				b2f := map[bool]float64{true: 1, false: 0}
				if g, ok := series[monFlagManaged].Samples[rk]; !ok || g != b2f[ra.ManagedConfiguration] {
					return verifkit.Violf("C18/wire-flags", "managed flag gauge %v (present %v) for an RA with M=%v\nwire % x", g, ok, ra.ManagedConfiguration, c.Data)
				}
				if g, ok := series[monFlagOther].Samples[rk]; !ok || g != b2f[ra.OtherConfiguration] {
					return verifkit.Violf("C18/wire-flags", "other flag gauge %v (present %v) for an RA with O=%v\nwire % x", g, ok, ra.OtherConfiguration, c.Data)
				}
			}
			return nil
		}
		wc := c06BaseCfg(600)
		wc.MinNS = int64(200 * time.Second)
		wc.RA.Opts = append(wc.RA.Opts, vOpt{Kind: "mtu", MTU: 1500})
		cfg := wc.iface("eth0")
		a := NewAdvertiser(cctx, cfg, nil, nil, func() bool { return false })
		dst, err := a.handle(m, host)
		series, _ := mm.Series()
		switch m.(type) {
		case *ndp.RouterSolicitation:
			want := host
			if host.IsUnspecified() {
				want = netip.IPv6LinkLocalAllNodes()
			}
			if err != nil || dst != want {
				return verifkit.Violf("C09/wire-solicitation", "a parsed RS from %s: answer to %v, error %v\nwire % x", host, dst, err, c.Data)
			}
		case *ndp.RouterAdvertisement:
			if err != nil || dst.IsValid() {
				return verifkit.Violf("C09/wire-advertisement", "a parsed RA from %s: answer to %v, error %v\nwire % x", host, dst, err, c.Data)
			}
		default:
			if err != nil || dst.IsValid() {
				return verifkit.Violf("C09/wire-other", "a parsed %s: answer to %v, error %v", typ, dst, err)
			}
			if got := series[msgInvalid].Samples["interface=eth0,message="+typ]; got != 1 {
				return verifkit.Violf("C09/wire-other-not-counted", "a parsed %s is not counted as invalid: %v", typ, series[msgInvalid].Samples)
			}
		}
		return nil
	}
}

func wireGen(t *rapid.T) wireCase {
	seeds := wireSeeds()
	data := append([]byte(nil), rapid.SampledFrom(seeds).Draw(t, "seed")...)
	if rapid.IntRange(0, 3).Draw(t, "generated") == 0 {
		// a generated RA instead of a fixed seed
		b, err := ndp.MarshalMessage(c12GenRA(t, true, c12PrefixesLarge).ndp())
		if err == nil {
			data = b
		}
	}
	for i, n := 0, rapid.IntRange(0, 6).Draw(t, "nmut"); i < n && len(data) > 0; i++ {
		pos := rapid.IntRange(0, len(data)-1).Draw(t, "pos")
		switch rapid.IntRange(0, 4).Draw(t, "mut") {
		case 0:
			data[pos] = rapid.Byte().Draw(t, "byte")
		case 1:
			data[pos] = rapid.SampledFrom([]byte{0, 1, 127, 128, 129, 200, 254, 255}).Draw(t, "edge")
		case 2:
			data[pos] ^= 1 << rapid.IntRange(0, 7).Draw(t, "bit")
		case 3:
			// drop or duplicate an 8-byte unit (options are counted in units of 8)
			u := pos &^ 7
			if u+8 <= len(data) && u >= 16 {
				if rapid.Bool().Draw(t, "dup") {
					data = append(data[:u+8], data[u:]...)
				} else {
					data = append(data[:u], data[u+8:]...)
				}
			}
		default:
			end := min(len(data), pos+rapid.IntRange(1, 16).Draw(t, "span"))
			data = data[:pos+copy(data[pos:], data[end:])]
		}
	}
	return wireCase{Data: data, From: rapid.SampledFrom([]string{"fe80::a", "2001:db8::b", "::", "fe80::1"}).Draw(t, "from")}
}

func FuzzVerif_C18wire(f *testing.F) {
	for _, s := range wireSeeds() {
		f.Add(s)
	}
	nop := func(any, bool, ...string) {}
	mon, adv := wireProp(nop, false), wireProp(nop, true)
	f.Fuzz(func(t *testing.T, data []byte) {
		for _, from := range []string{"fe80::a", "::"} {
			if err := mon(wireCase{Data: data, From: from}); err != nil {
				t.Fatal(err)
			}
			if err := adv(wireCase{Data: data, From: from}); err != nil {
				t.Fatal(err)
			}
		}
	})
}

// --- the monitor's metric model (shared by C18's message sequences and the wire check above) ---

type c18Msg struct {
	Kind  string `json:"kind"` // ra rs ns na
	RA    *vRA   `json:"ra,omitempty"`
	From  string `json:"from"`
	Zone  string `json:"zone,omitempty"`
	AtNS  int64  `json:"at_ns"` // receipt time relative to the start
	Extra []vOpt `json:"-"`
}

type c18Model map[string]map[string]float64

func (m c18Model) set(series, key string, v float64) {
	if m[series] == nil {
		m[series] = map[string]float64{}
	}
	m[series][key] = v
}
func (m c18Model) add(series, key string) {
	if m[series] == nil {
		m[series] = map[string]float64{}
	}
	m[series][key]++
}

func c18Apply(m c18Model, msg c18Msg, now time.Time, iface string) {
	host := msg.From
	b2f := func(b bool) float64 {
		if b {
			return 1
		}
		return 0
	}
	m.add(monReceived, fmt.Sprintf("interface=%s,host=%s,message=%s", iface, host, vkTypeName(msg.Kind)))
	if msg.Kind != "ra" {
		return
	}
	ra := msg.RA
	rk := fmt.Sprintf("interface=%s,router=%s", iface, host)
	m.set(monFlagManaged, rk, b2f(ra.M))
	m.set(monFlagOther, rk, b2f(ra.O))
	if ra.LifeS != 0 {
		m.set(monDefaultRoute, rk, float64(now.Add(time.Duration(ra.LifeS)*time.Second).Unix()))
	}
	for _, o := range ra.Opts {
		if o.Kind != "prefix" || o.RawLen > 128 {
			continue // (how an option with an impossible prefix length is labelled is not prescribed)
		}
		pk := fmt.Sprintf("interface=%s,prefix=%s,router=%s", iface, o.Prefix, host)
		m.set(monPrefixAutonomous, pk, b2f(o.Auto))
		m.set(monPrefixOnLink, pk, b2f(o.OnLink))
		m.set(monPrefixPreferred, pk, float64(now.Add(time.Duration(o.PrefS)*time.Second).Unix()))
		m.set(monPrefixValid, pk, float64(now.Add(time.Duration(o.ValidS)*time.Second).Unix()))
	}
}

var c18Series = []string{monReceived, monFlagManaged, monFlagOther, monDefaultRoute, monPrefixAutonomous, monPrefixOnLink, monPrefixPreferred, monPrefixValid}

func c18Compare(model c18Model, got map[string]metricslite.Series, step int) error {
	for _, s := range c18Series {
		// samples labelled with something that is not a prefix come from options with an
		// impossible prefix length (> 128): their labelling is not prescribed
		gs := map[string]float64{}
		for k, v := range got[s].Samples {
			if i := strings.Index(k, "prefix="); i >= 0 {
				p, _, _ := strings.Cut(k[i+len("prefix="):], ",")
				if _, err := netip.ParsePrefix(p); err != nil {
					continue
				}
			}
			gs[k] = v
		}
		w, g := c18FmtSamples(model[s]), c18FmtSamples(gs)
		if w != g {
			return verifkit.Violf("C18/series-differs:"+s, "after message %d: %s\nwant %s\ngot  %s", step, s, w, g)
		}
	}
	return nil
}

func c18FmtSamples(m map[string]float64) string {
	var ks []string
	for k, v := range m {
		if math.IsNaN(v) {
			v = -999
		}
		ks = append(ks, fmt.Sprintf("%s=%v", k, v))
	}
	sort.Strings(ks)
	return strings.Join(ks, " ; ")
}

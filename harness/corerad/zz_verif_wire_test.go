package corerad

// Wire-level inputs for C18 (monitor) and C09 (advertiser): whatever bytes
// package ndp parses into a message can be delivered by a peer, so the
// handlers must deal with every such message - also with field values no
// constructor of this code base would produce (a prefix length of 200, an
// option of an unknown type, an RA that is all options). Cases are mutated
// wire images of well-formed messages (rapid, both tiers) and, in the thorough
// tier, a native coverage-guided fuzz target over the same property.
//
// Oracle (beyond "no panic"): the message is accounted for exactly once in the
// received counter of its type (monitor) / the advertiser answers a
// solicitation with the right destination, reports an RA's inconsistencies
// without error and counts any other type as invalid.

import (
	"fmt"
	"io"
	"log"
	"net/netip"
	"testing"
	"time"

	"github.com/mdlayher/corerad/internal/system"
	"github.com/mdlayher/corerad/internal/verifkit"
	"github.com/mdlayher/metricslite"
	"github.com/mdlayher/ndp"
	"pgregory.net/rapid"
)

type wireCase struct {
	Data []byte `json:"wire"`
	From string `json:"from"`
}

// wireSeeds are well-formed messages of every kind the handlers see.
func wireSeeds() [][]byte {
	var out [][]byte
	add := func(m ndp.Message) {
		b, err := ndp.MarshalMessage(m)
		if err != nil {
			panic("verif: seed does not encode: " + err.Error())
		}
		out = append(out, b)
	}
	add(&ndp.RouterSolicitation{})
	add(&ndp.RouterSolicitation{Options: []ndp.Option{&ndp.LinkLayerAddress{Direction: ndp.Source, Addr: []byte{2, 0, 0, 0, 0, 9}}}})
	add(&ndp.NeighborSolicitation{TargetAddress: netip.MustParseAddr("fe80::1")})
	add(&ndp.NeighborAdvertisement{TargetAddress: netip.MustParseAddr("fe80::2"), Solicited: true})
	add(vRA{Hop: 64, LifeS: 1800}.ndp())
	add(vRA{Hop: 64, M: true, O: true, Pref: 1, LifeS: 9000, ReachMS: 1000, RetransMS: 5000, Opts: []vOpt{
		{Kind: "prefix", Prefix: "2001:db8:1::/64", OnLink: true, Auto: true, ValidS: 86400, PrefS: 14400},
		{Kind: "prefix", Prefix: "2001:db8::/32", ValidS: 4294967295, PrefS: 4294967295},
		{Kind: "route", Prefix: "2001:db8:2::/48", RPref: 1, LifeS: 600},
		{Kind: "rdnss", LifeS: 600, Servers: []string{"2001:db8::53", "2001:db8::54"}},
		{Kind: "dnssl", LifeS: 600, Domains: []string{"lan", "example.com"}},
		{Kind: "mtu", MTU: 1500}, {Kind: "lla", MTU: 1}, {Kind: "cp", URI: "https://a.example/"},
		{Kind: "pref64", Prefix: "64:ff9b::/96", LifeS: 600}, {Kind: "raw"}}}.ndp())
	return out
}

func wireProp(record func(c any, nontrivial bool, classes ...string), advertiser bool) func(c wireCase) error {
	return func(c wireCase) error {
		m, err := ndp.ParseMessage(c.Data)
		if err != nil {
			record(c, false, "wire:rejected-by-the-parser")
			return nil // never reaches the handlers
		}
		host, err := netip.ParseAddr(c.From)
		if err != nil {
			return fmt.Errorf("verif: bad sender %q", c.From)
		}
		typ := m.Type().String()
		record(c, true, "wire:"+typ)
		mem := metricslite.NewMemory()
		st := system.TestState{Forwarding: true}
		mm := NewMetrics(mem, "verif", time.Time{}, st, nil)
		cctx := NewContext(log.New(io.Discard, "", 0), mm, st)
		if !advertiser {
			mon := NewMonitor(cctx, "eth1", nil, nil, true)
			mon.handle(m, host.String())
			series, _ := mm.Series()
			key := fmt.Sprintf("interface=eth1,host=%s,message=%s", host, typ)
			if got := series[monReceived].Samples[key]; got != 1 || len(series[monReceived].Samples) != 1 {
				return verifkit.Violf("C18/wire-message-not-counted-once", "a parsed %s from %s: received counter %v\nwire % x", typ, host, series[monReceived].Samples, c.Data)
			}
			if ra, ok := m.(*ndp.RouterAdvertisement); ok {
				rk := fmt.Sprintf("interface=eth1,router=%s", host)
				b2f := map[bool]float64{true: 1, false: 0}
				if g, ok := series[monFlagManaged].Samples[rk]; !ok || g != b2f[ra.ManagedConfiguration] {
					return verifkit.Violf("C18/wire-flags", "managed flag gauge %v (present %v) for an RA with M=%v\nwire % x", g, ok, ra.ManagedConfiguration, c.Data)
				}
				if g, ok := series[monFlagOther].Samples[rk]; !ok || g != b2f[ra.OtherConfiguration] {
					return verifkit.Violf("C18/wire-flags", "other flag gauge %v (present %v) for an RA with O=%v\nwire % x", g, ok, ra.OtherConfiguration, c.Data)
				}
			}
			return nil
		}
		wc := c06BaseCfg(600)
		wc.MinNS = int64(200 * time.Second)
		wc.RA.Opts = append(wc.RA.Opts, vOpt{Kind: "mtu", MTU: 1500})
		cfg := wc.iface("eth0")
		a := NewAdvertiser(cctx, cfg, nil, nil, func() bool { return false })
		dst, err := a.handle(m, host)
		series, _ := mm.Series()
		switch m.(type) {
		case *ndp.RouterSolicitation:
			want := host
			if host.IsUnspecified() {
				want = netip.IPv6LinkLocalAllNodes()
			}
			if err != nil || dst != want {
				return verifkit.Violf("C09/wire-solicitation", "a parsed RS from %s: answer to %v, error %v\nwire % x", host, dst, err, c.Data)
			}
		case *ndp.RouterAdvertisement:
			if err != nil || dst.IsValid() {
				return verifkit.Violf("C09/wire-advertisement", "a parsed RA from %s: answer to %v, error %v\nwire % x", host, dst, err, c.Data)
			}
		default:
			if err != nil || dst.IsValid() {
				return verifkit.Violf("C09/wire-other", "a parsed %s: answer to %v, error %v", typ, dst, err)
			}
			if got := series[msgInvalid].Samples["interface=eth0,message="+typ]; got != 1 {
				return verifkit.Violf("C09/wire-other-not-counted", "a parsed %s is not counted as invalid: %v", typ, series[msgInvalid].Samples)
			}
		}
		return nil
	}
}

func wireGen(t *rapid.T) wireCase {
	seeds := wireSeeds()
	data := append([]byte(nil), rapid.SampledFrom(seeds).Draw(t, "seed")...)
	if rapid.IntRange(0, 3).Draw(t, "generated") == 0 {
		// a generated RA instead of a fixed seed
		b, err := ndp.MarshalMessage(c12GenRA(t, true, c12PrefixesLarge).ndp())
		if err == nil {
			data = b
		}
	}
	for i, n := 0, rapid.IntRange(0, 6).Draw(t, "nmut"); i < n && len(data) > 0; i++ {
		pos := rapid.IntRange(0, len(data)-1).Draw(t, "pos")
		switch rapid.IntRange(0, 4).Draw(t, "mut") {
		case 0:
			data[pos] = rapid.Byte().Draw(t, "byte")
		case 1:
			data[pos] = rapid.SampledFrom([]byte{0, 1, 127, 128, 129, 200, 254, 255}).Draw(t, "edge")
		case 2:
			data[pos] ^= 1 << rapid.IntRange(0, 7).Draw(t, "bit")
		case 3:
			// drop or duplicate an 8-byte unit (options are counted in units of 8)
			u := pos &^ 7
			if u+8 <= len(data) && u >= 16 {
				if rapid.Bool().Draw(t, "dup") {
					data = append(data[:u+8], data[u:]...)
				} else {
					data = append(data[:u], data[u+8:]...)
				}
			}
		default:
			end := min(len(data), pos+rapid.IntRange(1, 16).Draw(t, "span"))
			data = data[:pos+copy(data[pos:], data[end:])]
		}
	}
	return wireCase{Data: data, From: rapid.SampledFrom([]string{"fe80::a", "2001:db8::b", "::", "fe80::1"}).Draw(t, "from")}
}

func FuzzVerif_C18wire(f *testing.F) {
	for _, s := range wireSeeds() {
		f.Add(s)
	}
	nop := func(any, bool, ...string) {}
	mon, adv := wireProp(nop, false), wireProp(nop, true)
	f.Fuzz(func(t *testing.T, data []byte) {
		for _, from := range []string{"fe80::a", "::"} {
			if err := mon(wireCase{Data: data, From: from}); err != nil {
				t.Fatal(err)
			}
			if err := adv(wireCase{Data: data, From: from}); err != nil {
				t.Fatal(err)
			}
		}
	})
}

package corerad

// C06 / C07 on the real clock with the timer semantics of the shipped binary
// (see zz_verif_C05real_test.go for why): a whole Advertiser.Run on an
// in-memory connection, 32 scenarios at once per case, each 9 to 12 s long:
// solicitations from :: and from hosts of their own, a link change that makes
// the advertiser re-initialise on a second connection, and a terminating stop.
//
// Oracle, only what the real clock decides without a tight bound (C06 judges the
// first clause, C07 - TestVerif_C07real, the same runs - the second): on one
// connection multicast RAs (the final zero-lifetime one aside) are never less
// than 2.5 s apart (the code spaces them 3 s; half a second is allowed for a
// goroutine that is scheduled late under load), and every solicitation from a
// specified source read at least 2 s before the stop or the link change got
// exactly one unicast RA. A violation is reported only if the same scenario
// fails twice.

import (
	"context"
	"encoding/json"
	"fmt"
	"io"
	"log"
	"net"
	"net/netip"
	"sync"
	"testing"
	"time"

	"github.com/mdlayher/corerad/internal/config"
	"github.com/mdlayher/corerad/internal/netstate"
	"github.com/mdlayher/corerad/internal/system"
	"github.com/mdlayher/corerad/internal/verifkit"
	"github.com/mdlayher/metricslite"
	"github.com/mdlayher/ndp"
	"golang.org/x/net/ipv6"
	"pgregory.net/rapid"
)

type rtTimeout struct{}

func (rtTimeout) Error() string   { return "i/o timeout" }
func (rtTimeout) Timeout() bool   { return true }
func (rtTimeout) Temporary() bool { return true }

type rtIn struct {
	m    ndp.Message
	from netip.Addr
}

type rtWrite struct {
	at   time.Duration
	conn int
	dst  netip.Addr
	life time.Duration
}

// rtConn is a system.Conn on the real clock.
type rtConn struct {
	made time.Duration // when the connection was handed out
	id   int
	w    *rtWorld
	inC  chan rtIn
	mu   sync.Mutex
	dl   time.Time
	dlC  chan struct{}
	read []rtRead
}

type rtRead struct {
	at   time.Duration
	from netip.Addr
}

type rtWorld struct {
	t0     time.Time
	mu     sync.Mutex
	conns  []*rtConn
	writes []rtWrite
}

func (c *rtConn) ReadFrom() (ndp.Message, *ipv6.ControlMessage, netip.Addr, error) {
	for {
		c.mu.Lock()
		dl, dlC := c.dl, c.dlC
		c.mu.Unlock()
		var timer <-chan time.Time
		if !dl.IsZero() {
			if !time.Now().Before(dl) {
				return nil, nil, netip.Addr{}, rtTimeout{}
			}
			t := time.NewTimer(time.Until(dl))
			defer t.Stop()
			timer = t.C
		}
		select {
		case in := <-c.inC:
			c.mu.Lock()
			c.read = append(c.read, rtRead{time.Since(c.w.t0), in.from})
			c.mu.Unlock()
			return in.m, &ipv6.ControlMessage{HopLimit: 255}, in.from.WithZone("rt0"), nil
		case <-dlC:
		case <-timer:
			return nil, nil, netip.Addr{}, rtTimeout{}
		}
	}
}

func (c *rtConn) SetReadDeadline(t time.Time) error {
	c.mu.Lock()
	defer c.mu.Unlock()
	c.dl = t
	close(c.dlC)
	c.dlC = make(chan struct{})
	return nil
}

func (c *rtConn) WriteTo(m ndp.Message, _ *ipv6.ControlMessage, dst netip.Addr) error {
	w := rtWrite{at: time.Since(c.w.t0), conn: c.id, dst: dst.WithZone("")}
	if ra, ok := m.(*ndp.RouterAdvertisement); ok {
		w.life = ra.RouterLifetime
	}
	c.w.mu.Lock()
	c.w.writes = append(c.w.writes, w)
	c.w.mu.Unlock()
	return nil
}

type c06RealEvent struct {
	AtMS int    `json:"at_ms"`
	Kind string `json:"kind"` // rs (from From) | link
	From string `json:"from,omitempty"`
}

type c06RealScenario struct {
	Events []c06RealEvent `json:"events"`
	StopMS int            `json:"stop_ms"`
}

type c06RealCase struct {
	Scenarios []c06RealScenario `json:"scenarios"`
}

func c06RealOne(sc c06RealScenario, prop string) error {
	st := system.TestState{Forwarding: true}
	mm := NewMetrics(metricslite.NewMemory(), "verif", time.Time{}, st, nil)
	cctx := NewContext(log.New(io.Discard, "", 0), mm, st)
	w := &rtWorld{t0: time.Now()}
	d := system.NewDialer("eth0", st, system.Advertise, nil)
	d.DialFunc = func() (*system.DialContext, error) {
		w.mu.Lock()
		c := &rtConn{made: time.Since(w.t0), id: len(w.conns), w: w, inC: make(chan rtIn, 256), dlC: make(chan struct{})}
		w.conns = append(w.conns, c)
		w.mu.Unlock()
		return &system.DialContext{Conn: c, Interface: &net.Interface{Index: 1, Name: "eth0", MTU: 1500, HardwareAddr: net.HardwareAddr{2, 0, 0, 0, 0, 1}}, IP: netip.MustParseAddr("fe80::1")}, nil
	}
	watchC := make(chan netstate.Change, 8)
	a := NewAdvertiser(cctx, config.Interface{Name: "eth0", Advertise: true, MinInterval: 3 * time.Second, MaxInterval: 4 * time.Second, DefaultLifetime: 1800 * time.Second, HopLimit: 64}, d, watchC, func() bool { return true })
	ctx, cancel := context.WithCancel(context.Background())
	done := make(chan error, 1)
	go func() { done <- a.Run(ctx) }()
	var linkAt []time.Duration
	for _, e := range sc.Events {
		if d := time.Duration(e.AtMS)*time.Millisecond - time.Since(w.t0); d > 0 {
			time.Sleep(d)
		}
		switch e.Kind {
		case "link":
			linkAt = append(linkAt, time.Since(w.t0))
			watchC <- netstate.LinkDown
		default:
			w.mu.Lock()
			var c *rtConn
			if len(w.conns) > 0 {
				c = w.conns[len(w.conns)-1]
			}
			w.mu.Unlock()
			if c != nil {
				c.inC <- rtIn{&ndp.RouterSolicitation{}, netip.MustParseAddr(e.From)}
			}
		}
	}
	if d := time.Duration(sc.StopMS)*time.Millisecond - time.Since(w.t0); d > 0 {
		time.Sleep(d)
	}
	stopAt := time.Since(w.t0)
	cancel()
	select {
	case err := <-done:
		if err != nil {
			return verifkit.Violf("C06/real-clock/run-error", "Run returned %v", err)
		}
	case <-time.After(10 * time.Second):
		return verifkit.Violf("C06/real-clock/does-not-stop", "Run has not returned 10 s after the stop")
	}
	w.mu.Lock()
	defer w.mu.Unlock()
	desc := func() string {
		s := fmt.Sprintf("events %+v, stop at %v, link changes at %v\n", sc.Events, stopAt, linkAt)
		for _, x := range w.writes {
			s += fmt.Sprintf("  %12v conn %d -> %v lifetime %v\n", x.at, x.conn, x.dst, x.life)
		}
		return s
	}
	last := map[int]time.Duration{}
	unicast := map[string]int{}
	for i, x := range w.writes {
		if x.dst.IsUnspecified() && prop == "C07" {
			return verifkit.Violf("C07/real-clock/answer-to-unspecified", "an RA was sent to %v (a solicitation from :: - handed over as ::%%rt0, as package ndp does - is answered to all nodes)\n%s", x.dst, desc())
		}
		if !x.dst.IsMulticast() {
			unicast[fmt.Sprintf("%d/%v", x.conn, x.dst)]++
			continue
		}
		if x.life == 0 && i == len(w.writes)-1 {
			continue // the final advertisement
		}
		if p, ok := last[x.conn]; ok && x.at-p < 2500*time.Millisecond && prop == "C06" {
			return verifkit.Violf("C06/real-clock/multicast-spacing", "multicast RAs on connection %d only %v apart (old timer semantics, real clock)\n%s", x.conn, x.at-p, desc())
		}
		last[x.conn] = x.at
	}
	for _, c := range w.conns {
		// the connection serves until the stop or the first link change sent after it was handed out (a
		// solicitation read while the advertiser is already tearing the connection down need not be answered)
		end := stopAt
		for _, l := range linkAt {
			if l >= c.made && l < end {
				end = l
			}
		}
		c.mu.Lock()
		for _, r := range c.read {
			if r.from.IsUnspecified() {
				continue
			}
			n := unicast[fmt.Sprintf("%d/%v", c.id, r.from)]
			if prop == "C07" && (n > 1 || (n == 0 && r.at < end-2*time.Second)) {
				c.mu.Unlock()
				return verifkit.Violf("C07/real-clock/unicast-answers", "the solicitation from %v read at %v on connection %d got %d unicast RAs\n%s", r.from, r.at, c.id, n, desc())
			}
		}
		c.mu.Unlock()
	}
	return nil
}

func c06RealProp(k *verifkit.Kit, prop string) func(c c06RealCase) error {
	return func(c c06RealCase) error {
		links := 0
		for _, sc := range c.Scenarios {
			for _, e := range sc.Events {
				if e.Kind == "link" {
					links++
				}
			}
		}
		k.Record(c, links > 0, fmt.Sprintf("real-clock:re-initialisations=%d", min(links, 8)))
		run := func() []error {
			errs := make([]error, len(c.Scenarios))
			var wg sync.WaitGroup
			for i, sc := range c.Scenarios {
				wg.Add(1)
				go func() { defer wg.Done(); errs[i] = c06RealOne(sc, prop) }()
			}
			wg.Wait()
			return errs
		}
		first := run()
		for i, err := range first {
			if err != nil {
				// the real clock under load: only what the same scenario does twice counts
				if err2 := c06RealOne(c.Scenarios[i], prop); err2 != nil {
					return err2
				}
				k.Unspecified("real-clock scenario failed once and passed when repeated alone")
			}
		}
		return nil
	}
}

func c06RealGen(t *rapid.T) c06RealCase {
	var c c06RealCase
	for i := 0; i < 32; i++ {
		var sc c06RealScenario
		host := 0
		at := 0
		for j, n := 0, rapid.IntRange(2, 9).Draw(t, "nev"); j < n; j++ {
			at += rapid.SampledFrom([]int{1, 50, 400, 1000, 2900, 3100}).Draw(t, "gap")
			if at > 8000 {
				break
			}
			switch rapid.IntRange(0, 5).Draw(t, "kind") {
			case 0:
				sc.Events = append(sc.Events, c06RealEvent{AtMS: at, Kind: "link"})
			case 1, 2:
				sc.Events = append(sc.Events, c06RealEvent{AtMS: at, Kind: "rs", From: "::"})
			case 3:
				// a burst: more solicitations at once than the request queue holds
				for b := 0; b < 24; b++ {
					host++
					sc.Events = append(sc.Events, c06RealEvent{AtMS: at, Kind: "rs", From: fmt.Sprintf("fe80::%x", 0x200+host)})
				}
			default:
				host++
				sc.Events = append(sc.Events, c06RealEvent{AtMS: at, Kind: "rs", From: fmt.Sprintf("fe80::%x", 0x200+host)})
			}
		}
		sc.StopMS = at + rapid.IntRange(500, 4000).Draw(t, "tail")
		c.Scenarios = append(c.Scenarios, sc)
	}
	return c
}

func TestVerif_C06real(t *testing.T) {
	k := verifkit.Start(t, "C06")
	prop := c06RealProp(k, "C06")
	k.Special = "real-clock"
	k.Regress(t, func(sub string, raw json.RawMessage) error { return verifkit.Decode(raw, prop) })
	verifkit.Rapid(k, t, "real-clock-runs(old timer semantics)", k.N(1, 10), c06RealGen, prop)
}

// The same runs judged for C07: every solicitation from a specified source answered exactly once, none "to ::".
func TestVerif_C07real(t *testing.T) {
	k := verifkit.Start(t, "C07")
	prop := c06RealProp(k, "C07")
	k.Special = "real-clock"
	k.Regress(t, func(sub string, raw json.RawMessage) error { return verifkit.Decode(raw, prop) })
	verifkit.Rapid(k, t, "real-clock-runs(old timer semantics)", k.N(1, 10), c06RealGen, prop)
}

package corerad

// C17, race-detector build: what the HTTP server and the advertisers do at the
// same time in a running daemon - /metrics scrapes (a real registry), requests
// to the debug API and RA builds from the same config.Interface values - run
// here from real goroutines with no
// virtual clock, on generated accepted configurations. The oracle is the race
// detector (any unsynchronised access to shared state is a report), plus: no
// panic, every gather succeeds, every API answer is 200.

import (
	"encoding/json"
	"fmt"
	"io"
	"log"
	"net"
	"net/http/httptest"
	"strings"
	"sync"
	"testing"
	"time"

	"github.com/mdlayher/corerad/internal/config"
	"github.com/mdlayher/corerad/internal/crhttp"
	"github.com/mdlayher/corerad/internal/verifkit"
	"github.com/mdlayher/metricslite"
	"github.com/prometheus/client_golang/prometheus"
	"github.com/prometheus/client_golang/prometheus/promhttp"
	"pgregory.net/rapid"
)

type c17RaceCase struct {
	Doc   dDoc     `json:"doc"`
	State sysState `json:"state"`
	N     int      `json:"iterations"`
}

func c17RaceProp(k *verifkit.Kit) func(c c17RaceCase) error {
	return func(c c17RaceCase) error {
		text := c.Doc.render()
		epoch := time.Unix(946684800, 0)
		ref := reference(c.Doc, epoch)
		cfg, err := config.Parse(strings.NewReader(text), epoch)
		if err != nil || ref.V != vAccept {
			k.Record(c, false, "not-an-accepted-configuration")
			return nil
		}
		nadv := 0
		for _, ifi := range cfg.Interfaces {
			if ifi.Advertise {
				nadv++
			}
		}
		k.Record(c, nadv > 0, fmt.Sprintf("advertising-interfaces=%d", min(nadv, 4)))
		st := c.State
		st.MAC = vkIfiMAC
		st.AddrErr, st.RouteErr = false, false
		w := newSimWorld(nil)
		var mu sync.Mutex
		for i := range cfg.Interfaces {
			ifi := &cfg.Interfaces[i]
			p := time.Duration(-1)
			for j := range ifi.Plugins {
				ifi.Plugins[j] = &vkPlug{Plugin: ifi.Plugins[j], st: &st, idx: i, mu: &mu, prepared: &p, w: w.now}
			}
			w.fwd[ifi.Name] = st.Fwd
		}
		prep := func(i int) error {
			ifi := cfg.Interfaces[i]
			for _, p := range ifi.Plugins {
				if err := p.Prepare(&net.Interface{Index: i + 1, Name: ifi.Name, HardwareAddr: vkMACFor(ifi.Name), MTU: 1500}); err != nil {
					return err
				}
			}
			return nil
		}
		// every interface is initialised before the requests start. (An initialisation running at the same time as
		// a scrape is a data race in the code as it stands - Prepare assigns the plugin's source fields which Apply
		// reads from the HTTP goroutines - but one without a consequence the statement of C17 could be held
		// against: the racing values are a function value and a 6-byte slice header that describe the same thing
		// before and after. It is recorded in DESIGN.md as an observation and kept out of this check.)
		for i, ifi := range cfg.Interfaces {
			if ifi.Advertise {
				if err := prep(i); err != nil {
					return fmt.Errorf("verif: Prepare: %v", err)
				}
			}
		}
		reg := prometheus.NewPedanticRegistry()
		NewMetrics(metricslite.NewPrometheus(reg), "verif", time.Time{}, simState{w}, cfg.Interfaces)
		h := crhttp.NewHandler(log.New(io.Discard, "", 0), simState{w}, *cfg, promhttp.HandlerFor(reg, promhttp.HandlerOpts{}))
		var wg sync.WaitGroup
		errs := make(chan error, 64)
		fail := func(format string, a ...any) {
			select {
			case errs <- verifkit.Violf("C17/concurrent-use", format+"\n%s", append(a, text)...):
			default:
			}
		}
		run := func(f func(i int)) {
			wg.Add(1)
			go func() {
				defer wg.Done()
				defer func() {
					if r := recover(); r != nil {
						fail("panic while scrapes, API requests and RA builds run at the same time: %v", r)
					}
				}()
				for i := 0; i < c.N; i++ {
					f(i)
				}
			}()
		}
		for g := 0; g < 3; g++ {
			run(func(int) {
				if _, err := reg.Gather(); err != nil {
					fail("gather fails: %v", err)
				}
			})
		}
		for g := 0; g < 2; g++ {
			run(func(int) {
				rec := httptest.NewRecorder()
				h.ServeHTTP(rec, httptest.NewRequest("GET", "/_/api/interfaces", nil))
				if rec.Code != 200 {
					fail("GET /_/api/interfaces -> %d: %s", rec.Code, rec.Body.String())
				}
			})
		}
		for i := range cfg.Interfaces {
			if cfg.Interfaces[i].Advertise {
				run(func(int) { _, _, _ = cfg.Interfaces[i].RouterAdvertisement(true) }) // what the advertiser does for every RA
			}
		}
		wg.Wait()
		select {
		case err := <-errs:
			return err
		default:
		}
		return nil
	}
}

func c17RaceGen(t *rapid.T) c17RaceCase {
	g := &vg{t: t}
	d := g.genDoc(true, 0)
	if rapid.IntRange(0, 3).Draw(t, "repeatlabels") == 0 {
		g.repeatLabels(&d)
	}
	d.Debug = nil // (no debug address: config.Parse would resolve it)
	return c17RaceCase{Doc: d, State: genSysState(t), N: rapid.IntRange(10, 40).Draw(t, "iterations")}
}

func TestVerif_C17race(t *testing.T) {
	k := verifkit.Start(t, "C17")
	prop := c17RaceProp(k)
	k.Special = "concurrent-scrapes"
	k.Regress(t, func(sub string, raw json.RawMessage) error { return verifkit.Decode(raw, prop) })
	verifkit.Rapid(k, t, "concurrent-scrapes-api-builds(race build)", k.N(60, 3000), c17RaceGen, prop)
}

package corerad

// C05: unsolicited multicast RAs recur forever and every wait lies within
// [MinRtrAdvInterval, MaxRtrAdvInterval] to one-second granularity, the first
// three additionally capped at 16 s. Function level: the real multicastDelay
// with a scripted random source over the whole accepted (min, max) grid. Loop
// level: the real multicast loop on virtual time.

import (
	"context"
	"encoding/json"
	"fmt"
	"math/rand"
	"net/netip"
	"strings"
	"testing"
	"time"

	"github.com/mdlayher/corerad/internal/config"
	"github.com/mdlayher/corerad/internal/verifkit"
	"pgregory.net/rapid"
)

// scriptedSource returns the scripted value for every draw.
type scriptedSource struct{ v int64 }

func (s *scriptedSource) Int63() int64   { return s.v }
func (s *scriptedSource) Uint64() uint64 { return uint64(s.v) }
func (s *scriptedSource) Seed(int64)     {}

type c05Fn struct {
	MinNS int64 `json:"min_ns"`
	MaxNS int64 `json:"max_ns"`
	Index int   `json:"index"`
	Draw  int64 `json:"draw"` // value the random source yields (reduced into range by the code under test)
}

// c05Bounds judges one wait d against the statement.
func c05Bounds(min, max time.Duration, i int, d time.Duration) error {
	lo, hi := min.Truncate(time.Second), max.Truncate(time.Second)
	if hi != max {
		hi += time.Second
	}
	if d <= 0 {
		return verifkit.Violf("C05/non-positive-wait", "min=%v max=%v index=%d: wait %v", min, max, i, d)
	}
	if i >= 3 {
		if d < lo || d > hi {
			return verifkit.Violf("C05/wait-out-of-bounds", "min=%v max=%v index=%d: wait %v outside [%v,%v]", min, max, i, d, lo, hi)
		}
		return nil
	}
	if d > 16*time.Second {
		return verifkit.Violf("C05/initial-wait-above-16s", "min=%v max=%v index=%d: wait %v > 16s", min, max, i, d)
	}
	if d > hi {
		return verifkit.Violf("C05/wait-out-of-bounds", "min=%v max=%v index=%d: wait %v > %v", min, max, i, d, hi)
	}
	if d < lo && d != 16*time.Second {
		return verifkit.Violf("C05/wait-out-of-bounds", "min=%v max=%v index=%d: wait %v below %v although not clamped", min, max, i, d, lo)
	}
	return nil
}

func c05FnProp(c c05Fn) error {
	src := &scriptedSource{v: c.Draw}
	d := multicastDelay(rand.New(src), c.Index, time.Duration(c.MinNS), time.Duration(c.MaxNS))
	return c05Bounds(time.Duration(c.MinNS), time.Duration(c.MaxNS), c.Index, d)
}

var c05Indices = []int{0, 1, 2, 3, 4, 10, 1000}

// c05Draws are the forced draws for a range of n nanoseconds.
func c05Draws(n int64, extra [3]int64) []int64 {
	if n <= 0 {
		return []int64{0}
	}
	return []int64{0, 1, n / 2, n - 2, n - 1, extra[0] % n, extra[1] % n, extra[2] % n}
}

// c05Grid walks the accepted (min,max) pairs at one-second granularity.
func c05Grid(k *verifkit.Kit, t *testing.T, stride int64) {
	part := verifkit.Part{Name: fmt.Sprintf("function-grid-stride-%d", stride), Kind: "enumeration", Exhaustive: stride == 1}
	var idx, evals, nt int64
	s := int64(time.Second)
	extra := [3]int64{k.Seed*7919 + 12345, k.Seed*104729 + 999331, k.Seed*1299709 + 31337}
	sampled := 0
	run := func(mn, mx int64) bool {
		i := idx
		idx++
		if !k.Mine(i) || (stride > 1 && i%stride != 0 && mn != 3*s && mn != mx && (mx/s)*3/4*s != mn) {
			return true
		}
		for _, index := range c05Indices {
			for _, dr := range c05Draws(mx-mn, extra) {
				c := c05Fn{MinNS: mn, MaxNS: mx, Index: index, Draw: dr}
				evals++
				if index < 3 && mx > 16*s || dr == 0 || dr >= mx-mn-2 {
					nt++
				}
				if err := verifkit.Guard(func() error { return c05FnProp(c) }); err != nil {
					if jerr := k.Judge(part.Name, c, err); jerr != nil {
						part.Done = evals
						k.AddPart(part)
						t.Fatalf("%v", jerr)
						return false
					}
				}
				if sampled < 3 && index == 1 && dr == mx-mn-1 && mx > 20*s {
					k.Sample(c)
					sampled++
				}
			}
		}
		return true
	}
	for mx := int64(4); mx <= 1800; mx++ {
		for mn := int64(3); mn <= mx*3/4; mn++ {
			if !run(mn*s, mx*s) {
				return
			}
		}
		if mx < 9 {
			run(mx*s, mx*s) // automatic min_interval for small max
		} else if auto := int64(time.Duration(0.33 * float64(mx*s)).Truncate(time.Second)); auto < 3*s {
			run(auto, mx*s) // automatic min_interval may be 2s for max_interval in [9s,10s)
		}
	}
	part.Done, part.Requested, part.Complete = evals, evals, true
	k.AddPart(part)
	k.RecordBulk(evals, nt, "function-grid")
}

// c05GenFn draws fractional pairs the parser accepts.
func c05GenFn(t *rapid.T) c05Fn {
	s := int64(time.Second)
	mx := rapid.Int64Range(4*s, 1800*s).Draw(t, "max")
	if rapid.Bool().Draw(t, "whole-max") {
		mx = mx / s * s
	}
	up := (mx * 3 / 4) / s * s
	var mn int64
	switch rapid.IntRange(0, 3).Draw(t, "minkind") {
	case 0:
		if mx >= 9*s {
			mn = int64(time.Duration(0.33 * float64(mx)).Truncate(time.Second))
		} else {
			mn = mx
		}
	case 1:
		mn = rapid.SampledFrom([]int64{3 * s, up, 3*s + 1, up - 1}).Draw(t, "minedge")
		if mn < 3*s || mn > up {
			mn = 3 * s
		}
	default:
		mn = rapid.Int64Range(3*s, up).Draw(t, "min")
	}
	n := mx - mn
	dr := int64(0)
	if n > 0 {
		dr = rapid.SampledFrom([]int64{0, 1, n / 2, n - 2, n - 1, n/2 + s/2, n/2 + s/2 - 1}).Draw(t, "draw")
		if rapid.Bool().Draw(t, "anydraw") {
			dr = rapid.Int64Range(0, n-1).Draw(t, "draw2")
		}
		if dr < 0 || dr >= n {
			dr = 0
		}
	}
	return c05Fn{MinNS: mn, MaxNS: mx, Index: rapid.SampledFrom(c05Indices).Draw(t, "index"), Draw: dr}
}

// --- loop level -------------------------------------------------------------

type c05Loop struct {
	MinNS    int64 `json:"min_ns"`
	MaxNS    int64 `json:"max_ns"`
	Waits    int   `json:"waits"`     // observe this many waits, then cancel
	PreNS    int64 `json:"pre_ns"`    // advance the clock before starting (varies the PRNG seed, which is the clock)
	CancelNS int64 `json:"cancel_ns"` // cancel this long after the last observed request
	SlowNS   int64 `json:"slow_ns"`   // consumer latency per request (scheduler busy)
	StallAt  int   `json:"stall_at"`  // >0: the consumer does not accept request number stall_at for stall_ns (process paused, scheduler blocked)
	StallNS  int64 `json:"stall_ns"`
}

func c05LoopProp(t *testing.T, k *verifkit.Kit) func(c c05Loop) error {
	return func(c c05Loop) error {
		min, max := time.Duration(c.MinNS), time.Duration(c.MaxNS)
		stall := "no-stall"
		if c.StallAt > 0 && c.StallNS > c.MaxNS {
			stall = "stall-longer-than-max"
		} else if c.StallAt > 0 {
			stall = "short-stall"
		}
		k.Record(c, max > 16*time.Second || c.MinNS%int64(time.Second) != 0 || c.MaxNS%int64(time.Second) != 0 || stall != "no-stall",
			fmt.Sprintf("loop-waits/50=%d", c.Waits/50), stall)
		var verr error
		leaked, pan := bubble(t, func() {
			time.Sleep(time.Duration(c.PreNS))
			a := &Advertiser{cfg: config.Interface{Name: "eth0", MinInterval: min, MaxInterval: max}}
			ctx, cancel := context.WithCancel(context.Background())
			defer cancel()
			ipC := make(chan netip.Addr)
			exited := make(chan struct{})
			go func() { a.multicast(ctx, ipC); close(exited) }()
			var stamps []time.Time
			fail := func(err error) { verr = err; cancel(); <-exited }
			for len(stamps) <= c.Waits {
				if c.StallAt > 0 && len(stamps) == c.StallAt {
					time.Sleep(time.Duration(c.StallNS)) // the loop is held up offering this request
				}
				select {
				case ip := <-ipC:
					if ip != vkAllNodes {
						fail(verifkit.Violf("C05/wrong-destination", "multicast loop requested an RA for %v", ip))
						return
					}
					stamps = append(stamps, time.Now())
					if c.SlowNS > 0 {
						time.Sleep(time.Duration(c.SlowNS))
					}
				case <-time.After(max + 2*time.Second + time.Duration(c.SlowNS) + time.Duration(c.StallNS)):
					fail(verifkit.Violf("C05/loop-stopped", "no RA request within max_interval+2s after %d requests (min=%v max=%v)", len(stamps), min, max))
					return
				case <-exited:
					verr = verifkit.Violf("C05/loop-stopped", "multicast loop returned without cancellation after %d requests", len(stamps))
					return
				}
			}
			for i := 1; i < len(stamps); i++ {
				gap := stamps[i].Sub(stamps[i-1]) // the consumer is otherwise never slower than the shortest wait
				if c.StallAt > 0 && i == c.StallAt && time.Duration(c.StallNS) > 0 {
					// this request was offered on time but accepted late: only the lower bound applies
					lo := min.Truncate(time.Second)
					if i-1 < 3 && lo > 16*time.Second {
						lo = 16 * time.Second
					}
					if gap < lo {
						fail(verifkit.Violf("C05/wait-out-of-bounds", "min=%v max=%v index=%d: wait %v below %v", min, max, i-1, gap, lo))
						return
					}
					continue
				}
				// (in particular the wait that follows a stall is chosen afresh: the loop does not "catch up")
				if err := c05Bounds(min, max, i-1, gap); err != nil {
					fail(err)
					return
				}
			}
			time.Sleep(time.Duration(c.CancelNS))
			cancel()
			select {
			case <-exited:
			case ip := <-ipC:
				// a request racing the cancellation at the same instant is allowed once
				_ = ip
				select {
				case <-exited:
				case <-ipC:
					verr = verifkit.Violf("C05/requests-after-cancel", "multicast loop kept requesting RAs after cancellation")
					cancel()
					return
				case <-time.After(2 * max):
					verr = verifkit.Violf("C05/loop-does-not-exit", "multicast loop still running 2*max after cancellation")
				}
			case <-time.After(2 * max):
				verr = verifkit.Violf("C05/loop-does-not-exit", "multicast loop still running 2*max after cancellation")
			}
		})
		if pan != nil {
			return verifkit.Violf("panic", "panic in bubble: %v", pan)
		}
		if verr == nil && leaked {
			return verifkit.Violf("C05/loop-does-not-exit", "goroutines left blocked after the multicast loop was cancelled")
		}
		return verr
	}
}

func c05GenLoop(t *rapid.T) c05Loop {
	f := c05GenFn(t)
	c := c05Loop{MinNS: f.MinNS, MaxNS: f.MaxNS,
		Waits:    rapid.IntRange(3, 200).Draw(t, "waits"),
		PreNS:    rapid.Int64Range(0, int64(time.Hour)).Draw(t, "pre"),
		CancelNS: rapid.SampledFrom([]int64{0, 1, int64(time.Second), f.MinNS, f.MaxNS}).Draw(t, "cancel"),
		SlowNS:   rapid.SampledFrom([]int64{0, 0, 0, int64(time.Millisecond), int64(2 * time.Second)}).Draw(t, "slow"),
	}
	if rapid.Bool().Draw(t, "stall") {
		c.StallAt = rapid.IntRange(1, 8).Draw(t, "stallat")
		c.StallNS = rapid.SampledFrom([]int64{1, f.MinNS / 2, f.MaxNS, 3*f.MaxNS + f.MaxNS/2, 10 * f.MaxNS}).Draw(t, "stallns")
		if c.Waits < c.StallAt+3 {
			c.Waits = c.StallAt + 3
		}
	}
	return c
}

// --- pairs as the configuration accepts them -----------------------------------

// A c05Doc is a configuration with several interfaces, each with its own
// spelling of min_interval / max_interval. "Any min/max pair the configuration
// accepts" is taken literally: the pairs come out of config.Parse - the same
// process parses many documents, as one daemon parses many stanzas - and every
// accepted pair is put through the real multicastDelay.
type c05Doc struct {
	Pairs [][2]string `json:"min_max"` // "" = key omitted
}

func c05DocProp(k *verifkit.Kit) func(c c05Doc) error {
	return func(c c05Doc) error {
		var b strings.Builder
		for i, p := range c.Pairs {
			fmt.Fprintf(&b, "[[interfaces]]\nname = \"eth%d\"\nadvertise = true\n", i)
			if p[0] != "" {
				fmt.Fprintf(&b, "min_interval = %q\n", p[0])
			}
			if p[1] != "" {
				fmt.Fprintf(&b, "max_interval = %q\n", p[1])
			}
		}
		// the statement of C02 for these two keys, on exact nanoseconds
		valid := true
		for _, p := range c.Pairs {
			max := 600 * time.Second
			if p[1] != "" {
				max, _ = time.ParseDuration(p[1])
			}
			if max < 4*time.Second || max > 1800*time.Second {
				valid = false
				continue
			}
			if p[0] != "" && p[0] != "auto" {
				min, _ := time.ParseDuration(p[0])
				if min < 3*time.Second || min > (3*max/4).Truncate(time.Second) {
					valid = false
				}
			}
		}
		k.Record(c, len(c.Pairs) >= 2, fmt.Sprintf("parsed-pairs:valid=%v", valid))
		cfg, err := config.Parse(strings.NewReader(b.String()), time.Unix(1, 0))
		if err != nil {
			if valid {
				return verifkit.Violf("C05/valid-pair-rejected", "every pair is within the documented bounds, yet: %v\n%s", err, b.String())
			}
			return nil
		}
		if !valid {
			return verifkit.Violf("C05/invalid-pair-accepted", "a pair outside the documented bounds was accepted:\n%s", b.String())
		}
		for _, ifi := range cfg.Interfaces {
			for _, i := range c05Indices {
				for _, draw := range []int64{0, 1, int64(ifi.MaxInterval-ifi.MinInterval) - 1, 1 << 40} {
					var d time.Duration
					if perr := verifkit.Guard(func() error {
						d = multicastDelay(rand.New(&scriptedSource{v: draw}), i, ifi.MinInterval, ifi.MaxInterval)
						return nil
					}); perr != nil {
						return verifkit.Violf("C05/choosing-the-wait-fails", "%s: accepted min=%v max=%v, index %d: %v", ifi.Name, ifi.MinInterval, ifi.MaxInterval, i, perr)
					}
					if err := c05Bounds(ifi.MinInterval, ifi.MaxInterval, i, d); err != nil {
						return err
					}
				}
			}
		}
		return nil
	}
}

func c05GenDoc(t *rapid.T) c05Doc {
	// (the last few are not durations at all - a percentage, days: a pair is accepted only in a documented spelling)
	mins := []string{"", "auto", "3s", "3000ms", "5s", "10s", "47s", "0.75m", "450s", "7m30s", "1350s", "2.9s", "1351s", "10%", "50%", "75%", "1%", "0.001d"}
	maxs := []string{"", "4s", "8.9s", "9s", "20s", "63s", "1m3s", "600s", "10m", "1800s", "30m", "3.9s", "1801s", "0.5h", "0.02d", "100%"}
	var c c05Doc
	for i, n := 0, rapid.IntRange(1, 4).Draw(t, "nifaces"); i < n; i++ {
		c.Pairs = append(c.Pairs, [2]string{rapid.SampledFrom(mins).Draw(t, "min"), rapid.SampledFrom(maxs).Draw(t, "max")})
	}
	return c
}

func TestVerif_C05(t *testing.T) {
	k := verifkit.Start(t, "C05")
	loopProp := c05LoopProp(t, k)
	fnProp := func(c c05Fn) error {
		k.Record(c, c.Index < 3 && c.MaxNS > int64(16*time.Second) || c.Draw == 0 || c.Draw >= c.MaxNS-c.MinNS-2 || c.MinNS%int64(time.Second) != 0 || c.MaxNS%int64(time.Second) != 0, "function-fractional")
		return c05FnProp(c)
	}
	k.Regress(t, func(sub string, raw json.RawMessage) error {
		if len(sub) >= 4 && sub[:4] == "loop" {
			return verifkit.Decode(raw, loopProp)
		}
		if strings.HasPrefix(sub, "parsed-pairs") {
			return verifkit.Decode(raw, c05DocProp(k))
		}
		return verifkit.Decode(raw, fnProp)
	})
	if k.ReplayOnly() {
		return
	}
	stride := int64(37)
	if k.Thorough() {
		stride = 1
	}
	c05Grid(k, t, stride)
	verifkit.Rapid(k, t, "function-fractional-pairs", k.N(20000, 2000000), c05GenFn, fnProp)
	verifkit.Rapid(k, t, "loop-on-virtual-time", k.N(300, 20000), c05GenLoop, loopProp)
	verifkit.Rapid(k, t, "parsed-pairs-in-one-process", k.N(20000, 1000000), c05GenDoc, c05DocProp(k))
}

package corerad

// Simulation kit of the /verif harnesses in package corerad: in-memory
// system.Conn / system.State / dialer fakes that run inside a
// testing/synctest bubble, so that the real Advertiser / Monitor / listener /
// scheduler run unmodified on virtual time.

import (
	"context"
	"errors"
	"fmt"
	"log"
	mrand "math/rand"
	"net"
	"net/netip"
	"os"
	"runtime"
	"strings"
	"sync"
	"sync/atomic"
	"syscall"
	"testing"
	"testing/synctest"
	"time"

	"github.com/mdlayher/corerad/internal/config"
	"github.com/mdlayher/corerad/internal/netstate"
	"github.com/mdlayher/corerad/internal/system"
	"github.com/mdlayher/metricslite"
	"github.com/mdlayher/ndp"
	"golang.org/x/net/ipv6"
)

// vkTimeout is a net.Error that reports a timeout, as a socket read does when
// its deadline passes.
type vkTimeout struct{}

func (vkTimeout) Error() string   { return "i/o timeout" }
func (vkTimeout) Timeout() bool   { return true }
func (vkTimeout) Temporary() bool { return true }

var _ net.Error = vkTimeout{}

// A simIn is one thing a read can return.
type simIn struct {
	Msg      ndp.Message
	HopLimit int
	From     netip.Addr
	Err      error
}

// A simWrite is one WriteTo call.
type simWrite struct {
	Conn     int
	Start    time.Duration // virtual time since the start of the world
	End      time.Duration // -1 while in flight
	Dst      netip.Addr
	Lifetime time.Duration
	RA       string
	Err      error
}

// A simRead is one message handed to the code under test.
type simRead struct {
	Conn int
	At   time.Duration
	In   simIn
}

type simWorld struct {
	t0 time.Time

	mu          sync.Mutex
	writes      []simWrite
	reads       []simRead
	conns       []*simConn
	dials       []time.Duration
	events      []string // free-form timeline for failure messages
	stLog       []simStateCall
	fwd         map[string]bool
	autoc       map[string]bool
	fwdErr      error
	stDelay     time.Duration
	stDelayReal bool          // the delay is real time (see realSleep): used where requests are made to overlap
	stAfter     time.Duration // a forwarding read returns this long after it has sampled the value

	ifis []config.Interface
	logs *lockedBuf
	mem  *metricslite.Memory
	mm   *Metrics
	cctx *Context

	// scripts
	writeLatency  func(conn, n int, dst netip.Addr) time.Duration // n counts writes per connection from 0
	writeErr      func(conn, n int, dst netip.Addr) error
	dialResult    func(n int) error // nil = success
	dialResultFor func(iface string, n int) error
	// the hardware address (and index) the n-th dial of an interface reports (nil: always vkMACFor; an interface that
	// is re-created between two dials comes back with other ones), and what each connection was given
	macFor  func(iface string, n int) net.HardwareAddr
	connMAC map[int]net.HardwareAddr
}

type simStateCall struct {
	At    time.Duration
	Op    string
	Iface string
	Value bool
}

func newSimWorld(ifis []config.Interface) *simWorld {
	w := &simWorld{t0: time.Now(), logs: &lockedBuf{}, fwd: map[string]bool{}, autoc: map[string]bool{}}
	w.mem = metricslite.NewMemory()
	w.mm = NewMetrics(w.mem, "verif", time.Time{}, simState{w}, ifis)
	w.cctx = NewContext(log.New(w.logs, "", 0), w.mm, simState{w})
	return w
}

func (w *simWorld) now() time.Duration { return time.Since(w.t0) }

func (w *simWorld) eventf(format string, a ...any) {
	w.mu.Lock()
	w.events = append(w.events, fmt.Sprintf("%12v ", w.now())+fmt.Sprintf(format, a...))
	w.mu.Unlock()
}

// realSleep makes a goroutine of a bubble let others run for roughly d of *real* time without touching the bubble's
// clock.  A sleep on the bubble's clock needs every other goroutine of the bubble to be durably blocked before it
// ends - and one that waits for a sync.Mutex held by the sleeper never is: code that serialises its scrapes with a
// mutex (a perfectly good implementation) would hang a check whose fake State sleeps.  So the goroutine stays
// runnable and yields the processor again and again instead (a timer outside the bubble would do too, but fires a
// millisecond late however short it is set, and the overlap rounds wait thousands of times).
func realSleep(d time.Duration) {
	for n := int(d / (200 * time.Nanosecond)); n > 0; n-- {
		runtime.Gosched()
	}
}

// simState implements system.State on the world.
type simState struct{ w *simWorld }

func (s simState) IPv6Autoconf(iface string) (bool, error) {
	s.w.mu.Lock()
	defer s.w.mu.Unlock()
	v, ok := s.w.autoc[iface]
	if !ok {
		v = true
	}
	s.w.stLog = append(s.w.stLog, simStateCall{s.w.now(), "get-autoconf", iface, v})
	return v, nil
}

func (s simState) IPv6Forwarding(iface string) (bool, error) {
	s.w.mu.Lock()
	d, real := s.w.stDelay, s.w.stDelayReal
	s.w.mu.Unlock()
	if d > 0 && real {
		realSleep(d)
	} else if d > 0 {
		time.Sleep(d)
	}
	s.w.mu.Lock()
	defer s.w.mu.Unlock()
	if s.w.fwdErr != nil {
		return false, s.w.fwdErr
	}
	v, ok := s.w.fwd[iface]
	if !ok {
		v = true
	}
	s.w.stLog = append(s.w.stLog, simStateCall{s.w.now(), "get-forwarding", iface, v})
	if after := s.w.stAfter; after > 0 {
		s.w.mu.Unlock()
		time.Sleep(after)
		s.w.mu.Lock()
	}
	return v, nil
}

func (s simState) SetIPv6Autoconf(iface string, enable bool) error {
	s.w.mu.Lock()
	defer s.w.mu.Unlock()
	s.w.autoc[iface] = enable
	s.w.stLog = append(s.w.stLog, simStateCall{s.w.now(), "set-autoconf", iface, enable})
	return nil
}

func (w *simWorld) setForwarding(iface string, v bool) {
	w.mu.Lock()
	w.fwd[iface] = v
	w.events = append(w.events, fmt.Sprintf("%12v forwarding(%s)=%v", w.now(), iface, v))
	w.mu.Unlock()
}

func (w *simWorld) forwarding(iface string) bool {
	w.mu.Lock()
	defer w.mu.Unlock()
	v, ok := w.fwd[iface]
	return !ok || v
}

// A simConn implements system.Conn.
type simConn struct {
	w  *simWorld
	id int

	inC chan simIn

	mu        sync.Mutex
	deadline  time.Time
	deadlineC chan struct{} // closed and replaced whenever the deadline changes
	nwrites   int
	nreads    int
	deadErr   error // error to return from SetReadDeadline
	lastUse   time.Duration
	created   time.Duration
	torn      time.Duration // when the listener was interrupted (task context cancelled); -1 = never
}

func (w *simWorld) newConn() *simConn {
	w.mu.Lock()
	defer w.mu.Unlock()
	c := &simConn{w: w, id: len(w.conns), inC: make(chan simIn, 8192), deadlineC: make(chan struct{}), created: time.Since(w.t0), torn: -1}
	w.conns = append(w.conns, c)
	return c
}

func (c *simConn) touch() {
	c.mu.Lock()
	c.lastUse = c.w.now()
	c.mu.Unlock()
}

func (c *simConn) ReadFrom() (ndp.Message, *ipv6.ControlMessage, netip.Addr, error) {
	c.touch()
	for {
		c.mu.Lock()
		dl, dc := c.deadline, c.deadlineC
		c.mu.Unlock()
		var timer <-chan time.Time
		if !dl.IsZero() {
			if !time.Now().Before(dl) {
				return nil, nil, netip.Addr{}, vkTimeout{}
			}
			timer = time.After(time.Until(dl))
		}
		select {
		case in := <-c.inC:
			c.mu.Lock()
			c.nreads++
			c.mu.Unlock()
			c.w.mu.Lock()
			c.w.reads = append(c.w.reads, simRead{Conn: c.id, At: c.w.now(), In: in})
			c.w.mu.Unlock()
			if in.Err != nil {
				return nil, nil, netip.Addr{}, in.Err
			}
			// as package ndp does: the source always carries the zone of the interface the socket is bound to
			// (also the unspecified address, which then no longer compares equal to netip.IPv6Unspecified())
			return in.Msg, &ipv6.ControlMessage{HopLimit: in.HopLimit}, in.From.WithZone("sim0"), nil
		case <-dc:
			// deadline changed, re-evaluate
		case <-timer:
			return nil, nil, netip.Addr{}, vkTimeout{}
		}
	}
}

func (c *simConn) SetReadDeadline(t time.Time) error {
	c.touch()
	c.mu.Lock()
	defer c.mu.Unlock()
	if c.deadErr != nil {
		return c.deadErr
	}
	if !t.IsZero() && !time.Now().Before(t) && c.torn < 0 {
		c.torn = c.w.now()
	}
	c.deadline = t
	close(c.deadlineC)
	c.deadlineC = make(chan struct{})
	return nil
}

func (c *simConn) WriteTo(m ndp.Message, _ *ipv6.ControlMessage, dst netip.Addr) error {
	c.touch()
	c.mu.Lock()
	n := c.nwrites
	c.nwrites++
	c.mu.Unlock()
	ra, _ := m.(*ndp.RouterAdvertisement)
	dst = dst.WithZone("") // package ndp overwrites the zone of the destination with the socket's interface
	sw := simWrite{Conn: c.id, Start: c.w.now(), End: -1, Dst: dst}
	if ra != nil {
		sw.Lifetime, sw.RA = ra.RouterLifetime, raStr(ra)
	} else {
		sw.RA = fmt.Sprintf("%T", m)
	}
	c.w.mu.Lock()
	idx := len(c.w.writes)
	c.w.writes = append(c.w.writes, sw)
	lat, werr := c.w.writeLatency, c.w.writeErr
	c.w.mu.Unlock()
	if lat != nil {
		if d := lat(c.id, n, dst); d > 0 {
			time.Sleep(d)
		}
	}
	var err error
	if werr != nil {
		err = werr(c.id, n, dst)
	}
	c.w.mu.Lock()
	c.w.writes[idx].End = c.w.now()
	c.w.writes[idx].Err = err
	c.w.mu.Unlock()
	c.touch()
	return err
}

// deliver queues a message for the reader (a socket buffer: never blocks).
func (c *simConn) deliver(in simIn) {
	select {
	case c.inC <- in:
	default:
		panic("verif: simConn buffer overflow")
	}
}

// offer is deliver for checks that flood the socket: it reports a full buffer (a reader that has stopped
// reading) instead of panicking.
func (c *simConn) offer(in simIn) bool {
	select {
	case c.inC <- in:
		return true
	default:
		return false
	}
}

// snapshot helpers ------------------------------------------------------------

func (w *simWorld) writesCopy() []simWrite {
	w.mu.Lock()
	defer w.mu.Unlock()
	return append([]simWrite(nil), w.writes...)
}

func (w *simWorld) readsCopy() []simRead {
	w.mu.Lock()
	defer w.mu.Unlock()
	return append([]simRead(nil), w.reads...)
}

func (w *simWorld) timeline() string {
	w.mu.Lock()
	defer w.mu.Unlock()
	s := ""
	for _, e := range w.events {
		s += e + "\n"
	}
	for _, x := range w.writes {
		s += fmt.Sprintf("%12v write conn=%d dst=%s life=%v end=%v err=%v\n", x.Start, x.Conn, x.Dst, x.Lifetime, x.End, x.Err)
	}
	return s
}

// dialer ------------------------------------------------------------------------

var vkIfiMAC = net.HardwareAddr{0x02, 0x00, 0x5e, 0x10, 0x00, 0x01}

// newDialer returns a real system.Dialer whose DialFunc hands out simConns
// (the repository's own tests replace DialFunc the same way).
func (w *simWorld) newDialer(iface string, mode system.DialerMode) *system.Dialer {
	d := system.NewDialer(iface, simState{w}, mode, log.New(w.logs, "", 0))
	n := 0
	d.DialFunc = func() (*system.DialContext, error) {
		i := n
		n++
		w.mu.Lock()
		w.dials = append(w.dials, w.now())
		res := w.dialResult
		resFor := w.dialResultFor
		w.mu.Unlock()
		if resFor != nil {
			if err := resFor(iface, i); err != nil {
				w.eventf("dial %d of %s fails: %v", i, iface, err)
				return nil, err
			}
		}
		if res != nil {
			if err := res(i); err != nil {
				w.eventf("dial %d fails: %v", i, err)
				return nil, err
			}
		}
		c := w.newConn()
		w.eventf("dial %d ok -> conn %d", i, c.id)
		mac, index := vkMACFor(iface), 1
		if w.macFor != nil {
			mac, index = w.macFor(iface, i), 1+i*7
		}
		w.mu.Lock()
		if w.connMAC == nil {
			w.connMAC = map[int]net.HardwareAddr{}
		}
		w.connMAC[c.id] = mac
		w.mu.Unlock()
		return &system.DialContext{
			Conn:      c,
			Interface: &net.Interface{Index: index, Name: iface, HardwareAddr: mac, MTU: 1500, Flags: net.FlagUp},
			IP:        netip.MustParseAddr("fe80::1"),
		}, nil
	}
	return d
}

// common errors for scripts
var (
	vkErrSyscall    = &os.SyscallError{Syscall: "recvmsg", Err: syscall.ENETDOWN}
	vkErrPermission = &os.SyscallError{Syscall: "socket", Err: syscall.EPERM}
	vkErrOther      = errors.New("verif: injected fatal error")
)

// A simRun is one task (advertiser or monitor) running in the world.
type simRun struct {
	cancel   context.CancelFunc
	done     chan struct{}
	err      error
	returned time.Duration
	hasRet   bool
	mu       sync.Mutex
}

func (w *simWorld) start(task interface{ Run(context.Context) error }) *simRun {
	ctx, cancel := context.WithCancel(context.Background())
	r := &simRun{cancel: cancel, done: make(chan struct{})}
	go func() {
		err := task.Run(ctx)
		r.mu.Lock()
		r.err, r.returned, r.hasRet = err, w.now(), true
		r.mu.Unlock()
		w.eventf("Run returned %v", err)
		close(r.done)
	}()
	return r
}

func (r *simRun) finished() (bool, time.Duration, error) {
	r.mu.Lock()
	defer r.mu.Unlock()
	return r.hasRet, r.returned, r.err
}

// waitDone waits up to d of virtual time for Run to return.
func (r *simRun) waitDone(d time.Duration) bool {
	select {
	case <-r.done:
		return true
	case <-time.After(d):
		return false
	}
}

// bubble runs f inside a synctest bubble. Goroutines that the code under test
// leaves blocked forever make synctest panic when f returns; that is reported
// as leaked=true (an observation; the caller decides whether it matters).
func bubble(t *testing.T, f func()) (leaked bool, panicked any) {
	defer func() {
		if r := recover(); r != nil {
			if s, ok := r.(string); ok && (containsAny(s, "deadlock", "blocked goroutines")) {
				leaked = true
				return
			}
			if e, ok := r.(error); ok && containsAny(e.Error(), "deadlock", "blocked goroutines") {
				leaked = true
				return
			}
			panicked = r
		}
	}()
	synctest.Test(t, func(*testing.T) { f() })
	return false, nil
}

func containsAny(s string, subs ...string) bool {
	for _, x := range subs {
		for i := 0; i+len(x) <= len(s); i++ {
			if s[i:i+len(x)] == x {
				return true
			}
		}
	}
	return false
}

// watch channel helper
func newWatchC() chan netstate.Change { return make(chan netstate.Change, 8) }

var vkAllNodes = netip.IPv6LinkLocalAllNodes()

func vkRS(withSLLA bool) *ndp.RouterSolicitation {
	rs := &ndp.RouterSolicitation{}
	if withSLLA {
		rs.Options = []ndp.Option{&ndp.LinkLayerAddress{Direction: ndp.Source, Addr: net.HardwareAddr{2, 0, 0, 0, 0, 9}}}
	}
	return rs
}

// vkNewSource replaces rand.NewSource at the two call sites in advertise.go
// when the driver's "rand-source" stage patch is applied (thorough checks of
// extreme random draws). With vkForcedDraw < 0 it is the real source.
var vkForcedDraw int64 = -1

func vkNewSource(seed int64) mrand.Source {
	if v := atomic.LoadInt64(&vkForcedDraw); v >= 0 {
		return &vkScripted{v: v}
	}
	return mrand.NewSource(seed)
}

type vkScripted struct{ v int64 }

func (s *vkScripted) Int63() int64   { return s.v }
func (s *vkScripted) Uint64() uint64 { return uint64(s.v) }
func (s *vkScripted) Seed(int64)     {}

func vkPatched(name string) bool {
	for _, s := range strings.Split(os.Getenv("VERIF_NOPATCH"), ",") {
		if s == name {
			return false
		}
	}
	return os.Getenv("VERIF_PATCHES") != "" && strings.Contains(","+os.Getenv("VERIF_PATCHES")+",", ","+name+",")
}

func vkAddr(s string) netip.Addr { return netip.MustParseAddr(s) }

// vkMACFor is the hardware address of the simulated interface (eth0 has vkIfiMAC).
func vkMACFor(name string) net.HardwareAddr {
	m := append(net.HardwareAddr(nil), vkIfiMAC...)
	if name != "eth0" {
		var h byte
		for i := 0; i < len(name); i++ {
			h = h*31 + name[i]
		}
		m[4], m[5] = h, byte(len(name))
	}
	return m
}

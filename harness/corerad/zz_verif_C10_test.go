package corerad

// C10 (liveness layer): a fault injected into a running advertiser or monitor
// tears the whole task down promptly - the old connection falls silent - and
// is followed by a re-dial (recoverable causes) or by Run returning the error
// (other causes); a later cancellation returns nil promptly. Virtual time.

import (
	"encoding/json"
	"fmt"
	"strings"
	"testing"
	"time"

	"github.com/mdlayher/corerad/internal/verifkit"
	"pgregory.net/rapid"
)

type c10Live struct {
	Monitor   bool       `json:"monitor"`
	Fault     string     `json:"fault"` // timeouts timeouts-spread read-syscall read-perm read-other write-syscall write-other link write-syscall-outage write-other-outage
	N         int        `json:"n"`     // number of timeouts / index of the failing scheduled write
	FaultNS   int64      `json:"fault_ns"`
	Pre       []advEvent `json:"pre"`                 // traffic before and after the fault
	DialFail  []string   `json:"dial_failures_after"` // outcomes of the dial attempts that follow the first one
	StopNS    int64      `json:"stop_ns"`             // 0: never cancelled (fatal scenarios)
	LatNS     int64      `json:"write_latency_ns"`
	Terminate bool       `json:"terminate"`
	WriteDst  string     `json:"write_fault_dst,omitempty"` // unicast (default) or multicast (n=0 is the initial RA)
	Errno     string     `json:"errno,omitempty"`           // which system call error (read-syscall / write-syscall); empty: a bare ENETDOWN
}

func (c c10Live) writeDst() string {
	if c.WriteDst == "multicast" {
		return "multicast"
	}
	return "unicast"
}

func (c c10Live) expectation() string {
	if (c.Fault == "read-syscall" || c.Fault == "write-syscall") && (c.Errno == "EPERM" || c.Errno == "EACCES") {
		// a permission error is a system call error too - the one kind that is not recoverable
		return "fatal" // (also on the initial RA, whose failure the code treats as fatal anyway)
	}
	switch c.Fault {
	case "timeouts":
		if c.N >= 5 {
			return "fatal"
		}
		return "none"
	case "timeouts-spread":
		return "none" // never 5 in a row: every receive that times out fewer than 5 times is fine
	case "read-syscall", "link":
		return "redial"
	case "write-syscall", "write-syscall-outage":
		if c.WriteDst == "multicast" && c.N == 0 {
			// the initial RA of a (re)initialisation: the code deliberately treats its failure as fatal
			// ("avoiding a needless start/error/restart loop"); whether that transmit error counts as
			// recoverable is not settled by the statement -> either outcome, but never half-alive
			return "either"
		}
		return "redial"
	}
	return "fatal"
}

func c10LiveProp(t *testing.T, k *verifkit.Kit) func(c c10Live) error {
	return func(c c10Live) error {
		exp := c.expectation()
		k.Record(c, true, "fault="+c.Fault, "expect="+exp, fmt.Sprintf("monitor=%v", c.Monitor))
		events := append([]advEvent(nil), c.Pre...)
		var lat []latRule
		switch c.Fault {
		case "timeouts":
			events = append(events, advEvent{AtNS: c.FaultNS, Kind: "readerr", Err: "timeout", N: c.N})
		case "timeouts-spread":
			// c.N groups of 1..4 timeouts, each group followed by a valid solicitation (so no single
			// receive sees 5 timeouts, but the connection sees many more in total)
			at := c.FaultNS
			for g := 0; g < c.N; g++ {
				events = append(events, advEvent{AtNS: at, Kind: "readerr", Err: "timeout", N: 1 + (g+c.N)%4})
				events = append(events, advEvent{AtNS: at + int64(time.Second), Kind: "rs", From: "fe80::77"})
				at += int64(2 * time.Second)
			}
		case "read-syscall":
			kind := "syscall"
			if c.Errno != "" {
				kind = "syscall:" + c.Errno
			}
			events = append(events, advEvent{AtNS: c.FaultNS, Kind: "readerr", Err: kind})
		case "read-perm":
			events = append(events, advEvent{AtNS: c.FaultNS, Kind: "readerr", Err: "perm"})
		case "read-other":
			events = append(events, advEvent{AtNS: c.FaultNS, Kind: "readerr", Err: "other"})
		case "link":
			events = append(events, advEvent{AtNS: c.FaultNS, Kind: "link"})
		case "write-syscall":
			kind := "syscall"
			if c.Errno != "" {
				kind = "syscall:" + c.Errno
			}
			lat = append(lat, latRule{Dst: c.writeDst(), N: c.N, Err: kind})
		case "write-other":
			lat = append(lat, latRule{Dst: c.writeDst(), N: c.N, Err: "other"})
		case "write-syscall-outage":
			// the link goes down: from the n-th write on, every transmission on the first connection
			// fails - with latency and a burst pending, many of them at the same moment
			lat = append(lat, latRule{Dst: c.writeDst(), N: c.N, Err: "syscall", From: true, FirstConn: true})
		case "write-other-outage":
			lat = append(lat, latRule{Dst: c.writeDst(), N: c.N, Err: "other", From: true, FirstConn: true})
		}
		if c.LatNS > 0 {
			lat = append(lat, latRule{Dst: "any", N: -1, NS: c.LatNS})
		}
		dial := append([]string{""}, c.DialFail...)
		var (
			w        *simWorld
			returned bool
			retAt    time.Duration
			retErr   error
			stopAt   time.Duration
			reads    []simRead
			writes   []simWrite
			panicV   any
			leaked   bool
		)
		if c.Monitor {
			r := runMonitor(t, monScenario{Events: events, StopNS: c.StopNS, DialFail: dial, NoStop: c.StopNS == 0, WaitNS: int64(200 * time.Second)})
			w, returned, retAt, retErr, stopAt, reads, panicV = r.W, r.Returned, r.RetAt, r.RetErr, r.StopAt, r.Reads, r.Panic
			leaked = r.Leaked
		} else {
			cfg := c09Cfg()
			r := runAdvertiser(t, advScenario{Cfg: cfg, Fwd0: true, Events: events, StopNS: c.StopNS, Terminate: c.Terminate, Lat: lat, DialFail: dial,
				NoStop: c.StopNS == 0, WaitNS: int64(200*time.Second) + 4*c.LatNS}, nil)
			w, returned, retAt, retErr, stopAt, reads, writes, panicV = r.W, r.Returned, r.RetAt, r.RetErr, r.StopAt, r.Reads, r.Writes, r.Panic
			leaked = r.Leaked
		}
		if panicV != nil || w == nil {
			return verifkit.Violf("panic", "panic in bubble: %v", panicV)
		}
		tl := w.timeline()
		if leaked && returned {
			// "stops every activity of that interface's task together": the task has returned, yet goroutines of it are
			// still blocked with nobody left to wake them (the bubble ended in a deadlock report)
			return verifkit.Violf("C10/goroutines-left-behind", "Run returned at %v, but goroutines started by the task are still blocked when everything else has ended\n%s", retAt, tl)
		}
		// when did the fault actually hit?
		fault := time.Duration(-1)
		switch {
		case strings.HasPrefix(c.Fault, "write-"):
			for _, x := range writes {
				if x.Err != nil {
					fault = x.End
					break
				}
			}
		case c.Fault == "link":
			fault = time.Duration(c.FaultNS)
		default:
			for _, rd := range reads {
				if rd.In.Err != nil {
					fault = rd.At
					break
				}
			}
		}
		if fault < 0 || (c.StopNS > 0 && fault >= stopAt) {
			k.Class("fault-did-not-occur")
			return nil // e.g. the failing write was never scheduled
		}
		bound := time.Second + 2*time.Duration(c.LatNS)
		w.mu.Lock()
		conns := append([]*simConn(nil), w.conns...)
		dials := append([]time.Duration(nil), w.dials...)
		w.mu.Unlock()
		old := conns[0]
		old.mu.Lock()
		lastUse := old.lastUse
		old.mu.Unlock()
		if exp == "either" {
			k.Unspecified("transmit error on the initial RA: recoverable or fatal")
			if lastUse > fault+bound {
				return verifkit.Violf("C10/old-connection-still-used", "fault at %v, old connection used at %v (bound %v)\n%s", fault, lastUse, fault+bound, tl)
			}
			redialed := len(dials) > 1 && dials[1] <= fault+bound
			if !redialed && !(returned && retAt <= fault+bound) && !(c.StopNS > 0 && stopAt <= fault+bound) {
				return verifkit.Violf("C10/half-alive-after-initial-ra-failure", "initial RA failed at %v: neither a re-dial nor a return within %v\n%s", fault, bound, tl)
			}
			return nil
		}
		if c.Fault == "timeouts" && c.N >= 3 {
			// "retried ... with increasing back-off": the waits between consecutive timed-out receives never shrink, and
			// the last is longer than the first (how long they are is the code's business)
			var at []time.Duration
			for _, rd := range reads {
				if rd.Conn == 0 && rd.At >= time.Duration(c.FaultNS) && rd.In.Err != nil && len(at) < min(c.N, 5) {
					at = append(at, rd.At)
				}
			}
			for i := 2; i < len(at); i++ {
				if at[i]-at[i-1] < at[i-1]-at[i-2] {
					return verifkit.Violf("C10/timeout-backoff-not-increasing", "timed-out receives at %v: the wait before attempt %d is shorter than the one before it\n%s", at, i+1, tl)
				}
			}
			if n := len(at); n >= 4 && at[n-1]-at[n-2] <= at[1]-at[0] {
				return verifkit.Violf("C10/timeout-backoff-not-increasing", "timed-out receives at %v: the back-off does not grow\n%s", at, tl)
			}
		}
		switch exp {
		case "none":
			if len(conns) != 1 {
				return verifkit.Violf("C10/timeouts-below-budget-disrupt", "%d receive timeouts (< 5) led to a re-dial\n%s", c.N, tl)
			}
			if returned && (c.StopNS == 0 || retAt < stopAt) {
				return verifkit.Violf("C10/timeouts-below-budget-disrupt", "receive timeouts (never 5 in a row) ended the task: %v\n%s", retErr, tl)
			}
		case "redial":
			if lastUse > fault+bound {
				return verifkit.Violf("C10/old-connection-still-used", "fault at %v, old connection used at %v (bound %v)\n%s", fault, lastUse, fault+bound, tl)
			}
			redial := time.Duration(-1)
			for _, d := range dials[1:] {
				if d >= fault {
					redial = d
					break
				}
			}
			stoppedFirst := c.StopNS > 0 && stopAt <= fault+bound
			if redial < 0 || redial > fault+bound {
				if !stoppedFirst {
					return verifkit.Violf("C10/no-redial-after-recoverable-fault", "recoverable fault %s at %v: no dial attempt within %v (attempts at %v); the task is half-alive or dead\n%s", c.Fault, fault, bound, dials, tl)
				}
			}
			if returned && retErr != nil {
				return verifkit.Violf("C10/recoverable-fault-fatal", "recoverable fault %s ended Run with %v\n%s", c.Fault, retErr, tl)
			}
			// "the task is then re-established": the new connection is used - an advertiser announces itself on it (the
			// initial RA) unless the stop came first
			if !c.Monitor && redial >= 0 && len(conns) > 1 && !(c.StopNS > 0 && stopAt <= redial+bound) && len(c.DialFail) == 0 {
				lastConn := conns[len(conns)-1].id
				used := false
				for _, x := range writes {
					used = used || (x.Conn == lastConn && x.Dst == vkAllNodes)
				}
				if !used {
					return verifkit.Violf("C10/re-established-task-silent", "recoverable fault %s at %v: connection %d was dialled at %v, but no RA was ever sent on it\n%s", c.Fault, fault, lastConn, redial, tl)
				}
			}
		case "fatal":
			if lastUse > fault+bound {
				return verifkit.Violf("C10/old-connection-still-used", "fault at %v, old connection used at %v (bound %v)\n%s", fault, lastUse, fault+bound, tl)
			}
			stoppedFirst := c.StopNS > 0 && stopAt <= fault+bound
			if !stoppedFirst {
				if !returned || retAt > fault+bound {
					return verifkit.Violf("C10/fatal-fault-not-reported-promptly", "fatal fault %s at %v: Run returned=%v at %v (bound %v)\n%s", c.Fault, fault, returned, retAt, fault+bound, tl)
				}
				if retErr == nil {
					return verifkit.Violf("C10/fatal-fault-swallowed", "fatal fault %s at %v: Run returned nil\n%s", c.Fault, fault, tl)
				}
				// "ends with a reported error": the error that was the cause, not some other one
				if strings.HasSuffix(c.Fault, "-other") && !strings.Contains(retErr.Error(), vkErrOther.Error()) {
					return verifkit.Violf("C10/fatal-fault-misreported", "fatal fault %s (%v) at %v: Run returned %v, which does not name it\n%s", c.Fault, vkErrOther, fault, retErr, tl)
				}
				if len(conns) != 1 {
					return verifkit.Violf("C10/fatal-fault-redialed", "fatal fault %s led to a re-dial\n%s", c.Fault, tl)
				}
			}
		}
		// a cancellation at any point produces a prompt clean return
		if c.StopNS > 0 && !(returned && retAt < stopAt) {
			// ... which a new connection is not: whatever ends the task after the stop request, nothing is dialled any more
			// (a dial at the very instant of the stop may have begun before it)
			for i, d := range dials {
				if d > stopAt {
					return verifkit.Violf("C10/dial-after-cancellation", "stop at %v, yet dial attempt %d begins at %v\n%s", stopAt, i, d, tl)
				}
			}
			if !returned || retAt > stopAt+bound+3*time.Second {
				return verifkit.Violf("C10/cancellation-not-prompt", "stop at %v: Run returned=%v at %v\n%s", stopAt, returned, retAt, tl)
			}
			if retErr != nil && exp != "fatal" {
				return verifkit.Violf("C10/cancellation-returns-error", "stop at %v: Run returned %v\n%s", stopAt, retErr, tl)
			}
		}
		return nil
	}
}

func c10GenLive(t *rapid.T) c10Live {
	s := int64(time.Second)
	c := c10Live{Monitor: rapid.IntRange(0, 2).Draw(t, "monitor") == 0}
	faults := []string{"timeouts", "timeouts", "timeouts-spread", "read-syscall", "read-perm", "read-other", "link", "write-syscall", "write-other", "write-syscall-outage", "write-syscall-outage", "write-other-outage"}
	if c.Monitor {
		faults = faults[:7]
	}
	c.Fault = rapid.SampledFrom(faults).Draw(t, "fault")
	c.N = rapid.SampledFrom([]int{1, 2, 4, 5, 6, 9}).Draw(t, "n")
	if strings.HasPrefix(c.Fault, "write-") {
		c.N = rapid.IntRange(0, 3).Draw(t, "nth")
		c.WriteDst = rapid.SampledFrom([]string{"unicast", "unicast", "multicast"}).Draw(t, "wdst")
	}
	c.FaultNS = rapid.SampledFrom([]int64{0, 1, s, 3 * s, 3*s + 1, 4 * s}).Draw(t, "faultat")
	if rapid.Bool().Draw(t, "anyfault") {
		c.FaultNS = rapid.Int64Range(0, 10*s).Draw(t, "faultat2")
	}
	for i, n := 0, rapid.IntRange(0, 10).Draw(t, "npre"); i < n; i++ {
		at := c.FaultNS + rapid.Int64Range(-2*s, 3*s).Draw(t, "rel")
		if at < 0 {
			at = 0
		}
		c.Pre = append(c.Pre, advEvent{AtNS: at, Kind: "rs", From: rapid.SampledFrom([]string{"fe80::a", "fe80::b", "::", "2001:db8::c"}).Draw(t, "from"),
			N: rapid.SampledFrom([]int{1, 1, 3, 30, 60}).Draw(t, "burst")})
	}
	for i, n := 0, rapid.IntRange(0, 4).Draw(t, "ndialfail"); i < n; i++ {
		c.DialFail = append(c.DialFail, rapid.SampledFrom([]string{"notready", "syscall", "notready"}).Draw(t, "dialfail"))
	}
	if c.Fault == "timeouts-spread" {
		c.N = rapid.IntRange(2, 8).Draw(t, "groups")
		c.StopNS = c.FaultNS + int64(c.N+2)*int64(2*time.Second)
	} else if rapid.IntRange(0, 3).Draw(t, "stop") != 0 {
		c.StopNS = c.FaultNS + rapid.SampledFrom([]int64{1, 100 * int64(time.Millisecond), s, 5 * s, 20 * s}).Draw(t, "stoprel")
	}
	c.LatNS = rapid.SampledFrom([]int64{0, 0, int64(time.Millisecond), 200 * int64(time.Millisecond), 0, int64(time.Millisecond), 5 * s, 40 * s}).Draw(t, "lat")
	if c.Fault == "read-syscall" || c.Fault == "write-syscall" {
		// which system call error: all of them are "a system call error other than a permission error"
		c.Errno = rapid.SampledFrom([]string{"", "EINTR", "EMFILE", "ENFILE", "ENOBUFS", "EIO", "ENODEV", "ENETDOWN", "ENETUNREACH", "EADDRNOTAVAIL", "ENOMEM", "EMSGSIZE", "EPERM", "EACCES"}).Draw(t, "errno")
	}
	c.Terminate = rapid.Bool().Draw(t, "terminate")
	return c
}

// c10Matrix: every fault kind x {advertiser, monitor} x {idle, traffic pending} x {cancel later, never}.
func c10Matrix(yield func(c10Live) bool) {
	s := int64(time.Second)
	for _, mon := range []bool{false, true} {
		for _, f := range []string{"timeouts", "timeouts-spread", "read-syscall", "read-perm", "read-other", "link", "write-syscall", "write-other", "write-syscall-outage", "write-other-outage"} {
			if mon && strings.HasPrefix(f, "write-") {
				continue
			}
			ns := []int{0}
			if f == "timeouts" {
				ns = []int{1, 4, 5, 6, 20}
			}
			if f == "timeouts-spread" {
				ns = []int{2, 3, 6}
			}
			if strings.HasPrefix(f, "write-") {
				ns = []int{0, 1, 100, 101} // 100+n: the n-th multicast write (100 = the initial RA)
			}
			for _, n := range ns {
				for _, busy := range []bool{false, true} {
					for _, stop := range []int64{0, 30 * s} {
						c := c10Live{Monitor: mon, Fault: f, N: n, FaultNS: 5 * s, StopNS: stop}
						if strings.HasPrefix(f, "write-") && n >= 100 {
							c.N, c.WriteDst = n-100, "multicast"
						}
						if f == "timeouts-spread" {
							c.StopNS = 5*s + int64(n+2)*2*s
						}
						if strings.HasSuffix(f, "-outage") {
							c.LatNS = 200 * int64(time.Millisecond) // many failing transmissions in flight at once
						}
						if busy || strings.HasPrefix(f, "write-") {
							c.Pre = []advEvent{{AtNS: 5*s - 100*int64(time.Millisecond), Kind: "rs", From: "fe80::a", N: 30}, {AtNS: 5 * s, Kind: "rs", From: "::", N: 2}}
						}
						if !yield(c) {
							return
						}
					}
				}
			}
		}
	}
}

func TestVerif_C10live(t *testing.T) {
	k := verifkit.Start(t, "C10")
	prop := c10LiveProp(t, k)
	k.Regress(t, func(sub string, raw json.RawMessage) error {
		if !strings.HasPrefix(sub, "liveness") {
			return nil // belongs to the policy half of C10
		}
		return verifkit.Decode(raw, prop)
	})
	verifkit.Enumerate(k, t, "liveness-fault-matrix", true, c10Matrix, prop)
	verifkit.Rapid(k, t, "liveness-random-faults", k.N(2000, 300000), c10GenLive, prop)
}

package corerad

// C07: each valid RS is answered exactly once, to the right destination, in
// time; unicast-only never multicasts; counters equal events. Oracle:
// bijection between solicitations and unicast writes with delay in
// [0, 500 ms), content = configured RA, counters recomputed from the logs.

import (
	"encoding/json"
	"fmt"
	"sort"
	"strings"
	"sync"
	"sync/atomic"
	"testing"
	"time"

	"github.com/mdlayher/corerad/internal/verifkit"
	"github.com/mdlayher/ndp"
	"pgregory.net/rapid"
)

const c07MaxDelay = 500 * time.Millisecond

type c07Case struct {
	Sc         advScenario `json:"scenario"`
	ForcedDraw int64       `json:"forced_draw"` // -1: the code's own random source
}

var (
	c07DelayMu sync.Mutex
	c07Delays  = map[time.Duration]int{}
	c07DelaysN int
)

func c07Oracle(c c07Case, r *advResult, k *verifkit.Kit) error {
	sc := c.Sc
	if r.Panic != nil {
		return verifkit.Violf("panic", "panic in bubble: %v\n%s", r.Panic, r.W.timeline())
	}
	tl := func() string { return r.W.timeline() }
	start, end := advEpochs(r)
	if !sc.NoStop && !r.Returned {
		return verifkit.Violf("C07/run-does-not-return", "Run did not return within %v of the stop\n%s", time.Duration(sc.WaitNS), tl())
	}
	// unicast-only never transmits to a multicast destination
	if sc.Cfg.UnicastOnly {
		for _, w := range r.Writes {
			if w.Dst.IsMulticast() {
				return verifkit.Violf("C07/unicast-only-multicast", "unicast-only interface transmitted to %v at %v\n%s", w.Dst, w.Start, tl())
			}
		}
	}
	// content of every RA
	for i, w := range r.Writes {
		final := sc.Terminate && w.Start >= r.StopAt && w.Dst == vkAllNodes && i == len(r.Writes)-1
		if want := sc.Cfg.expect(true, final); w.RA != want && !(w.Start >= r.StopAt) {
			return verifkit.Violf("C07/wrong-content", "RA to %v at %v:\nwant %s\ngot  %s", w.Dst, w.Start, want, w.RA)
		}
	}
	// bijection RS <-> unicast RA, per connection and source
	type key struct {
		conn int
		src  string
	}
	rs := map[key][]time.Duration{}
	// a solicitation is "received" when the listener reads it (it may have waited
	// in the socket buffer while the interface was being initialised)
	for _, rd := range r.Reads {
		if _, ok := rd.In.Msg.(*ndp.RouterSolicitation); ok && rd.In.Err == nil && rd.In.HopLimit == ndp.HopLimit && !rd.In.From.IsUnspecified() {
			src := rd.In.From.WithZone("").String()
			rs[key{rd.Conn, src}] = append(rs[key{rd.Conn, src}], rd.At)
		}
	}
	// ... and everything that was delivered to a connection is read, as long as the connection lives on for another
	// second (the rules below start from what the listener read: a listener that stops reading must not pass them)
	readsOn, sentOn := map[int]int{}, map[int]int{}
	for _, rd := range r.Reads {
		if rd.In.Err == nil {
			readsOn[rd.Conn]++
		}
	}
	for _, d := range r.Delivered {
		if d.Ev.Kind == "readerr" {
			continue
		}
		sentOn[d.Conn]++
		if max(d.At, start[d.Conn])+time.Second < end[d.Conn] && sentOn[d.Conn] > readsOn[d.Conn] {
			return verifkit.Violf("C07/message-never-read", "message %d delivered to connection %d at %v was never read (%d reads; the connection lived until %v)\n%s",
				sentOn[d.Conn], d.Conn, d.At, readsOn[d.Conn], end[d.Conn], tl())
		}
	}
	wr := map[key][]simWrite{}
	for _, w := range r.Writes {
		if !w.Dst.IsMulticast() {
			wr[key{w.Conn, w.Dst.String()}] = append(wr[key{w.Conn, w.Dst.String()}], w)
		}
	}
	for kk, ws := range wr {
		ts := rs[kk]
		sort.Slice(ts, func(i, j int) bool { return ts[i] < ts[j] })
		sort.Slice(ws, func(i, j int) bool { return ws[i].Start < ws[j].Start })
		used := make([]bool, len(ts))
		for _, w := range ws {
			m := -1
			for i, t0 := range ts {
				if !used[i] && t0 <= w.Start && w.Start < t0+c07MaxDelay {
					m = i
					break
				}
			}
			if m < 0 {
				sig := "C07/unsolicited-or-late-unicast"
				for i, t0 := range ts {
					if !used[i] && t0 <= w.Start {
						sig = "C07/answer-later-than-500ms"
					}
				}
				return verifkit.Violf(sig, "unicast RA to %s at %v on connection %d matches no pending solicitation (solicitations at %v)\n%s", kk.src, w.Start, kk.conn, ts, tl())
			}
			used[m] = true
			d := w.Start - ts[m]
			if c.ForcedDraw >= 0 && vkPatched("rand-source") {
				if want := time.Duration(c.ForcedDraw % int64(c07MaxDelay)); d != want {
					return verifkit.Violf("C07/forced-delay", "forced random draw %d: answer after %v, want %v\n%s", c.ForcedDraw, d, want, tl())
				}
			} else {
				c07DelayMu.Lock()
				c07Delays[d]++
				c07DelaysN++
				c07DelayMu.Unlock()
			}
		}
		for i, t0 := range ts {
			if !used[i] && t0+c07MaxDelay < end[kk.conn] {
				return verifkit.Violf("C07/solicitation-not-answered", "RS from %s at %v on connection %d got no unicast RA within 500 ms (answers at %v)\n%s", kk.src, t0, kk.conn, starts(ws), tl())
			}
		}
	}
	for kk, ts := range rs {
		if _, ok := wr[kk]; ok {
			continue
		}
		for _, t0 := range ts {
			if t0+c07MaxDelay < end[kk.conn] {
				return verifkit.Violf("C07/solicitation-not-answered", "RS from %s at %v on connection %d was never answered\n%s", kk.src, t0, kk.conn, tl())
			}
		}
	}
	// RS from :: -> multicast within 3 s (unless unicast-only)
	if !sc.Cfg.UnicastOnly {
		for _, d := range r.Reads {
			if _, isRS := d.In.Msg.(*ndp.RouterSolicitation); !isRS || d.In.Err != nil || d.In.HopLimit != ndp.HopLimit || !d.In.From.IsUnspecified() || d.At+c06Min >= end[d.Conn] {
				continue
			}
			ok := false
			for _, w := range r.Writes {
				if w.Conn == d.Conn && w.Dst == vkAllNodes && w.Start >= d.At && w.Start <= d.At+c06Min {
					ok = true
				}
			}
			if !ok {
				return verifkit.Violf("C07/unspecified-source-not-served", "RS from :: read at %v: no multicast RA within 3 s\n%s", d.At, tl())
			}
		}
	}
	// counters
	var uni, multi, failed float64
	firstOnConn := map[int]bool{}
	for i, w := range r.Writes {
		scheduled := true
		if !sc.Cfg.UnicastOnly {
			if !firstOnConn[w.Conn] {
				firstOnConn[w.Conn] = true
				scheduled = false // initial RA
			}
			if sc.Terminate && i == len(r.Writes)-1 && w.Start >= r.StopAt && w.Dst == vkAllNodes && w.Lifetime == 0 && r.Returned {
				scheduled = false // final RA
			}
		}
		if !scheduled || w.End < 0 {
			continue
		}
		switch {
		case w.Err != nil:
			failed++
		case w.Dst.IsMulticast():
			multi++
		default:
			uni++
		}
	}
	if got := r.counter(serRAs, "interface=eth0,type=unicast"); got != uni {
		return verifkit.Violf("C07/counter-unicast", "router_advertisements_total{unicast} = %v, %v scheduled unicast transmissions completed\n%s", got, uni, tl())
	}
	if got := r.counter(serRAs, "interface=eth0,type=multicast"); got != multi {
		return verifkit.Violf("C07/counter-multicast", "router_advertisements_total{multicast} = %v, %v scheduled multicast transmissions completed\n%s", got, multi, tl())
	}
	if got := r.counter(serErrors, "interface=eth0,error=transmit"); got != failed {
		return verifkit.Violf("C07/counter-transmit-errors", "errors_total{transmit} = %v, %v scheduled transmissions failed\n%s", got, failed, tl())
	}
	if multi == 0 && !sc.Cfg.UnicastOnly {
		// nothing scheduled: the last-multicast gauge must not claim a transmission
	}
	if _, ok := r.Series[serLastMC].Samples["interface=eth0"]; ok && multi == 0 {
		return verifkit.Violf("C07/last-multicast-gauge", "last_multicast_timestamp is set although no scheduled multicast RA was transmitted\n%s", tl())
	}
	recv := map[string]float64{}
	for _, rd := range r.Reads {
		if rd.In.Err == nil && rd.In.HopLimit == ndp.HopLimit {
			recv[rd.In.Msg.Type().String()]++
		}
	}
	for _, typ := range []ndp.Message{&ndp.RouterSolicitation{}, &ndp.RouterAdvertisement{}, &ndp.NeighborSolicitation{}, &ndp.NeighborAdvertisement{}} {
		name := typ.Type().String()
		if got := r.counter(serRecv, "interface=eth0,message="+name); got != recv[name] {
			return verifkit.Violf("C07/counter-received", "messages_received_total{%s} = %v, %v validated messages were read\n%s", name, got, recv[name], tl())
		}
	}
	return nil
}

func starts(ws []simWrite) []time.Duration {
	var out []time.Duration
	for _, w := range ws {
		out = append(out, w.Start)
	}
	return out
}

func c07Classes(sc advScenario, r *advResult) (bool, []string) {
	nt := sc.Cfg.UnicastOnly
	var cls []string
	if sc.Cfg.UnicastOnly {
		cls = append(cls, "unicast-only")
	}
	srcs := map[string]int{}
	var times []time.Duration
	for _, d := range r.Delivered {
		if d.Ev.Kind != "rs" {
			continue
		}
		srcs[d.Ev.From]++
		if d.Ev.From == "::" {
			nt = true
		} else {
			times = append(times, d.At)
		}
	}
	for s, n := range srcs {
		if n > 1 && s != "::" {
			nt = true
			cls = append(cls, "repeated-source")
			break
		}
	}
	if srcs["::"] > 0 {
		cls = append(cls, "unspecified-source")
	}
	pending := 0
	for i := 1; i < len(times); i++ {
		if times[i]-times[i-1] < c07MaxDelay {
			pending++
		}
	}
	if pending > 0 {
		nt = true
	}
	cls = append(cls, fmt.Sprintf("overlapping-solicitations/8=%d", min(pending/8, 6)), fmt.Sprintf("solicitations/16=%d", min(len(times)/16, 6)))
	for _, l := range sc.Lat {
		if l.Err != "" {
			cls = append(cls, "transmit-failure")
		}
	}
	return nt, cls
}

func c07Prop(t *testing.T, k *verifkit.Kit) func(c c07Case) error {
	return func(c c07Case) error {
		if c.ForcedDraw >= 0 && !vkPatched("rand-source") {
			k.Record(c, false, "forced-draw-skipped(no stage patch)")
			return nil
		}
		atomic.StoreInt64(&vkForcedDraw, c.ForcedDraw)
		defer atomic.StoreInt64(&vkForcedDraw, -1)
		if c.Sc.WaitNS == 0 {
			c.Sc.WaitNS = int64(30 * time.Second)
			for _, l := range c.Sc.Lat {
				c.Sc.WaitNS += 4 * l.NS // (the harness's patience with slow transmissions, not a verdict)
			}
		}
		r := runAdvertiser(t, c.Sc, nil)
		if r.W == nil {
			return fmt.Errorf("verif: world not created: %v", r.Panic)
		}
		nt, cls := c07Classes(c.Sc, r)
		if c.ForcedDraw >= 0 {
			cls = append(cls, "forced-draw")
		}
		k.Record(c, nt, cls...)
		return c07Oracle(c, r, k)
	}
}

var c07Sources = []string{"fe80::a", "fe80::b", "fe80::c", "2001:db8::d", "2001:db8:1::e", "fd00::f"}

func c07Gen(t *rapid.T) c07Case {
	s := int64(time.Second)
	cfg := c06BaseCfg(rapid.SampledFrom([]int64{4, 5, 8, 30, 600}).Draw(t, "max"))
	if cfg.MaxNS > 9*s {
		cfg.MinNS = cfg.MaxNS / 3 / s * s
	}
	cfg.UnicastOnly = rapid.IntRange(0, 3).Draw(t, "unicast-only") == 0
	cfg.RA.Opts = append(cfg.RA.Opts, vOpt{Kind: "mtu", MTU: 1500})
	sc := advScenario{Cfg: cfg, Fwd0: true, Terminate: rapid.Bool().Draw(t, "terminate")}
	// one Metrics serves every configured interface (as main.go builds it): siblings of either
	// kind, before and after the interface under test, must not change what is counted for it
	if rapid.IntRange(0, 2).Draw(t, "siblings") == 0 {
		for i, n := 0, rapid.IntRange(1, 3).Draw(t, "nsiblings"); i < n; i++ {
			x := c06BaseCfg(600)
			x.MinNS = 200 * s
			x.UnicastOnly = rapid.Bool().Draw(t, "sibling-unicast-only")
			sc.Extra = append(sc.Extra, x)
		}
		for i, n := 0, rapid.IntRange(0, 2).Draw(t, "nbefore"); i < n; i++ {
			sc.Before = append(sc.Before, rapid.SampledFrom([]string{"monitor", "idle"}).Draw(t, "before"))
		}
	}
	at := int64(0)
	for i, n := 0, rapid.IntRange(1, 40).Draw(t, "nevents"); i < n; i++ {
		switch rapid.IntRange(0, 5).Draw(t, "gapkind") {
		case 0:
			// same instant as the previous event
		case 1, 2:
			at += rapid.Int64Range(0, int64(10*time.Millisecond)).Draw(t, "burstgap")
		case 3:
			at += rapid.SampledFrom([]int64{int64(c07MaxDelay) - 1, int64(c07MaxDelay), int64(c07MaxDelay) + 1}).Draw(t, "edge")
		default:
			at += rapid.Int64Range(0, 4*s).Draw(t, "gap")
		}
		switch rapid.IntRange(0, 11).Draw(t, "kind") {
		case 0:
			sc.Events = append(sc.Events, advEvent{AtNS: at, Kind: "link"})
		case 1, 2:
			sc.Events = append(sc.Events, advEvent{AtNS: at, Kind: "rs", From: "::", N: rapid.SampledFrom([]int{1, 1, 3, 20}).Draw(t, "mburst")})
		case 3:
			sc.Events = append(sc.Events, advEvent{AtNS: at, Kind: "msg", Msg: "ra", From: "fe80::99"})
		default:
			sc.Events = append(sc.Events, advEvent{AtNS: at, Kind: "rs", From: rapid.SampledFrom(c07Sources).Draw(t, "src"),
				SLLA: rapid.Bool().Draw(t, "slla"), N: rapid.SampledFrom([]int{1, 1, 1, 1, 2, 5, 40}).Draw(t, "burst")})
			if e := &sc.Events[len(sc.Events)-1]; rapid.IntRange(0, 3).Draw(t, "crowd") == 0 {
				// a busy link: every solicitation of the burst from another host, now and then a few hundred of them
				e.Crowd, e.N = true, rapid.SampledFrom([]int{2, 5, 40, 70, 300}).Draw(t, "crowdn")
			}
		}
	}
	sc.StopNS = at + rapid.Int64Range(0, 5*s).Draw(t, "tail")
	if rapid.IntRange(0, 5).Draw(t, "fail") == 0 {
		sc.Lat = append(sc.Lat, latRule{Dst: rapid.SampledFrom([]string{"unicast", "multicast", "any"}).Draw(t, "faildst"),
			N: rapid.IntRange(0, 6).Draw(t, "failn"), Err: "syscall", NS: rapid.SampledFrom([]int64{0, int64(time.Millisecond)}).Draw(t, "faillat")})
	}
	if rapid.IntRange(0, 3).Draw(t, "latency") == 0 {
		lat := rapid.Int64Range(0, int64(50*time.Millisecond)).Draw(t, "lat")
		if rapid.IntRange(0, 3).Draw(t, "latlong") == 0 {
			// nothing bounds a transmission: beyond MAX_RA_DELAY_TIME, beyond MIN_DELAY_BETWEEN_RAS, long enough to stack
			lat = rapid.SampledFrom([]int64{499999999, 500000000, 600 * int64(time.Millisecond), 3 * s, 3*s + 1, 20 * s}).Draw(t, "latv")
		}
		sc.Lat = append(sc.Lat, latRule{Dst: "any", N: -1, NS: lat})
	}
	forced := int64(-1)
	if rapid.IntRange(0, 3).Draw(t, "forced") == 0 {
		forced = rapid.SampledFrom([]int64{0, 1, 499999999, 499999998, 250000000}).Draw(t, "draw")
	}
	return c07Case{Sc: sc, ForcedDraw: forced}
}

func TestVerif_C07(t *testing.T) {
	k := verifkit.Start(t, "C07")
	prop := c07Prop(t, k)
	k.Regress(t, func(sub string, raw json.RawMessage) error { return verifkit.Decode(raw, prop) })
	if !vkPatched("rand-source") {
		k.Skip("forced random draws (stage patch rand-source not applicable to this tree)")
	}
	verifkit.Rapid(k, t, "solicitation-histories", k.N(2500, 400000), c07Gen, prop)
	if k.ReplayOnly() {
		return
	}
	// the delay is random: over many answered solicitations it is not a constant
	c07DelayMu.Lock()
	defer c07DelayMu.Unlock()
	k.Note("observed_unicast_delays", c07DelaysN)
	k.Note("distinct_unicast_delays", len(c07Delays))
	if c07DelaysN >= 64 && len(c07Delays) < 2 {
		var d time.Duration
		for x := range c07Delays {
			d = x
		}
		c := c07Case{ForcedDraw: -1}
		if err := k.Judge("delay-distribution", c, verifkit.Violf("C07/constant-delay", "%d solicitations were all answered after exactly %v: the delay is not random", c07DelaysN, d)); err != nil {
			t.Fatalf("%v", err)
		}
	}
	_ = strings.Join
}

package corerad

// C05 on the real clock with the timer semantics of the shipped binary.
//
// The bubble checks must be built with GODEBUG asynctimerchan=0 (testing/synctest
// needs the Go 1.23 timers), but the module says "go 1.22", so the daemon as it
// is built for release has the OLD timer channels: a timer that has fired keeps
// its tick in a buffered channel, and Reset does not take it back. A wait that
// is wrong only under those semantics (a reused timer, a stale tick) cannot show
// in a bubble. This part is built without the GODEBUG override and runs the real
// multicast loop of one Advertiser several times in a row, as Dialer.Dial does
// after every recoverable failure, on the real clock: min 3 s / max 4 s, 32
// scenarios at once per case, each 8 to 12 s long.
//
// Oracle (one direction only, the one the real clock can decide without slack):
// within a run no two requests for an unsolicited RA are closer than
// MinRtrAdvInterval, and the first request of a run comes at once.

import (
	"context"
	"encoding/json"
	"fmt"
	"io"
	"log"
	"net/netip"
	"sync"
	"testing"
	"time"

	"github.com/mdlayher/corerad/internal/config"
	"github.com/mdlayher/corerad/internal/system"
	"github.com/mdlayher/corerad/internal/verifkit"
	"github.com/mdlayher/metricslite"
	"pgregory.net/rapid"
)

type c05RealRun struct {
	RunMS   int `json:"run_ms"`   // the loop runs this long, then its context is cancelled
	PauseMS int `json:"pause_ms"` // time until the next run starts (the re-dial)
}

type c05RealScenario struct {
	Runs []c05RealRun `json:"runs"`
}

type c05RealCase struct {
	Scenarios []c05RealScenario `json:"scenarios"` // all run at the same time
}

func c05RealOne(sc c05RealScenario) error {
	st := system.TestState{Forwarding: true}
	mm := NewMetrics(metricslite.NewMemory(), "verif", time.Time{}, st, nil)
	cctx := NewContext(log.New(io.Discard, "", 0), mm, st)
	a := NewAdvertiser(cctx, config.Interface{Name: "eth0", Advertise: true, MinInterval: 3 * time.Second, MaxInterval: 4 * time.Second}, nil, nil, func() bool { return false })
	for ri, r := range sc.Runs {
		ctx, cancel := context.WithCancel(context.Background())
		ipC := make(chan netip.Addr)
		done := make(chan struct{})
		start := time.Now()
		go func() { defer close(done); a.multicast(ctx, ipC) }()
		// at[i]: when request i was received; ready[i]: when this consumer began to wait for it. The hand-over of
		// request i happened within [ready[i], at[i]], so at[i+1]-ready[i] is an UPPER bound of the true wait between the
		// two requests whatever the load on the machine: if even that is below the minimum, the wait was too short.
		var at, ready []time.Duration
		stop := time.After(time.Duration(r.RunMS) * time.Millisecond)
	loop:
		for {
			before := time.Since(start)
			select {
			case <-ipC:
				at, ready = append(at, time.Since(start)), append(ready, before)
			case <-stop:
				break loop
			}
		}
		cancel()
		select {
		case <-done:
		case <-time.After(5 * time.Second):
			return verifkit.Violf("C05/real-clock/loop-does-not-stop", "run %d: the multicast loop has not returned 5 s after its context was cancelled", ri)
		}
		if len(at) == 0 && r.RunMS >= 2000 { // (a short run on a busy machine may end before the loop's goroutine has run at all)
			return verifkit.Violf("C05/real-clock/no-first-request", "run %d of %+v: no unsolicited RA requested in %d ms (the first one is requested at once)", ri, sc.Runs, r.RunMS)
		}
		for i := 1; i < len(at); i++ {
			if gap := at[i] - ready[i-1]; gap < 3*time.Second {
				return verifkit.Violf("C05/real-clock/wait-below-min", "run %d of %+v (old timer semantics, real clock): unsolicited RAs requested at %v - a wait of at most %v, MinRtrAdvInterval is 3s", ri, sc.Runs, at, gap)
			}
		}
		time.Sleep(time.Duration(r.PauseMS) * time.Millisecond)
	}
	return nil
}

func c05RealProp(k *verifkit.Kit) func(c c05RealCase) error {
	return func(c c05RealCase) error {
		long := 0
		for _, sc := range c.Scenarios {
			for _, r := range sc.Runs[:len(sc.Runs)-1] {
				if r.PauseMS > 4000-min(r.RunMS, 4000) {
					long++ // the pause outlasts whatever wait was pending when the run was cancelled
				}
			}
		}
		k.Record(c, long > 0, fmt.Sprintf("real-clock:pauses-outlasting-the-pending-wait=%d", min(long, 8)))
		errs := make([]error, len(c.Scenarios))
		var wg sync.WaitGroup
		for i, sc := range c.Scenarios {
			wg.Add(1)
			go func() { defer wg.Done(); errs[i] = c05RealOne(sc) }()
		}
		wg.Wait()
		for _, err := range errs {
			if err != nil {
				return err
			}
		}
		return nil
	}
}

func c05RealGen(t *rapid.T) c05RealCase {
	var c c05RealCase
	for i := 0; i < 32; i++ {
		var sc c05RealScenario
		// two or three runs; the first is cancelled while its first wait (3..4 s) is pending, the pause is shorter or
		// longer than the rest of that wait, and the next run is watched for 3.5 s
		first := c05RealRun{RunMS: rapid.IntRange(50, 2500).Draw(t, "run0"), PauseMS: rapid.SampledFrom([]int{0, 10, 500, 2000, 4200, 4500}).Draw(t, "pause0")}
		sc.Runs = append(sc.Runs, first)
		if rapid.IntRange(0, 2).Draw(t, "three") == 0 {
			sc.Runs = append(sc.Runs, c05RealRun{RunMS: rapid.IntRange(50, 1000).Draw(t, "run1"), PauseMS: rapid.SampledFrom([]int{0, 3000, 4200}).Draw(t, "pause1")})
		}
		sc.Runs = append(sc.Runs, c05RealRun{RunMS: 3500})
		c.Scenarios = append(c.Scenarios, sc)
	}
	return c
}

func TestVerif_C05real(t *testing.T) {
	k := verifkit.Start(t, "C05")
	prop := c05RealProp(k)
	k.Special = "real-clock"
	k.Regress(t, func(sub string, raw json.RawMessage) error { return verifkit.Decode(raw, prop) })
	verifkit.Rapid(k, t, "real-clock-reruns(old timer semantics)", k.N(1, 12), c05RealGen, prop)
}

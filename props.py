"""Per-property configuration of /verif/check."""

BUBBLE = ("virtual time via testing/synctest on the pre-installed go1.26.8; the staged go.mod "
          "sets godebug asynctimerchan=0 (required by synctest), language version stays go 1.22")
FAKES = "system.Conn / system.State / DialFunc / address, route and clock sources are in-memory fakes"
STAGED = ("harness runs as in-package tests in a throw-away copy of /repo's working tree; the "
          "repository's own _test.go files are not part of that build")

PROPS = {
    "C13": {
        "pkg": "internal/plugin",
        "files": ["plugin/zz_verif_common_test.go", "plugin/zz_verif_C13_test.go"],
        "run": "TestVerif_C13",
        "level": "exploration",
        "quick": {"shards": 4},
        "thorough": {"shards": 16},
        "rule": ("address lists: every sequence (with repetition, hence every sub-multiset in every order) of "
                 "length <=3 (quick) / <=4 (thorough) over a 14-entry pool mixing ULA/GUA/link-local/IPv4, "
                 "lengths 48/56/64/128 and every flag, plus rapid-generated lists of up to 40 addresses with a "
                 "drawn permutation/duplication; oracle = set specification (verifref.ExpandPrefixes) + "
                 "permutation invariance + source-error clause. Non-trivial: the list has at least one eligible "
                 "and one excluded address, or two addresses in one /64. Distinct: FNV-64 of the canonical JSON case."),
        "assumptions": [STAGED, "IPv4-mapped IPv6 addresses are not generated (the OS addressers filter them)"],
        "technique": "bounded-exhaustive enumeration + rapid property-based testing against a set-specification oracle; permutation metamorphic relation",
        "level_text": ("Every address listing up to the stated bound over the pool is checked exhaustively and large random "
                       "listings are sampled; the verdict is 'no counterexample in that space', not a proof for all listings."),
        "level_note": "Trusts the reference expansion in kit/verifref (written from the statement) and net/netip; the address source is injected through the plugin's exported Addrs field as Prepare would.",
    },
    "C14": {
        "pkg": "internal/plugin",
        "files": ["plugin/zz_verif_common_test.go", "plugin/zz_verif_C13_test.go", "plugin/zz_verif_C14_test.go"],
        "run": "TestVerif_C14",
        "level": "exploration",
        "quick": {"shards": 4},
        "thorough": {"shards": 16},
        "rule": ("address lists: every sequence of length <=3 (quick) / <=4 (thorough) over a 21-entry pool covering "
                 "class (ULA/GUA/link-local) x stability source (none, each flag, EUI-64) x exclusion flag, plus IPv4; "
                 "rapid-generated lists up to 30 with static server lists; oracle = total-order specification "
                 "(minimum of (not stable, class rank, address) over eligible addresses) + permutation invariance + "
                 "no-eligible-address/source-error => failure. Non-trivial: at least two eligible candidates of different rank."),
        "assumptions": [STAGED, "an automatic pick equal to a static server is counted as unspecified"],
        "technique": "bounded-exhaustive enumeration + rapid property-based testing against a total-order specification; permutation metamorphic relation",
        "level_text": "Exhaustive over short listings from a pool covering every ranking class, random beyond; counterexample search, not proof.",
        "level_note": "Trusts verifref.BestRDNSS (written from the statement and reference.toml) and net/netip; address source injected through RDNSS.Addrs.",
    },
    "C15": {
        "pkg": "internal/plugin",
        "files": ["plugin/zz_verif_common_test.go", "plugin/zz_verif_C13_test.go", "plugin/zz_verif_C15_test.go"],
        "run": "TestVerif_C15",
        "level": "exploration",
        "quick": {"shards": 4},
        "thorough": {"shards": 16},
        "rule": ("route dumps: every sequence of length <=3 (quick) / <=4 (thorough) over a 13-entry pool with nesting at "
                 "equal and different base addresses, /128s, ::/0, IPv4 and duplicates; rapid-generated dumps up to 24 "
                 "from a small prefix tree; oracle = maximal-element set specification + independent no-duplicate / "
                 "no-overlap post-conditions + permutation invariance. Non-trivial: the dump contains a nested pair or a duplicate."),
        "assumptions": [STAGED, "route dumps contain canonical (masked) destinations, as the kernel's table does"],
        "technique": "bounded-exhaustive enumeration + rapid property-based testing against a set specification; permutation metamorphic relation",
        "level_text": "Exhaustive over short dumps from a pool built around the nesting cases, random beyond; counterexample search, not proof.",
        "level_note": "Trusts verifref.ExpandRoutes and net/netip; route source injected through Route.Routes.",
    },
    "C16": {
        "pkg": "internal/plugin",
        "files": ["plugin/zz_verif_common_test.go", "plugin/zz_verif_C13_test.go", "plugin/zz_verif_C16_test.go"],
        "run": "TestVerif_C16",
        "level": "exploration",
        "quick": {"shards": 4},
        "thorough": {"shards": 16},
        "bubble": True,
        "rule": ("(epoch, valid, preferred<=valid, route lifetime) incl. sub-second and multi-year values x non-decreasing "
                 "sequences of 2..60 clock readings placed at deadline-1ns/deadline/deadline+1ns, before the epoch, repeated; "
                 "injected clock, and (1 in 5) the real time.Now with monotonic reading inside a synctest bubble; static and "
                 "wildcard stanzas; oracle = closed formula + monotonicity/non-negativity/preferred<=valid + constant twins. "
                 "Non-trivial: the sequence crosses at least one deadline."),
        "assumptions": [STAGED, BUBBLE],
        "technique": "rapid property-based testing of clock-reading histories against a closed formula and history invariants",
        "level_text": "Random histories biased to the deadlines; counterexample search, not proof.",
        "level_note": "Trusts verifref.Remaining and package time; clock injected through the plugins' TimeNow field (or the bubble's fake clock).",
    },
}

NOT_APPLICABLE = {}

"""Per-property configuration of /verif/check."""

BUBBLE = ("virtual time via testing/synctest on the pre-installed go1.26.8; the staged go.mod "
          "sets godebug asynctimerchan=0 (required by synctest), language version stays go 1.22")
FAKES = "system.Conn / system.State / DialFunc / address, route and clock sources are in-memory fakes"
STAGED = ("harness runs as in-package tests in a throw-away copy of /repo's working tree; the "
          "repository's own _test.go files are not part of that build")

PROPS = {
    "C13": {
        "pkg": "internal/plugin",
        "files": ["plugin/zz_verif_common_test.go", "plugin/zz_verif_C13_test.go"],
        "run": "TestVerif_C13",
        "level": "exploration",
        "quick": {"shards": 4},
        "thorough": {"shards": 16},
        "rule": ("address lists: every sequence (with repetition, hence every sub-multiset in every order) of "
                 "length <=3 (quick) / <=4 (thorough) over a 14-entry pool mixing ULA/GUA/link-local/IPv4, "
                 "lengths 48/56/64/128 and every flag, plus rapid-generated lists of up to 40 addresses with a "
                 "drawn permutation/duplication; oracle = set specification (verifref.ExpandPrefixes) + "
                 "permutation invariance + source-error clause. Non-trivial: the list has at least one eligible "
                 "and one excluded address, or two addresses in one /64. Distinct: FNV-64 of the canonical JSON case."),
        "assumptions": [STAGED, "IPv4-mapped IPv6 addresses are not generated (the OS addressers filter them)"],
        "technique": "bounded-exhaustive enumeration + rapid property-based testing against a set-specification oracle; permutation metamorphic relation",
        "level_text": ("Every address listing up to the stated bound over the pool is checked exhaustively and large random "
                       "listings are sampled; the verdict is 'no counterexample in that space', not a proof for all listings."),
        "level_note": "Trusts the reference expansion in kit/verifref (written from the statement) and net/netip; the address source is injected through the plugin's exported Addrs field as Prepare would.",
    },
}

NOT_APPLICABLE = {}

"""Per-property configuration of /verif/check."""

BUBBLE = ("virtual time via testing/synctest on the pre-installed go1.26.8; the staged go.mod "
          "sets godebug asynctimerchan=0 (required by synctest), language version stays go 1.22")
FAKES = "system.Conn / system.State / DialFunc / address, route and clock sources are in-memory fakes"
STAGED = ("harness runs as in-package tests in a throw-away copy of /repo's working tree; the "
          "repository's own _test.go files are not part of that build")

PROPS = {
    "C13": {
        "pkg": "internal/plugin",
        "files": ["plugin/zz_verif_common_test.go", "plugin/zz_verif_C13_test.go"],
        "run": "TestVerif_C13",
        "level": "exploration",
        "quick": {"shards": 4},
        "thorough": {"shards": 16},
        "rule": ("address lists: every sequence (with repetition, hence every sub-multiset in every order) of "
                 "length <=3 (quick) / <=4 (thorough) over a 14-entry pool mixing ULA/GUA/link-local/IPv4, "
                 "lengths 48/56/64/128 and every flag, plus rapid-generated lists of up to 40 addresses with a "
                 "drawn permutation/duplication; oracle = set specification (verifref.ExpandPrefixes) + "
                 "permutation invariance + source-error clause. Non-trivial: the list has at least one eligible "
                 "and one excluded address, or two addresses in one /64. Distinct: FNV-64 of the canonical JSON case."),
        "assumptions": [STAGED, "IPv4-mapped IPv6 addresses are not generated (the OS addressers filter them)"],
        "technique": "bounded-exhaustive enumeration + rapid property-based testing against a set-specification oracle; permutation metamorphic relation",
        "level_text": ("Every address listing up to the stated bound over the pool is checked exhaustively and large random "
                       "listings are sampled; the verdict is 'no counterexample in that space', not a proof for all listings."),
        "level_note": "Trusts the reference expansion in kit/verifref (written from the statement) and net/netip; the address source is injected through the plugin's exported Addrs field as Prepare would.",
    },
    "C14": {
        "pkg": "internal/plugin",
        "files": ["plugin/zz_verif_common_test.go", "plugin/zz_verif_C13_test.go", "plugin/zz_verif_C14_test.go"],
        "run": "TestVerif_C14",
        "level": "exploration",
        "quick": {"shards": 4},
        "thorough": {"shards": 16},
        "rule": ("address lists: every sequence of length <=3 (quick) / <=4 (thorough) over a 21-entry pool covering "
                 "class (ULA/GUA/link-local) x stability source (none, each flag, EUI-64) x exclusion flag, plus IPv4; "
                 "rapid-generated lists up to 30 with static server lists; oracle = total-order specification "
                 "(minimum of (not stable, class rank, address) over eligible addresses) + permutation invariance + "
                 "no-eligible-address/source-error => failure. Non-trivial: at least two eligible candidates of different rank."),
        "assumptions": [STAGED, "an automatic pick equal to a static server is counted as unspecified"],
        "technique": "bounded-exhaustive enumeration + rapid property-based testing against a total-order specification; permutation metamorphic relation",
        "level_text": "Exhaustive over short listings from a pool covering every ranking class, random beyond; counterexample search, not proof.",
        "level_note": "Trusts verifref.BestRDNSS (written from the statement and reference.toml) and net/netip; address source injected through RDNSS.Addrs.",
    },
    "C15": {
        "pkg": "internal/plugin",
        "files": ["plugin/zz_verif_common_test.go", "plugin/zz_verif_C13_test.go", "plugin/zz_verif_C15_test.go"],
        "run": "TestVerif_C15",
        "level": "exploration",
        "quick": {"shards": 4},
        "thorough": {"shards": 16},
        "rule": ("route dumps: every sequence of length <=3 (quick) / <=4 (thorough) over a 13-entry pool with nesting at "
                 "equal and different base addresses, /128s, ::/0, IPv4 and duplicates; rapid-generated dumps up to 24 "
                 "from a small prefix tree; oracle = maximal-element set specification + independent no-duplicate / "
                 "no-overlap post-conditions + permutation invariance. Non-trivial: the dump contains a nested pair or a duplicate."),
        "assumptions": [STAGED, "route dumps contain canonical (masked) destinations, as the kernel's table does"],
        "technique": "bounded-exhaustive enumeration + rapid property-based testing against a set specification; permutation metamorphic relation",
        "level_text": "Exhaustive over short dumps from a pool built around the nesting cases, random beyond; counterexample search, not proof.",
        "level_note": "Trusts verifref.ExpandRoutes and net/netip; route source injected through Route.Routes.",
    },
    "C16": {
        "pkg": "internal/plugin",
        "files": ["plugin/zz_verif_common_test.go", "plugin/zz_verif_C13_test.go", "plugin/zz_verif_C16_test.go"],
        "run": "TestVerif_C16",
        "level": "exploration",
        "quick": {"shards": 4},
        "thorough": {"shards": 16},
        "bubble": True,
        "rule": ("(epoch, valid, preferred<=valid, route lifetime) incl. sub-second and multi-year values x non-decreasing "
                 "sequences of 2..60 clock readings placed at deadline-1ns/deadline/deadline+1ns, before the epoch, repeated; "
                 "injected clock, and (1 in 5) the real time.Now with monotonic reading inside a synctest bubble; static and "
                 "wildcard stanzas; oracle = closed formula + monotonicity/non-negativity/preferred<=valid + constant twins. "
                 "Non-trivial: the sequence crosses at least one deadline."),
        "assumptions": [STAGED, BUBBLE],
        "technique": "rapid property-based testing of clock-reading histories against a closed formula and history invariants",
        "level_text": "Random histories biased to the deadlines; counterexample search, not proof.",
        "level_note": "Trusts verifref.Remaining and package time; clock injected through the plugins' TimeNow field (or the bubble's fake clock).",
    },
    "C02": {
        "pkg": "internal/config",
        "files": ["shared/zz_verif_doc_test.go", "config/zz_verif_common_test.go", "config/zz_verif_C02_test.go"],
        "run": "TestVerif_C02",
        "level": "exploration",
        "quick": {"shards": 8},
        "thorough": {"shards": 16, "timeout_s": 5400},
        "rule": ("TOML documents rendered from a generated document model of the whole key grammar of reference.toml: mostly "
                 "valid documents with 0..3 perturbed keys (boundary limit-1/limit/limit+1 in several spellings, negative, "
                 "overflowing, malformed, wrong wildcard, IPv4, host bits, duplicates, overlaps, unknown keys, bad naming), "
                 "1..3 interfaces, all stanza kinds interleaved; an exhaustive single-key boundary sweep (every duration key x "
                 "~80 boundary values and spellings, max x min / max x default_lifetime grids, every whole-second max_interval, "
                 "CIDR classes for prefix/route/pref64, overlap matrix); plus byte strings (raw, token soup, mutated documents) "
                 "judged for totality. Oracle: three-valued reference validator written from the statement and reference.toml "
                 "(accept with the exact expected Config / reject / unspecified). Non-trivial: at least one perturbed or boundary "
                 "key, or an interaction (explicit max with explicit min/default_lifetime, multi-name expansion, deprecated stanza); "
                 "for byte strings: non-empty. Distinct: FNV-64 of the canonical JSON case."),
        "assumptions": [STAGED, "debug addresses are IP literals or localhost (Parse resolves the address; the sandbox has no resolver)",
                        "cases listed in DESIGN.md 5.2 are counted as unspecified and not judged"],
        "technique": "rapid property-based testing + bounded-exhaustive boundary sweep against a three-valued reference validator; byte-level totality",
        "level_text": "Generated-input search over the key grammar with an exhaustive boundary sweep per key; finds accept/reject and default errors in the explored space, does not prove their absence.",
        "level_note": "Trusts the reference validator in harness/config/zz_verif_common_test.go and go-toml's decoding of type-correct documents.",
    },
    "C01": {
        "pkg": "internal/config",
        "files": ["shared/zz_verif_doc_test.go", "config/zz_verif_common_test.go", "config/zz_verif_C02_test.go", "config/zz_verif_C01_test.go"],
        "run": "TestVerif_C01",
        "level": "exploration",
        "quick": {"shards": 8},
        "thorough": {"shards": 16, "timeout_s": 5400},
        "rule": ("accepted TOML documents (generated document model, all stanza kinds 0..n, static and wildcard, 1..3 interfaces) x system "
                 "state (address list with flags, loopback route dump, MAC present/absent, forwarding, clock reading, source failures) x "
                 "repeat count 1..4; exhaustive presence/absence of the 8 option kinds x {static, wildcard}. Path: config.Parse -> sources "
                 "injected as Prepare does -> Interface.RouterAdvertisement. Oracle: RA computed from the document model and state alone "
                 "(header, option order, wildcard expansions by the C13-C15 specifications, deprecated lifetimes by the C16 formula, exact "
                 "PREF64 lifetime), idempotence, configuration unchanged. Non-trivial: >=2 option kinds, a wildcard with successful "
                 "generation, a deprecated stanza or a non-default header field. Distinct: FNV-64 of the canonical JSON case."),
        "assumptions": [STAGED, "documents the C02 reference does not accept are skipped (counted in class not-an-accepted-configuration)",
                        "the Advertiser path (buildRA -> Conn.WriteTo) is covered by the corerad harnesses (C04, C07) with the same oracle"],
        "technique": "rapid property-based testing + bounded-exhaustive enumeration against a reference RA builder; idempotence metamorphic relation",
        "level_text": "Generated configurations and system states compared with an independently computed RA; counterexample search, not proof.",
        "level_note": "Trusts expectRA/reference in harness/shared/zz_verif_doc_test.go and kit/verifref; sources injected through the plugins' exported fields.",
    },
    "C03": {
        "pkg": "internal/config",
        "files": ["shared/zz_verif_doc_test.go", "config/zz_verif_common_test.go", "config/zz_verif_C02_test.go", "config/zz_verif_C01_test.go", "config/zz_verif_C03_test.go"],
        "run": "TestVerif_C03",
        "level": "exploration",
        "quick": {"shards": 8},
        "thorough": {"shards": 16, "timeout_s": 5400},
        "rule": ("documents that config.Parse accepts (the reference validator is not consulted), generated as mostly valid documents with "
                 "hostile edits: every duration key set to negative / sub-second / fractional / 65535s / 65536s / 2^32-1 s / 2^32 s / 2000000h / "
                 "infinite, arbitrary CIDR strings for pref64 (IPv4, /33, /128, host bits), captive-portal URIs of 1..255 bytes, LDH domain "
                 "names; x system state; exhaustive sweep of every duration key x hostile value, every pref64 CIDR class, every URI length 1..256. "
                 "Oracle: every duration within its field's range; ndp.MarshalMessage succeeds; ndp.ParseMessage of the bytes equals the RA up to "
                 "truncation to the field's unit (PREF64 compared exactly, prefix masked). Non-trivial: a duration that is not a whole number of "
                 "units, a value within 2 of a field limit, or a pref64 / captive portal option. Distinct: FNV-64 of the canonical JSON case."),
        "assumptions": [STAGED, "DNS names are well-formed LDH names without punycode labels; option element counts stay within one option",
                        "states for which RA generation fails are skipped (counted)"],
        "technique": "rapid property-based testing + exhaustive boundary sweep with an encode/decode round-trip oracle",
        "level_text": "Round-trip of generated accepted configurations through the real codec; counterexample search, not proof.",
        "level_note": "Trusts github.com/mdlayher/ndp's decoder as the reader of the wire format.",
    },
    "C12": {
        "pkg": "internal/corerad",
        "files": ["corerad/zz_verif_C12_test.go"],
        "run": "TestVerif_C12",
        "level": "exploration",
        "quick": {"shards": 8},
        "thorough": {"shards": 16},
        "rule": ("pairs (own RA, received RA): exhaustive over 17 aspects (hop limit, M, O, reachable, retransmit, MTU, prefix lifetimes, prefix "
                 "identity, route lifetime, route preference, RDNSS lifetime/servers/count, DNSSL lifetime/names/count, captive portal) x classes "
                 "{absent/zero, x, y} on each side, singly and in all pairs; rapid-generated larger RAs (several prefixes/routes, shuffled option "
                 "order, unknown options, PREF64, SLLA; theirs derived from ours by edits half of the time). Every received RA is checked as built "
                 "and after MarshalMessage/ParseMessage. Oracle: independent rule list from the statement, compared as multisets of (field, details) "
                 "with verifyRAs, with the inconsistencies_total counter, the log lines and the hook of Advertiser.handle (ours built by buildRA from "
                 "a configuration); own RA after a wire round trip => empty report. Non-trivial: at least one aspect present on both sides or one "
                 "expected inconsistency. Distinct: FNV-64 of the canonical JSON case."),
        "assumptions": [STAGED, "durations are unit-aligned; count-down (deprecated) lifetimes are excluded as the code documents; prefixes/routes unique within one RA",
                        "a hop-limit difference with a zero on either side is unspecified"],
        "technique": "bounded-exhaustive enumeration + rapid property-based testing, differential against an independent RFC 4861 6.2.7 rule list, through the wire codec",
        "level_text": "Exhaustive over aspect classes in singles and pairs, random beyond; soundness and completeness of the report judged against an independent rule list.",
        "level_note": "Trusts the rule list c12Expected (written from the statement) and the ndp codec.",
    },
}

NOT_APPLICABLE = {}

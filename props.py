"""Per-property configuration of /verif/check."""

BUBBLE = ("virtual time via testing/synctest on the pre-installed go1.26.8; the staged go.mod "
          "sets godebug asynctimerchan=0 (required by synctest), language version stays go 1.22")
FAKES = "system.Conn / system.State / DialFunc / address, route and clock sources are in-memory fakes (the fake connection attaches an interface zone to every source address and strips it from destinations, as ndp.Conn does)"
STAGED = ("harness runs as in-package tests in a throw-away copy of /repo's working tree; the "
          "repository's own _test.go files are not part of that build")

DIAL_PATCHES = [
    {"name": "dial-lookupInterface", "file": "internal/system/dialer.go", "pattern": r"\blookupInterface\(d\.iface\)", "repl": "vkLookupInterface(d.iface)", "count": 1},
    {"name": "dial-checkInterface", "file": "internal/system/dialer.go", "pattern": r"\bcheckInterface\(ifi, ifi\.Addrs\)", "repl": "vkCheckInterface(ifi, ifi.Addrs)", "count": 1},
    {"name": "dial-dialNDP", "file": "internal/system/dialer.go", "pattern": r"\bdialNDP\(ifi\)", "repl": "vkDialNDP(ifi)", "count": 1},
]
SYSCTL_PATCHES = [
    {"name": "sysctl-read", "file": "internal/system/interface_linux.go", "pattern": r"os\.ReadFile\(file\)", "repl": "vkReadSysctl(file)", "count": 1},
    {"name": "sysctl-write", "file": "internal/system/interface_linux.go", "pattern": r"os\.WriteFile\(sysctl\(iface, key\), in, 0o644\)", "repl": "vkWriteSysctl(sysctl(iface, key), in, os.FileMode(0o644))", "count": 1},
]
E2E_PATCHES = DIAL_PATCHES + [
    {"name": "os-NewState", "file": "internal/system/state.go", "pattern": r"func NewState\(\) State \{ return systemState\{\} \}", "repl": "func NewState() State { return vkNewState() }", "count": 1},
    {"name": "os-rtnetlink", "file": "internal/system/addresser_linux.go", "pattern": r"return &addresser\{execute: rtnlExecute\}", "repl": "return &addresser{execute: vkExecute}", "count": 1},
]


def e2e_part(run):
    """The whole-process part: cmd/corerad's unmodified main() as a child process on a fake OS (harness/e2e)."""
    return {"pkg": "cmd/corerad", "pkgname": "main", "run": run,
            "files": ["shared/zz_verif_doc_test.go", "e2e/zz_verif_main_test.go"],
            "extra_files": [{"src": "e2e/zz_verif_fakeos.go", "dst": "internal/system/zz_verif_fakeos.go"}],
            "patches": E2E_PATCHES, "shards": {"quick": 12, "thorough": 16},
            "old_timers": True}  # the timer channels of the binary as shipped (the module says go 1.22)


WHOLE = ("whole-process part: the unmodified main() of cmd/corerad runs as a child process (the staged test binary re-executed) with real "
         "flag parsing, configuration file, epoch = process start, signal.Notify, NOTIFY_SOCKET, HTTP listener, link watcher, BuildTasks, "
         "Serve, Dialer and dial(); only dial()'s three OS-facing callees, system.NewState and the rtnetlink execute hook are renamed "
         "(staged copy) to a fake OS that reads a generated world file and logs every open/close/write/sysctl access. Real time: lifetimes "
         "that count down are compared with the interval implied by [spawn, ready] x [request, response]; a case over its 30 s budget is "
         "retried, then skipped and counted; a violation is reported only if it reproduces on a second run of the case")
C11_SYSCTL = (" Sysctl part: the same enumerations (depth <= 3), the 1..300 recovery rounds and 1500 / 200000 random sequences with the real "
              "system.NewState() and interface_linux.go: their two file primitives are renamed (staged copy) to a simulated /proc/sys that maps "
              "/proc/sys/net/ipv6/conf/<interface>/<key> to a scratch directory, acts like the kernel (accepts 0/1 with optional newline, reads back "
              "\"N\\n\", cannot create files), injects the scripted permission / not-exist / I/O failures and logs in the format of the recording State, "
              "so the same host-state oracle applies; any other path, key or value, or a final file content different from the last successful write, is a violation.")
E2E_RULE = {
    "C04": (" Whole-process part (24 / 1200 cases): once the process is up the forwarding state of every interface is inverted (the fake OS reads it per call); the "
            "debug API and /metrics read right afterwards, the answer to a solicitation 1.2 s after the start and the final RA must follow the new state (router "
            "lifetime, forwarding gauge, interface_not_forwarding gauge), RAs generated before the change the old one, those within 50 ms of it either."),
    "C18": (" Whole-process part (24 / 1200 cases): every monitoring interface of the running process receives an RA (M set, lifetime 1800 s, one prefix), the same RA "
            "with hop limit 64 and an RS; a scrape of the real /metrics afterwards must show exactly: received counters for the RA and the RS under their hosts, the "
            "M/O gauges, default-route and prefix expiry timestamps within [read, scrape] + lifetime, the prefix flags, one invalid RA - and nothing else for that interface."),
    "C12": (" Whole-process part (24 / 1200 cases): every advertising interface receives another router's RA that equals its own header with the M flag flipped (and a "
            "copy with hop limit 64): /metrics must show inconsistencies_total{field=managed_configuration} = 1 and no other inconsistency for that interface, and the log "
            "exactly one 'inconsistencies detected' line."),
    "C07": (" Whole-process part (24 / 1200 cases): after scripted traffic (valid and hop-limit-64 RS, a foreign RA and its hop-limit-64 copy) the real /metrics must show "
            "received-by-type and invalid-by-type counters equal to the messages read, and sent-by-type counters between the numbers of RAs the fake OS had logged 100 ms "
            "before the scrape began and when it ended."),
    "C11": (" Whole-process part (24 / 1200 cases, every mode of the whole-process generator: signals, a signal before Serve, missing and late interfaces, fatal and "
            "recoverable receive errors): when the process has ended every connection it opened was closed exactly once and left its group at most once, never two "
            "open at a time per interface, the autoconf setting of an advertising interface was written as (disable, restore previous value) once per connection, "
            "and that of other interfaces never."),
    "C10": (" Whole-process part (24 / 1200 cases): a permission-class receive error on one interface's connection (the process must exit with status 1, nothing is "
            "re-dialled), a recoverable one (ENETDOWN) on the first connection (exactly one re-dial of that interface, the failed connection closed once and before "
            "its successor is opened, nothing written to it afterwards, no other interface disturbed, clean stop on the signal that follows), and an interface that "
            "does not exist for its first 1..3 lookups (attempts at least min(j x 250 ms, 3 s) apart - lower bounds only, real time -, one connection after the first "
            "successful lookup); plus the supervision oracle of C20."),
    "C08": (" Whole-process part (36 / 1600 generated configurations x system states x signal {TERM, INT, HUP} x solicitations x wait 0..1.2 s): per "
            "advertising, forwarding interface with a non-zero lifetime the fake OS log must show exactly one zero-lifetime RA, to ff02::1, as the last "
            "write before the close on SIGTERM/SIGINT and none on SIGHUP."),
    "C16": (" Whole-process part (24 / 600 cases): a deprecated prefix (1 s..1 h) and route on every interface, probes of the debug API right after "
            "start and 1.1 / 2.1 s later plus every RA on the fake wire: each counted-down lifetime must lie in the interval implied by the process's "
            "start (epoch = time.Now() in main), also after a restart of the same configuration."),
    "C17": (" Whole-process part (36 / 1600 cases): GET /_/api/interfaces twice, GET /metrics (text exposition parsed: the four interface gauges, "
            "misconfiguration, one sample per prefix/route/RDNSS/DNSSL option, no others; 404 when disabled), every RA on the fake wire (initial, "
            "solicited - exactly one per valid RS, none for hop limit 64 -, final) against the expected RA; autoconf disabled then restored, untouched on "
            "non-advertising interfaces."),
    "C20": (" Whole-process part (36 / 1600 cases, one in four with an interface that does not exist): exit status 0 and no death by signal for "
            "SIGTERM/SIGINT/SIGHUP, exactly one connection per existing advertising/monitoring interface and none for others, each closed exactly "
            "once and nothing written after, READY=1 exactly once when every task came up and never while an interface task cannot initialise; one case in eight delivers the signal while main() is still between signal.Notify and Serve (held inside BuildTasks by an undrained stderr pipe): the process must stop all the same; and one case in eight sends no signal but lets one interface task hit a fatal (permission-class) receive error 0.3..1.5 s after start: every task must stop, every connection be closed once, and the process exit with status 1 reporting the failure."),
}

PROPS = {
    "C13": {
        "parts": [
            {"pkg": "internal/plugin", "files": ["plugin/zz_verif_common_test.go", "plugin/zz_verif_C13_test.go"], "run": "TestVerif_C13"},
            {"pkg": "internal/system", "files": ["system/zz_verif_os_test.go"], "run": "TestVerif_C13os"},
        ],
        "level": "exploration",
        "quick": {"shards": 4},
        "thorough": {"shards": 16},
        "rule": ("address lists: every sequence (with repetition, hence every sub-multiset in every order) of "
                 "length <=3 (quick) / <=4 (thorough) over a 14-entry pool mixing ULA/GUA/link-local/IPv4, "
                 "lengths 48/56/64/128 and every flag, plus rapid-generated lists of up to 40 addresses with a "
                 "drawn permutation/duplication; oracle = set specification (verifref.ExpandPrefixes) + "
                 "permutation invariance + source-error clause. Non-trivial: the list has at least one eligible "
                 "and one excluded address, or two addresses in one /64. OS half (package system): the real rtnetlink addresser with its execute hook "
                 "answering with generated kernel replies (every address flag bit singly and in pairs, valid-forever, prefix lengths; route dumps "
                 "with and without a preference attribute); oracle = field-by-field mapping of kernel flags to the address metadata the expansion "
                 "relies on, and the request sent (family, index, main table). Distinct: FNV-64 of the canonical JSON case."),
        "assumptions": [STAGED, "IPv4-mapped IPv6 addresses are not generated (the OS addressers filter them)"],
        "technique": "bounded-exhaustive enumeration + rapid property-based testing against a set-specification oracle; permutation metamorphic relation",
        "level_text": ("Every address listing up to the stated bound over the pool is checked exhaustively and large random "
                       "listings are sampled; the verdict is 'no counterexample in that space', not a proof for all listings."),
        "level_note": "Trusts the reference expansion in kit/verifref (written from the statement) and net/netip; the address source is injected through the plugin's exported Addrs field as Prepare would.",
    },
    "C14": {
        "parts": [
            {"pkg": "internal/plugin", "files": ["plugin/zz_verif_common_test.go", "plugin/zz_verif_C13_test.go", "plugin/zz_verif_C14_test.go"], "run": "TestVerif_C14"},
            {"pkg": "internal/system", "files": ["system/zz_verif_os_test.go"], "run": "TestVerif_C14os"},
            {"pkg": "internal/config", "files": ["config/zz_verif_C14cfg_test.go"], "run": "TestVerif_C14cfg"},
        ],
        "level": "exploration",
        "quick": {"shards": 6},
        "thorough": {"shards": 18},
        "rule": ("address lists: every sequence of length <=3 (quick) / <=4 (thorough) over a 23-entry pool covering "
                 "class (ULA/GUA/link-local) x stability source (none, each flag, EUI-64) x exclusion flag, plus IPv4; "
                 "rapid-generated lists up to 30 with static server lists; oracle = total-order specification "
                 "(minimum of (not stable, class rank, address) over eligible addresses) + permutation invariance + "
                 "no-eligible-address/source-error => failure. Non-trivial: at least two eligible candidates of different rank."),
        "assumptions": [STAGED, "an automatic pick equal to a static server is counted as unspecified"],
        "technique": "bounded-exhaustive enumeration + rapid property-based testing against a total-order specification; permutation metamorphic relation",
        "level_text": "Exhaustive over short listings from a pool covering every ranking class, random beyond; counterexample search, not proof.",
        "level_note": "Trusts verifref.BestRDNSS (written from the statement and reference.toml) and net/netip; address source injected through RDNSS.Addrs.",
    },
    "C15": {
        "parts": [
            {"pkg": "internal/plugin", "files": ["plugin/zz_verif_common_test.go", "plugin/zz_verif_C13_test.go", "plugin/zz_verif_C15_test.go"], "run": "TestVerif_C15"},
            {"pkg": "internal/system", "files": ["system/zz_verif_os_test.go"], "run": "TestVerif_C15os"},
        ],
        "level": "exploration",
        "quick": {"shards": 4},
        "thorough": {"shards": 16},
        "rule": ("route dumps: every sequence of length <=3 (quick) / <=4 (thorough) over a 13-entry pool with nesting at "
                 "equal and different base addresses, /128s, ::/0, IPv4 and duplicates; rapid-generated dumps up to 24 "
                 "from a small prefix tree; oracle = maximal-element set specification + independent no-duplicate / "
                 "no-overlap post-conditions + permutation invariance. Non-trivial: the dump contains a nested pair or a duplicate."),
        "assumptions": [STAGED, "route dumps contain canonical (masked) destinations, as the kernel's table does"],
        "technique": "bounded-exhaustive enumeration + rapid property-based testing against a set specification; permutation metamorphic relation",
        "level_text": "Exhaustive over short dumps from a pool built around the nesting cases, random beyond; counterexample search, not proof.",
        "level_note": "Trusts verifref.ExpandRoutes and net/netip; route source injected through Route.Routes.",
    },
    "C16": {
        "parts": [
            {"pkg": "internal/plugin", "run": "TestVerif_C16",
             "files": ["plugin/zz_verif_common_test.go", "plugin/zz_verif_C13_test.go", "plugin/zz_verif_C16_test.go"]},
            e2e_part("TestVerif_C16main"),
        ],
        "level": "exploration",
        "quick": {"shards": 4},
        "thorough": {"shards": 16},
        "bubble": True,
        "rule": ("(epoch, valid, preferred<=valid, route lifetime) incl. sub-second and multi-year values x non-decreasing "
                 "sequences of 2..60 clock readings placed at deadline-1ns/deadline/deadline+1ns, before the epoch, repeated; "
                 "injected clock, and (1 in 5) the real time.Now with monotonic reading inside a synctest bubble; static and "
                 "wildcard stanzas, the latter expanding to 1..20 prefixes / routes every one of which must carry the stanza's lifetimes; oracle = closed formula + monotonicity/non-negativity/preferred<=valid + constant twins. "
                 "Non-trivial: the sequence crosses at least one deadline."),
        "assumptions": [STAGED, BUBBLE],
        "technique": "rapid property-based testing of clock-reading histories against a closed formula and history invariants",
        "level_text": "Random histories biased to the deadlines; counterexample search, not proof.",
        "level_note": "Trusts verifref.Remaining and package time; clock injected through the plugins' TimeNow field (or the bubble's fake clock).",
    },
    "C02": {
        "pkg": "internal/config",
        "files": ["shared/zz_verif_doc_test.go", "config/zz_verif_common_test.go", "config/zz_verif_accepted_test.go", "config/zz_verif_C02_test.go", "config/zz_verif_fuzz_test.go"],
        "run": "TestVerif_C02",
        "fuzz": [{"target": "FuzzVerif_C02", "seconds": 180}],
        "level": "exploration",
        "quick": {"shards": 8},
        "thorough": {"shards": 16, "timeout_s": 5400},
        "rule": ("TOML documents rendered from a generated document model of the whole key grammar of reference.toml: mostly "
                 "valid documents with 0..3 perturbed keys (boundary limit-1/limit/limit+1 in several spellings, negative, "
                 "overflowing, malformed, wrong wildcard, IPv4, host bits, duplicates, overlaps, unknown keys, bad naming), "
                 "1..3 interfaces (a names list of up to 70 in one group in 36), all stanza kinds interleaved, 0..3 prefix and route stanzas per interface and 4..10 on one interface in six (the injected overlap then pairs with any stanza, at any position); an exhaustive single-key boundary sweep (every duration key x "
                 "~80 boundary values and spellings, max x min / max x default_lifetime grids, every whole-second max_interval, "
                 "CIDR classes for prefix/route/pref64, overlap matrix); plus byte strings (raw, token soup, mutated documents) "
                 "judged for totality and, when accepted, by a validity predicate over the resulting Config (every documented range, c02Accepted). Oracle: three-valued reference validator written from the statement and reference.toml "
                 "(accept with the exact expected Config / reject / unspecified). Non-trivial: at least one perturbed or boundary "
                 "key, or an interaction (explicit max with explicit min/default_lifetime, multi-name expansion, deprecated stanza); "
                 "for byte strings: non-empty. Distinct: FNV-64 of the canonical JSON case. Thorough tier only: 3 minutes of native coverage-guided "
                 "fuzzing (go test -fuzz, all cores) of Parse for totality and the same validity predicate, seeded with the minimal and reference configurations and hostile "
                 "constants; its executions are added to `evaluations` and reported under native_fuzzing."),
        "assumptions": [STAGED, "debug addresses are IP literals or localhost (Parse resolves the address; the sandbox has no resolver)",
                        "cases listed in DESIGN.md 5.2 are counted as unspecified and not judged"],
        "technique": "rapid property-based testing + bounded-exhaustive boundary sweep against a three-valued reference validator; byte-level totality",
        "level_text": "Generated-input search over the key grammar with an exhaustive boundary sweep per key; finds accept/reject and default errors in the explored space, does not prove their absence.",
        "level_note": "Trusts the reference validator in harness/config/zz_verif_common_test.go and go-toml's decoding of type-correct documents.",
    },
    "C01": {
        "parts": [
            {"pkg": "internal/config", "run": "TestVerif_C01",
             "files": ["shared/zz_verif_doc_test.go", "config/zz_verif_common_test.go", "config/zz_verif_accepted_test.go", "config/zz_verif_C02_test.go", "config/zz_verif_C01_test.go"]},
            {"pkg": "internal/corerad", "run": "TestVerif_C01adv",
             "files": ["shared/zz_verif_doc_test.go", "corerad/zz_verif_C12_test.go", "corerad/zz_verif_sim_test.go", "corerad/zz_verif_adv_test.go", "corerad/zz_verif_mon_test.go",
                       "corerad/zz_verif_C06_test.go", "corerad/zz_verif_C04_test.go", "corerad/zz_verif_C17_test.go", "corerad/zz_verif_C01adv_test.go"]},
            {"pkg": "internal/plugin", "run": "TestVerif_C01pref64", "files": ["plugin/zz_verif_pref64_test.go"], "shards": {"quick": 1, "thorough": 2}},
        ],
        "level": "exploration",
        "quick": {"shards": 8},
        "thorough": {"shards": 16, "timeout_s": 5400},
        "rule": ("accepted TOML documents (generated document model, all stanza kinds 0..n, static and wildcard, long stanza lists, 1..3 interfaces or up to 70 names) x system "
                 "state (address list with flags, loopback route dump - one state in five large: 5..20 addresses in 13 networks, 4..16 routes nested four deep -, MAC present/absent, forwarding, clock reading, source failures) x "
                 "repeat count 1..4; exhaustive presence/absence of the 8 option kinds x {static, wildcard}. Path: config.Parse -> sources "
                 "injected as Prepare does -> Interface.RouterAdvertisement. Oracle: RA computed from the document model and state alone "
                 "(header, option order, wildcard expansions by the C13-C15 specifications, deprecated lifetimes by the C16 formula, exact "
                 "PREF64 lifetime), idempotence, configuration unchanged. Non-trivial: >=2 option kinds, a wildcard with successful "
                 "generation, a deprecated stanza or a non-default header field. Distinct: FNV-64 of the canonical JSON case."),
        "assumptions": [STAGED, "documents the C02 reference does not accept are skipped (counted in class not-an-accepted-configuration)",
                        BUBBLE],
        "technique": "rapid property-based testing + bounded-exhaustive enumeration against a reference RA builder; idempotence metamorphic relation",
        "level_text": "Generated configurations and system states compared with an independently computed RA; counterexample search, not proof.",
        "level_note": "Trusts expectRA/reference in harness/shared/zz_verif_doc_test.go and kit/verifref; sources injected through the plugins' exported fields.",
    },
    "C03": {
        "pkg": "internal/config",
        "files": ["shared/zz_verif_doc_test.go", "config/zz_verif_common_test.go", "config/zz_verif_accepted_test.go", "config/zz_verif_C02_test.go", "config/zz_verif_C01_test.go", "config/zz_verif_C03_test.go", "config/zz_verif_fuzz03_test.go"],
        "run": "TestVerif_C03",
        "fuzz": [{"target": "FuzzVerif_C03", "seconds": 150}],
        "level": "exploration",
        "quick": {"shards": 8},
        "thorough": {"shards": 16, "timeout_s": 5400},
        "rule": ("documents that config.Parse accepts (the reference validator is not consulted), generated as mostly valid documents with "
                 "hostile edits: every duration key set to negative / sub-second / fractional / 65535s / 65536s / 2^32-1 s / 2^32 s / 2000000h / "
                 "infinite, arbitrary CIDR strings for pref64 (IPv4, /33, /128, host bits), captive-portal URIs of 1..255 bytes, LDH domain "
                 "names; x system state; exhaustive sweep of every duration key x hostile value, every pref64 CIDR class, every URI length 1..256. "
                 "Oracle: every duration within its field's range; ndp.MarshalMessage succeeds; ndp.ParseMessage of the bytes equals the RA up to "
                 "truncation to the field's unit (PREF64 compared exactly, prefix masked). Non-trivial: a duration that is not a whole number of "
                 "units, a value within 2 of a field limit, or a pref64 / captive portal option. Distinct: FNV-64 of the canonical JSON case."),
        "assumptions": [STAGED, "DNS names are well-formed LDH names without punycode labels; option element counts stay within one option",
                        "states for which RA generation fails are skipped (counted)"],
        "technique": "rapid property-based testing + exhaustive boundary sweep with an encode/decode round-trip oracle",
        "level_text": "Round-trip of generated accepted configurations through the real codec; counterexample search, not proof.",
        "level_note": "Trusts github.com/mdlayher/ndp's decoder as the reader of the wire format.",
    },
    "C12": {
        "parts": [
            {"pkg": "internal/corerad", "run": "TestVerif_C12", "shards": {"quick": 8, "thorough": 16},
             "files": ["corerad/zz_verif_C12_test.go"]},
            e2e_part("TestVerif_C12main"),
        ],
        "level": "exploration",
        "quick": {"shards": 8},
        "thorough": {"shards": 16},
        "rule": ("pairs (own RA, received RA): exhaustive over 17 aspects (hop limit, M, O, reachable, retransmit, MTU, prefix lifetimes, prefix "
                 "identity, route lifetime, route preference, RDNSS lifetime/servers/count, DNSSL lifetime/names/count, captive portal) x classes "
                 "{absent/zero, x, y} on each side, singly and in all pairs; rapid-generated larger RAs (several prefixes/routes - one case in four 6..30 options a side from a 16-prefix pool with several lengths per base address, our side overlap-free -, shuffled option "
                 "order, unknown options, PREF64, SLLA; theirs derived from ours by edits half of the time). Every received RA is checked as built "
                 "and after MarshalMessage/ParseMessage. Oracle: independent rule list from the statement, compared as multisets of (field, details) "
                 "with verifyRAs, with the inconsistencies_total counter, the log lines and the hook of Advertiser.handle (ours built by buildRA from "
                 "a configuration); own RA after a wire round trip => empty report. Non-trivial: at least one aspect present on both sides or one "
                 "expected inconsistency. Distinct: FNV-64 of the canonical JSON case."),
        "assumptions": [STAGED, "durations are unit-aligned; count-down (deprecated) lifetimes are excluded as the code documents; prefixes/routes unique within one RA",
                        "a hop-limit difference with a zero on either side is unspecified"],
        "technique": "bounded-exhaustive enumeration + rapid property-based testing, differential against an independent RFC 4861 6.2.7 rule list, through the wire codec",
        "level_text": "Exhaustive over aspect classes in singles and pairs, random beyond; soundness and completeness of the report judged against an independent rule list.",
        "level_note": "Trusts the rule list c12Expected (written from the statement) and the ndp codec.",
    },
    "C05": {
        "parts": [
            {"pkg": "internal/corerad", "files": ["corerad/zz_verif_C12_test.go", "corerad/zz_verif_sim_test.go", "corerad/zz_verif_C05_test.go"], "run": "TestVerif_C05",
             "shards": {"quick": 8, "thorough": 16}},
            {"pkg": "internal/corerad", "files": ["corerad/zz_verif_C05real_test.go"], "run": "TestVerif_C05real", "old_timers": True, "shards": {"quick": 1, "thorough": 4}},
        ],
        "level": "exploration",
        "bubble": True,
        "quick": {"shards": 8},
        "thorough": {"shards": 16},
        "rule": ("function level: every accepted (min,max) pair at one-second granularity (max 4..1800 s, min 3 s..0.75*max, min=max for max<9 s, "
                 "and the automatic 2 s minimum for max in [9,10) s) x advertisement index {0,1,2,3,4,10,1000} x forced random draws {0,1,range/2,"
                 "range-2,range-1, three seeded} through a scripted rand.Source handed to the real multicastDelay (thorough: the full grid, "
                 "exhaustive; quick: every boundary pair plus a stride-37 sample), plus rapid-generated fractional pairs; loop level: the real "
                 "multicast loop in a synctest bubble for 3..200 waits with a time-stamping consumer, PRNG seed varied by pre-advancing the fake "
                 "clock, cancelled at a generated instant. Oracle: wait > 0; index>=3: floor_s(min) <= wait <= ceil_s(max); index<3: wait <= 16 s and "
                 "(wait >= floor_s(min) or wait = 16 s); requests never stop before cancellation, none after, loop exits. Non-trivial: the initial "
                 "clamp is active, the draw is at an extreme, or a bound is fractional. Grid cases are distinct by construction (enumeration index); "
                 "random cases by FNV-64 of the canonical JSON case."),
        "assumptions": [STAGED, BUBBLE, "'recur forever' is checked as a bounded statement: the next request always arrives within max+2 s for up to 200 waits"],
        "technique": "bounded-exhaustive enumeration with a scripted random source + rapid property-based testing; real loop on virtual time (testing/synctest)",
        "level_text": "Exhaustive at one-second granularity over every accepted interval pair with forced extreme draws (thorough), sampled with all boundary pairs (quick); fractional pairs and the running loop sampled.",
        "level_note": "Trusts math/rand's reduction of a raw draw into [0,n) and testing/synctest's fake clock.",
    },
    "C06": {
        "parts": [
            {"pkg": "internal/corerad", "files": ["corerad/zz_verif_C12_test.go", "corerad/zz_verif_sim_test.go", "corerad/zz_verif_adv_test.go", "corerad/zz_verif_C06_test.go"], "run": "TestVerif_C06",
             "shards": {"quick": 8, "thorough": 16}},
            {"pkg": "internal/corerad", "files": ["corerad/zz_verif_C06real_test.go"], "run": "TestVerif_C06real", "old_timers": True, "shards": {"quick": 1, "thorough": 4}},
        ],
        "level": "exploration",
        "bubble": True,
        "quick": {"shards": 8},
        "thorough": {"shards": 16},
        "rule": ("histories of multicast triggers on a real Advertiser.Run in a synctest bubble (real 3 s constant): every history of <=3 (quick) / "
                 "<=4 (thorough) events with inter-arrival gaps from {0, 1 ns, 1.5 s, 3 s-1 ns, 3 s, 3 s+1 ns, 6 s} x {RS from ::, RS from a "
                 "unicast source, link event (re-initialisation)} x max_interval in {4 s, 7 s} (min=max, so periodic tick times are known exactly); "
                 "rapid-generated histories of up to 30 events with bursts of 1..40 solicitations inside a millisecond, random intervals, stop at a "
                 "generated instant. Oracle over the WriteTo log: consecutive writes to ff02::1 on one connection before the stop are >= 3 s apart; "
                 "every trigger (RS from :: at delivery, periodic tick at its known time) is followed by a multicast write within [t, t+3 s] unless a "
                 "stop or re-initialisation intervenes. Non-trivial: two triggers < 3 s apart, a trigger within 3 s of the previous multicast write, "
                 "or a fixed-interval configuration (ticks interact with the initial RA). Distinct: FNV-64 of the canonical JSON scenario."),
        "assumptions": [STAGED, BUBBLE, FAKES, "goroutine order at one virtual instant is whatever the Go scheduler picks; the oracle holds for every order"],
        "technique": "bounded-exhaustive enumeration of event histories on a time grid + rapid property-based testing; history invariants over exact virtual timestamps (testing/synctest)",
        "level_text": "Exhaustive over short histories on a grid around the 3 s boundary, random long bursty histories; counterexample search, not proof.",
        "level_note": "Trusts testing/synctest's fake clock and the in-memory Conn; timestamps are exact (zero processing time).",
    },
    "C07": {
        "parts": [
            {"pkg": "internal/corerad", "run": "TestVerif_C07", "shards": {"quick": 8, "thorough": 16},
             "files": ["corerad/zz_verif_C12_test.go", "corerad/zz_verif_sim_test.go", "corerad/zz_verif_adv_test.go", "corerad/zz_verif_C06_test.go", "corerad/zz_verif_C07_test.go"],
             "patches": [{"name": "rand-source", "file": "internal/corerad/advertise.go", "pattern": r"rand\.NewSource\(", "repl": "vkNewSource(", "count": 2}]},
            {"pkg": "internal/corerad", "files": ["corerad/zz_verif_C06real_test.go"], "run": "TestVerif_C07real", "old_timers": True, "shards": {"quick": 1, "thorough": 4}},
            e2e_part("TestVerif_C07main"),
        ],
        "level": "exploration",
        "bubble": True,
        "quick": {"shards": 8},
        "thorough": {"shards": 16},
        "rule": ("histories of up to 40 events on a real Advertiser.Run in a synctest bubble: solicitations from 6 link-local/global/ULA sources "
                 "(distinct and repeated, with and without SLLA option, bursts of up to 40 at one instant, gaps at 500 ms-1 ns/500 ms/500 ms+1 ns), "
                 "solicitations from ::, foreign RAs, link events, periodic RAs, unicast_only on/off, scripted transmit failures and latencies, stop at "
                 "a generated instant; one case in four forces the random delay draw to 0, 1, 250 ms, 499999998 or 499999999 ns through a scripted "
                 "rand.Source (staged call-site rename). Oracle: per (connection, source) a greedy earliest-first matching of solicitations to unicast "
                 "writes with delay in [0,500 ms) must be a bijection (no unanswered solicitation unless a stop/re-initialisation intervenes, no "
                 "spurious or double answer), content equals the configured RA, RS from :: => multicast within 3 s, unicast_only => no multicast "
                 "destination ever, sent/received/transmit-error counters and the last-multicast gauge recomputed from the write and read logs, and "
                 "over the whole run the observed delays are not all equal. Non-trivial: overlapping pending solicitations, a repeated source, a :: "
                 "source or unicast_only. Distinct: FNV-64 of the canonical JSON case."),
        "assumptions": [STAGED, BUBBLE, FAKES, "goroutine order at one virtual instant is sampled by the Go scheduler, not enumerated",
                        "messages_received_total for types other than RS/RA is not judged"],
        "technique": "rapid property-based testing of solicitation histories on virtual time (testing/synctest); bijection/matching oracle and counter model over exact timestamps; scripted random source for extreme draws",
        "level_text": "Random histories with exact virtual timestamps; counterexample search, not proof.",
        "level_note": "Trusts testing/synctest, the in-memory Conn and the greedy matching (optimal for equal-length windows).",
    },
    "C08": {
        "parts": [
            {"pkg": "internal/corerad", "run": "TestVerif_C08",
             "files": ["corerad/zz_verif_C12_test.go", "corerad/zz_verif_sim_test.go", "corerad/zz_verif_adv_test.go", "corerad/zz_verif_C06_test.go", "corerad/zz_verif_C08_test.go"]},
            e2e_part("TestVerif_C08main"),
        ],
        "level": "exploration",
        "bubble": True,
        "quick": {"shards": 8},
        "thorough": {"shards": 16},
        "rule": ("a real Advertiser.Run in a synctest bubble with a generated backlog at the stop instant: solicitations 0 ns..3 s before (or exactly at) "
                 "the stop, from unicast sources and ::, bursts up to 20, transmit latency 0..2 s per destination class, state-read latency, stop "
                 "instants at 0, 1 ns, 3 s-1 ns, 3 s, 3 s+1 ns and random, terminate/reload, configured lifetime 1800 s or 0; exhaustive matrix {idle, "
                 "response pending, multicast pending, unicast in flight, multicast in flight, RS at the stop instant} x {terminate, reload} x latency "
                 "{0, 1 ms, 700 ms} x lifetime {1800, 0}. The world is kept alive 10 virtual minutes after Run returned. Oracle: Run returns nil no later "
                 "than stop + remaining in-flight latencies + final RA (never waits for a pending delay); terminate => exactly one zero-lifetime RA to "
                 "ff02::1, equal to the normal RA otherwise, no write starts after it and none is still in flight when it starts; reload => none; no "
                 "write starts or completes after Run returned. Non-trivial: a transmission in flight at the stop instant or a solicitation read less "
                 "than 3 s before it. Distinct: FNV-64 of the canonical JSON scenario."),
        "assumptions": [STAGED, BUBBLE, FAKES, "unicast_only, dial failures and forwarding-off are excluded here (they make the final RA unidentifiable or impossible); goroutine order at one instant is sampled"],
        "technique": "rapid property-based testing + exhaustive situation matrix on virtual time (testing/synctest); ordering invariants over the write start/completion log",
        "level_text": "Generated stop instants against generated backlogs with exact timestamps; counterexample search, not proof.",
        "level_note": "Trusts testing/synctest and the in-memory Conn's scripted latencies.",
    },
    "C09": {
        "parts": [
            {"pkg": "internal/corerad", "run": "TestVerif_C09",
             "files": ["corerad/zz_verif_C12_test.go", "corerad/zz_verif_sim_test.go", "corerad/zz_verif_adv_test.go", "corerad/zz_verif_mon_test.go", "corerad/zz_verif_C06_test.go", "corerad/zz_verif_C07_test.go", "corerad/zz_verif_C09_test.go", "corerad/zz_verif_wire_test.go", "corerad/zz_verif_C09long_test.go"]},
            {"pkg": "internal/corerad", "run": "TestVerif_C09long",
             "files": ["corerad/zz_verif_C12_test.go", "corerad/zz_verif_sim_test.go", "corerad/zz_verif_adv_test.go", "corerad/zz_verif_mon_test.go", "corerad/zz_verif_C06_test.go", "corerad/zz_verif_C07_test.go", "corerad/zz_verif_C09_test.go", "corerad/zz_verif_wire_test.go", "corerad/zz_verif_C09long_test.go"]},
        ],
        "level": "exploration",
        "bubble": True,
        "quick": {"shards": 8},
        "thorough": {"shards": 16},
        "rule": ("message sequences for a running Advertiser (2/3) or Monitor (1/3) in a synctest bubble: segments of 0..40 consecutive invalid messages "
                 "(hop limit other than 255 on RS/RA/NS/NA; NS/NA on an advertiser) followed by 0..3 valid ones (RS with/without SLLA from 4 sources incl. "
                 "::, consistent and inconsistent RAs - one inconsistent RA in four with a prefix option whose length byte is 129 or 255 -), gaps 0 ns..3 s, ending with two valid solicitations from fresh sources; exhaustive single "
                 "messages for every hop limit 0..255 x {RS, RA, NS, NA} on the advertiser (every 16th on the monitor). Oracle: differential against the "
                 "same sequence with the invalid messages deleted (same transmissions per destination and content, same inconsistency reports and hook "
                 "calls, same monitor callbacks and gauges), the C07 matching rules for the valid solicitations, messages_received_invalid_total by "
                 "type = number of invalid messages, Run still running and no re-dial. Non-trivial: an invalid message followed by a valid one; runs "
                 ">= 5 (the receive retry budget) are a tracked class. A second process pushes runs of 300 000 (quick) / 3 000 000 (thorough) consecutive "
                 "invalid messages through a Monitor and an Advertiser with the goroutine stack limited to 32 MiB, then one valid message that must be "
                 "served (handling a message must not accumulate stack or budget). Distinct: FNV-64 of the canonical JSON case."),
        "assumptions": [STAGED, BUBBLE, FAKES, "the long-run part limits the Go stack to 32 MiB (runtime/debug.SetMaxStack): stack use per ignored message must be O(1)"],
        "technique": "rapid property-based testing + exhaustive single-message table; differential (metamorphic: delete invalid messages) on virtual time",
        "level_text": "Differential runs of generated sequences against their filtered versions; counterexample search, not proof.",
        "level_note": "Trusts testing/synctest and the in-memory Conn; message bodies are built as values (the decoder path is covered by C18's byte-level part).",
    },
    "C11": {
        "parts": [
            {"pkg": "internal/system", "files": ["system/zz_verif_policy_test.go"], "run": "TestVerif_C11", "patches": DIAL_PATCHES, "shards": {"quick": 4, "thorough": 8}},
            {"pkg": "internal/system", "files": ["system/zz_verif_policy_test.go"], "run": "TestVerif_C11sysctl", "patches": DIAL_PATCHES + SYSCTL_PATCHES, "shards": {"quick": 4, "thorough": 8}},
            {"pkg": "internal/system", "files": ["system/zz_verif_two_test.go"], "run": "TestVerif_C11two", "race": True, "tiers": ["quick"], "shards": {"quick": 2, "thorough": 2}},
            # (the race runtime fails under hundreds of thousands of bubbles - section 9 -, so the thorough tier runs this part without it)
            {"pkg": "internal/system", "files": ["system/zz_verif_two_test.go"], "run": "TestVerif_C11two", "tiers": ["thorough"], "shards": {"quick": 2, "thorough": 8}},
            e2e_part("TestVerif_C11main"),
        ],
        "level": "fault_enumeration",
        "bubble": True,
        "quick": {"shards": 8},
        "thorough": {"shards": 16},
        "rule": ("fault sequences on the real Dialer.Dial + the real dial() (its three OS-facing callees lookupInterface/checkInterface/dialNDP renamed to "
                 "recording fakes in the staged copy) on virtual time: every distinct execution of <=3 (quick) / <=5 (thorough) decisions over dial "
                 "outcomes {ok, link-not-ready, syscall, permission, other} and task outcomes {nil, link change, syscall, permission, retries "
                 "exhausted, other} x cancellation {none, during the run} x mode {Advertise, Monitor} x initial autoconf {on, off} x one State failure "
                 "{permission, not-exist, other} at each of the first 6 State calls; 1..300 recovery rounds within one Dial call (two recoverable causes, 0..2 failing attempts per round, three endings); rapid-generated sequences up to 60 decisions with up to 12 "
                 "scripted State failures. Oracle: host-state model over the unified log - a connection is never opened while another is open, every "
                 "connection is closed exactly once and before Dial returns (also when dial fails after opening the socket), autoconf is read/written "
                 "only during a dial or a restore, never in Monitor mode, the value restored is the value read at that dial, exactly one restore per "
                 "held connection before the next open, final value = initial unless a restore failed, non-tolerated restore errors are reported and "
                 "tolerated ones are not. Non-trivial: >=2 dials or >=1 injected State failure. Distinct: FNV-64 of the canonical JSON case."),
        "assumptions": [STAGED, BUBBLE, "the kernel setting is represented by the system.State interface; interface_linux.go and the raw socket are not executed"],
        "technique": "bounded-exhaustive fault-sequence enumeration (model-driven DFS) + rapid property-based testing; host-state model checked on the recorded call log",
        "level_text": "Every execution up to the depth bound with a single State fault at every call position, random deeper sequences with several faults.",
        "level_note": "Trusts the recording fakes and the log scanner c11Oracle; if the call-site renames do not apply (refactored dial()), the check reports itself as skipped/inconclusive rather than passing.",
    },
    "C10": {
        "parts": [
            {"pkg": "internal/system", "files": ["system/zz_verif_policy_test.go"], "run": "TestVerif_C10policy", "shards": {"quick": 4, "thorough": 8},
             "patches": [
                {"name": "dial-lookupInterface", "file": "internal/system/dialer.go", "pattern": r"\blookupInterface\(d\.iface\)", "repl": "vkLookupInterface(d.iface)", "count": 1},
                {"name": "dial-checkInterface", "file": "internal/system/dialer.go", "pattern": r"\bcheckInterface\(ifi, ifi\.Addrs\)", "repl": "vkCheckInterface(ifi, ifi.Addrs)", "count": 1},
                {"name": "dial-dialNDP", "file": "internal/system/dialer.go", "pattern": r"\bdialNDP\(ifi\)", "repl": "vkDialNDP(ifi)", "count": 1}]},
            e2e_part("TestVerif_C10main"),
            {"pkg": "internal/system", "files": ["system/zz_verif_policy_test.go"], "run": "TestVerif_C10real", "old_timers": True, "shards": {"quick": 1, "thorough": 4},
             "patches": DIAL_PATCHES},
            {"pkg": "internal/corerad", "run": "TestVerif_C10wiring", "files": ["corerad/zz_verif_C10wire_test.go"], "shards": {"quick": 1, "thorough": 1}},
            {"pkg": "internal/corerad", "run": "TestVerif_C10live", "shards": {"quick": 4, "thorough": 8},
             "files": ["corerad/zz_verif_C12_test.go", "corerad/zz_verif_sim_test.go", "corerad/zz_verif_adv_test.go", "corerad/zz_verif_mon_test.go",
                       "corerad/zz_verif_C06_test.go", "corerad/zz_verif_C07_test.go", "corerad/zz_verif_C09_test.go", "corerad/zz_verif_wire_test.go", "corerad/zz_verif_C10_test.go"]},
        ],
        "level": "fault_enumeration",
        "bubble": True,
        "quick": {"shards": 8},
        "thorough": {"shards": 16},
        "rule": ("policy layer (package system): the real Dialer.Dial on virtual time with scripted DialFunc and task; every distinct execution of <=4 "
                 "(quick) / <=6 (thorough) decisions over dial outcomes {ok, link-not-ready, syscall, permission, other} x task outcomes {nil, link "
                 "change, syscall, permission, retries exhausted, other} x 7 cancellation instants (off the 250 ms grid), enumerated by a model-driven "
                 "DFS; the same executions of <=3 decisions over the real dial() (real checkInterface on scripted link flags / address dumps, failures injected at the lookup, readiness-check or socket stage); 48..53 consecutive failing attempts around the 50-attempt bound; 1..300 recovery rounds within one Dial call; rapid-generated scripts up to 60 decisions. Oracle: reference "
                 "model of the policy (which steps happen, the virtual time of every dial attempt - waits 0, 250 ms, ... capped at 3 s, at most 50 - "
                 "the final result and its time); the observed trace must equal it. Liveness layer (package corerad): a fault {1..20 receive "
                 "timeouts, read error syscall/permission/other, link event, failing n-th scheduled unicast write syscall/other, an outage = every write from the n-th on fails on the first connection} injected at a "
                 "generated instant into a running Advertiser or Monitor with traffic pending (bursts up to 60 RS), scripted failures of the "
                 "following dial attempts, optional later cancellation, transmit latency; exhaustive fault matrix. Oracle: < 5 timeouts change "
                 "nothing; otherwise within 1 s + latencies the old connection is never used again and either a dial attempt follows (recoverable "
                 "causes) or Run returns the error without re-dialling (other causes); cancellation returns nil promptly. Non-trivial: >= 1 fault. "
                 "Distinct: FNV-64 of the canonical JSON case."),
        "assumptions": [STAGED, BUBBLE, FAKES, "non-recoverable dial errors inside a back-off loop are unspecified (counted, not judged)",
                        "cancellation instants are placed off the timer grid: a cancellation at exactly the instant a timer fires is a legitimate race",
                        "a failing SetReadDeadline (nothing can then interrupt the blocked read) is outside the fault model"],
        "technique": "bounded-exhaustive fault-sequence enumeration (model-driven DFS) + rapid property-based testing against a reference policy model; fault injection into the running task on virtual time",
        "level_text": "All executions up to the depth bound compared with a reference policy trace (times included); injected faults into the running task sampled and tabulated.",
        "level_note": "Trusts the reference model polModel (written from the statement), testing/synctest, and the in-memory fakes.",
    },
    "C04": {
        "parts": [
            {"pkg": "internal/corerad", "run": "TestVerif_C04", "shards": {"quick": 8, "thorough": 16},
             "files": ["corerad/zz_verif_C12_test.go", "corerad/zz_verif_sim_test.go", "corerad/zz_verif_adv_test.go", "corerad/zz_verif_mon_test.go", "corerad/zz_verif_C06_test.go", "corerad/zz_verif_C04_test.go"]},
            {"pkg": "internal/system", "run": "TestVerif_C04sysctl", "files": ["system/zz_verif_C04sysctl_test.go"], "shards": {"quick": 1, "thorough": 2}},
            e2e_part("TestVerif_C04main"),
        ],
        "level": "exploration",
        "bubble": True,
        "quick": {"shards": 8},
        "thorough": {"shards": 16},
        "rule": ("histories of 2..14 timed operations on a real Advertiser.Run in a synctest bubble: forwarding flips of the advertising interface and "
                 "of up to two (one case in eight: 7..100) further configured interfaces and 0..3 monitoring / idle interfaces configured before it, RS from unicast sources and ::, periodic RAs, foreign inconsistent RAs (the hook exposes "
                 "CoreRAD's own RA), metric scrapes (constScrape with fresh collectors) and GET /_/api/interfaces (crhttp handler sharing the same "
                 "config.Interface values), stop with terminate; default_lifetime in {0, 12 s, 1800 s, 9000 s}; exhaustive matrix {paths} x {forwarding "
                 "before/after a flip, no flip} x lifetime {0, 1800, 9000}. Oracle per generated RA, with f = forwarding at that instant from the "
                 "flip log (either value accepted when a flip has exactly the same timestamp): lifetime 0 iff not f (or final RA), all other content "
                 "unchanged; forwarding gauge = f; interface_not_forwarding gauge present iff not f and configured lifetime > 0, per interface; API "
                 "router_lifetime_seconds; number of 'not configured for IPv6 forwarding' log lines = number of advertiser-generated RAs with not f and "
                 "lifetime > 0. Non-trivial: a flip followed by a generation, on >= 2 different paths. Distinct: FNV-64 of the canonical JSON case."),
        "assumptions": [STAGED, BUBBLE, FAKES],
        "technique": "rapid property-based testing of flip/generation histories on virtual time + exhaustive path matrix; per-RA history invariant",
        "level_text": "Random histories covering all seven generation paths with exact timestamps; counterexample search, not proof.",
        "level_note": "Trusts testing/synctest, the in-memory State and the expected-RA builder advCfg.expect.",
    },
    "C17": {
        "parts": [
            {"pkg": "internal/corerad", "run": "TestVerif_C17",
             "files": ["shared/zz_verif_doc_test.go", "corerad/zz_verif_C12_test.go", "corerad/zz_verif_sim_test.go", "corerad/zz_verif_adv_test.go", "corerad/zz_verif_mon_test.go", "corerad/zz_verif_C06_test.go", "corerad/zz_verif_C04_test.go", "corerad/zz_verif_C17_test.go"]},
            {"pkg": "internal/corerad", "run": "TestVerif_C17race", "race": True, "shards": {"quick": 2, "thorough": 8},
             "files": ["shared/zz_verif_doc_test.go", "corerad/zz_verif_C12_test.go", "corerad/zz_verif_sim_test.go", "corerad/zz_verif_adv_test.go", "corerad/zz_verif_mon_test.go", "corerad/zz_verif_C06_test.go", "corerad/zz_verif_C04_test.go", "corerad/zz_verif_C17_test.go", "corerad/zz_verif_C17race_test.go"]},
            {"pkg": "internal/plugin", "run": "TestVerif_C17torn", "files": ["plugin/zz_verif_torn_test.go"], "shards": {"quick": 1, "thorough": 1}},
            e2e_part("TestVerif_C17main"),
        ],
        "level": "exploration",
        "bubble": True,
        "quick": {"shards": 8},
        "thorough": {"shards": 16},
        "rule": ("accepted TOML configurations from the shared document model (every stanza kind incl. pref64, wildcards, deprecated entries, long stanza lists, 1..3 interfaces or a names list of up to 70, "
                 "debug section on/off) parsed by config.Parse, wired exactly as cmd/corerad/main.go does (the same config.Interface values for "
                 "Metrics, the crhttp handler and the advertisers), advertisers running in a synctest bubble against a dialer that only succeeds from "
                 "a generated instant (never / at once / after up to 8 s), link events (re-initialisation), forwarding flips, address/route source "
                 "failures; 2..8 probes at generated instants (t=0, around the instant the interface comes up, later), each probe = one const-metric "
                 "scrape with fresh collectors + GET /_/api/interfaces + /metrics + /debug/pprof/, plus one real PedanticRegistry.Gather per case. "
                 "Oracle: no panic and every call returns; /metrics and /debug/pprof/ are 404 unless enabled; when every advertising interface has "
                 "been initialised, the samples (one per prefix/route/RDNSS/DNSSL option with flags and seconds, the four interface gauges, the "
                 "misconfiguration gauge) and the JSON (header fields, every option kind incl. PREF64) equal the RA computed from the document model "
                 "and the system state at that instant; before that an error is accepted. Non-trivial: a pref64 stanza, or a wildcard/deprecated "
                 "stanza observed at >= 2 lifecycle points. Distinct: FNV-64 of the canonical JSON case."),
        "assumptions": [STAGED, BUBBLE, FAKES],
        "technique": "rapid property-based testing of configurations x lifecycle points x interleaved scrapes/API requests on virtual time against the reference RA builder",
        "level_text": "Generated configurations probed at generated lifecycle instants and compared with an independently computed RA; counterexample search, not proof.",
        "level_note": "Trusts expectRA/reference (shared document model), testing/synctest, and plugin wrappers whose Prepare injects simulated address/route sources; series with duplicate label identities are unspecified.",
    },
    "C18": {
        "parts": [
            {"pkg": "internal/corerad", "run": "TestVerif_C18", "shards": {"quick": 8, "thorough": 16},
             "files": ["corerad/zz_verif_C12_test.go", "corerad/zz_verif_sim_test.go", "corerad/zz_verif_adv_test.go", "corerad/zz_verif_mon_test.go", "corerad/zz_verif_C06_test.go", "corerad/zz_verif_C04_test.go", "corerad/zz_verif_C17_test.go", "shared/zz_verif_doc_test.go", "corerad/zz_verif_C18_test.go", "corerad/zz_verif_wire_test.go"],
             "fuzz": [{"target": "FuzzVerif_C18wire", "seconds": 120}]},
            e2e_part("TestVerif_C18main"),
        ],
        "level": "exploration",
        "bubble": True,
        "quick": {"shards": 8},
        "thorough": {"shards": 16},
        "rule": ("sequences of 1..16 NDP messages (one in four repeats an earlier message verbatim, from another sender or with one flag flipped): RAs with arbitrary header values (hop limit 0..255, M/O, preference, lifetime 0/1/1800/9000/65535 s) and "
                 "0..6 options (prefix options with repeated prefixes, lengths /0 /8 /32 /64 /128 and, one in twelve, an impossible length byte 129/200/255 patched into the wire bytes, zero, finite and infinite lifetimes; unknown, route, "
                 "RDNSS, DNSSL, MTU, SLLA options), RS, NS and NA, from 4 senders (link-local senders get a zone on the Run path), gaps of 0 ns..1 h, wall "
                 "clock 1970..2100. Two paths: Monitor.handle with an injected clock, compared after every message; and a real Monitor.Run in a synctest "
                 "bubble (every RA through MarshalMessage/ParseMessage, zone stripped by the listener), compared at the end. Oracle: last-write-wins "
                 "model of the corerad_monitor_* series in message and option order: counter per (interface, host without zone, type); managed/other "
                 "gauges; default-route expiry = unix(receipt + lifetime) only when the lifetime is non-zero; per prefix option on-link/autonomous and "
                 "preferred/valid expiry labelled by the CIDR. Non-trivial: an RA with a prefix option or a repeated sender. Distinct: FNV-64 of the "
                 "canonical JSON case."),
        "assumptions": [STAGED, BUBBLE, FAKES, "how a prefix option with an impossible length byte (129..255, overwritten on the wire) is labelled is not judged"],
        "technique": "rapid property-based testing of message sequences against a last-write-wins reference model (value path and real Run on virtual time)",
        "level_text": "Random message sequences compared with a reference metric model after every message; counterexample search, not proof.",
        "level_note": "Trusts the model c18Apply (written from the statement), metricslite's in-memory series and the ndp codec.",
    },
    "C19": {
        "parts": [
            {"pkg": "internal/netstate", "files": ["netstate/zz_verif_C19_test.go"], "run": "TestVerif_C19"},
            {"pkg": "internal/netstate", "files": ["netstate/zz_verif_C19_test.go"], "run": "TestVerif_C19race", "race": True},
        ],
        "level": "exploration",
        "bubble": True,
        "quick": {"shards": 8},
        "thorough": {"shards": 16},
        "rule": ("action sequences of 1..40 steps on a real Watcher whose OS hook is a scripted event source: Subscribe(interface, mask) over all 127 masks "
                 "and 3 interfaces, notify with 1..12 rtnetlink link messages, one batch in five 9..30 messages mostly for one interface and of one dominant kind (all 7 operational states, unknown values, messages without attributes) "
                 "converted by the real process(), drain(subscriber, n), end of watch; exhaustive 127 masks x 7 single changes x {same, other "
                 "interface}; an overflow scenario around the 8-slot buffer; and (race-detector build) 300/2000 runs of Subscribe, notify and the end of "
                 "the watch from 7 concurrent goroutines. Each sequence runs in a synctest bubble: after every notify, synctest.Wait must find the "
                 "notifier finished (not blocked). Oracle: bounded-FIFO model per subscriber (append iff interface matches, mask intersects and fewer "
                 "than 8 queued); channel length equals the model after every step, drained values and order equal the model, every channel "
                 "registered before the end is closed exactly once and drains to the model's remainder; the race detector stays silent. Non-trivial: at "
                 "least one delivered and one filtered or dropped event. Distinct: FNV-64 of the canonical JSON case."),
        "assumptions": [STAGED, BUBBLE, "osWatch (the rtnetlink socket) is replaced by the watch hook the code provides for tests",
                        "subscribing after the end of the watch is unspecified (such channels are never closed)"],
        "technique": "rapid stateful (model-based) property testing against a bounded-FIFO reference model + exhaustive mask/change table + race-detector stress",
        "level_text": "Model-based sequences with an exhaustive single-event table; interleavings under the race detector are sampled, not enumerated.",
        "level_note": "Trusts the FIFO model in c19Prop, testing/synctest's blocked-goroutine detection and the Go race detector.",
    },
    "C20": {
        "parts": [
            {"pkg": "internal/corerad", "run": "TestVerif_C20",
             "files": ["corerad/zz_verif_C12_test.go", "corerad/zz_verif_sim_test.go", "corerad/zz_verif_C20_test.go"]},
            e2e_part("TestVerif_C20main"),
        ],
        "level": "exploration",
        "bubble": True,
        "quick": {"shards": 8},
        "thorough": {"shards": 16},
        "rule": ("BuildTasks: every vector of up to 5 interfaces over {neither, advertise, monitor} x debug address on/off (exhaustive), random vectors of up to 130. Serve: 1..6 (one case in eight 9..130) scripted "
                 "tasks (the exported Task interface) with behaviours {runs until cancelled, fails at an instant, returns nil early, takes 1 ns..30 s to "
                 "stop after cancellation (optionally failing while stopping), never ready, ready at an instant} x signal {none, SIGINT, SIGTERM, SIGHUP} "
                 "at an instant from {1 ns, 1 s, 2 s, 2 s+1 ns, 5 s, 10 s} (so signals coincide with failures), in a synctest bubble with a real "
                 "sdnotify.Notifier on a unixgram socket read concurrently from outside the bubble; exhaustive behaviour pairs x signal x 3 instants. Oracle: task list "
                 "(one advertiser/monitor per such interface in order, none for neither, HTTP task iff address set, link watcher); event-log "
                 "invariants: every task is run, Serve returns only after every Run returned, nil iff no task returned an error else an error naming "
                 "one actually returned, every running task observes cancellation at the instant of the first failure or signal and returns after "
                 "exactly its stop time, terminate() already equals (signal != SIGHUP) when a task observes a signal-caused cancellation, READY is "
                 "announced once, after all 'started' statuses, never if some task never reported ready, and always when every task was ready before "
                 "the end. Non-trivial: >= 2 tasks with a failure or a signal. Distinct: FNV-64 of the canonical JSON case."),
        "assumptions": [STAGED, BUBBLE, "signals are injected on the channel Serve receives (os/signal delivery is not exercised)",
                        "events at exactly the same virtual instant (signal and failure, readiness and cancellation) accept either order"],
        "technique": "rapid property-based testing + exhaustive behaviour matrix on virtual time (testing/synctest); ordering invariants over the event log; exhaustive task-list enumeration",
        "level_text": "Scripted task behaviours and signal instants with an event-log oracle; counterexample search, not proof.",
        "level_note": "Trusts testing/synctest, the scripted Task implementation and the kernel's ordering of unixgram datagrams.",
    },
}

NOT_APPLICABLE = {}

for _id, _txt in E2E_RULE.items():
    PROPS[_id]["rule"] = PROPS[_id]["rule"] + _txt
    PROPS[_id]["assumptions"] = list(PROPS[_id].get("assumptions", [])) + [WHOLE]
PROPS["C11"]["rule"] = PROPS["C11"]["rule"] + C11_SYSCTL

WIRE = (" Wire-bytes sub-check (20 000 / 4 000 000 cases): wire images of well-formed RS/NS/NA/RA messages (fixed seeds and generated large RAs) with 0..6 "
        "mutations (random byte, edge byte 0/1/127..129/200/254/255, bit flip, dropped or duplicated 8-byte unit, cut span); whatever package ndp still "
        "parses (about half) is handed to the handler: ")
PROPS["C18"]["rule"] += WIRE + ("Monitor.handle must not panic, count the message exactly once under its type and host, and set the M/O gauges of an RA. "
                                "Thorough tier only: 2 minutes of native coverage-guided fuzzing of the same property (monitor and advertiser handler).")
PROPS["C09"]["rule"] += WIRE + ("Advertiser.handle must not panic, answer an RS to its source (all-nodes for ::), take an RA without error and count any other type as invalid.")
PROPS["C14"]["rule"] += (" Configuration part: server lists of 0..6 entries drawn from several spellings of five addresses (compressed, expanded, upper case, "
                        ":: in four forms, an IPv4 and an IPv4-mapped entry) through config.Parse: accepted iff all entries are distinct IPv6 addresses (at most one ::), "
                        "and the option Apply produces is the automatic pick followed by the static servers in ascending order, each once, identically on a second application.")
PROPS["C03"]["rule"] += " Captive-portal URIs are filled with plain, escapable (space, non-ASCII) and pre-escaped characters: the option must fit as it is sent."
PROPS["C05"]["rule"] += (" Parsed-pairs sub-check (20 000 / 1 000 000 documents per run, all parsed in one process): 1..4 interfaces with min_interval / max_interval drawn "
                        "from 13 spellings each; acceptance by config.Parse must equal the documented bounds, and every accepted pair is put through the real multicastDelay "
                        "(7 indices x 4 forced draws: no panic, bounds).")
PROPS["C06"]["rule"] += " Bursts of 17 / 40 / 60 unicast solicitations (more than the 16-slot request queue), half of them at the very instant a periodic tick is due."
PROPS["C07"]["rule"] += " One case in three has 1..3 sibling advertising interfaces (unicast_only at random) and 0..2 monitoring / idle interfaces before it in the one Metrics."
PROPS["C12"]["rule"] += (" Live sub-check (4 000 / 400 000 cases): an advertiser with a ::/64 wildcard stanza receives the same foreign RA 2..4 times while the interface's /64 networks "
                        "change in between; the counter increments and hook calls of every reception must match the rule list applied to the own RA of that moment.")
PROPS["C17"]["rule"] += " In one case in three every probe ends with three scrapes that overlap in time (1 ms state-read latency): each must report the same set of samples as the scrape that ran alone."
PROPS["C17"]["rule"] += " Whole-process part, one case in three: every forwarding read of the fake OS takes 2 ms and three real HTTP GET /metrics are in flight at once; each answer must be 200 with exactly the sample set of the request that ran alone."
PROPS["C12"]["rule"] += " Every 'inconsistency N:' log line is parsed: the (field, details) pairs named by the lines must equal the expected inconsistencies as a multiset."
PROPS["C19"]["rule"] += " The watch ends in one of three ways: context cancelled, event source ended, event source failed (Watch must return the error and still close every channel)."
PROPS["C02"]["rule"] += " The sweep enumerates every prefix length 0..128 for prefix, route and pref64 (a dense network and the unspecified one), every hop limit -2..258 and MTUs around every power of two; duration values are spelled in ten ways (Go's own, whole s/ms/us/m, tenths of an hour, hundredths of a second, a sign, leading zeros, units in reverse order) while the reference works on the exact nanosecond value."
PROPS["C03"]["rule"] += " pref64 CIDR strings cover every length 0..128 of two IPv6 networks and every length of an IPv4 network."
PROPS["C12"]["rule"] += " One received RA in three may list a prefix or route in several options (another router may; our configuration cannot): an inconsistency of any copy must be reported; labels are then compared as sets. Field values also cover 1, limit-1, 65535 and 2^32-1 style extremes and any hop limit."
PROPS["C17"]["rule"] += " Overlap probes run in two rounds (three requests 0.7 ms apart, two requests 1.4 ms apart) and include the debug API: each overlapping answer must equal the answer of the request that ran alone (API bodies only when no advertised value depends on time); the quiet window covers every recorded Prepare instant and lasts until the slowest overlapping request has finished. Whole-process: two real API requests 3 ms apart."
PROPS["C03"]["rule"] += " Thorough tier: 150 s of native coverage-guided fuzzing of raw TOML bytes (FuzzVerif_C03) with the same round-trip oracle on whatever config.Parse accepts within the statement's domain."
PROPS["C07"]["rule"] += " Whole-process: a solicitation from :: (handed over as ::%<interface>) must be answered by a scheduled multicast RA before the second scrape, and no RA may be sent to ::."
PROPS["C04"]["rule"] += " Slow-state sub-check (400 / 60 000 cases): a forwarding read samples the value and returns 700 ms later, so RA generations overlap; each solicitation comes from a host of its own, flips fall while an answer is being generated, further solicitations follow the flip; an RA must be consistent with a forwarding value from [max(write start - 700 ms, the instant its solicitation was read), write start]. Non-trivial there: two generations overlapping in time."
PROPS["C10"]["rule"] += " System call faults carry an errno from {ENETDOWN, EINTR, EMFILE, ENFILE, ENOBUFS, EIO, ENODEV} in the *net.OpError / *os.SyscallError wrapping a socket operation returns (EINTR, EMFILE, ENFILE report Temporary()); the policy part draws one of five error shapes per case (also EACCES as a permission error)."
PROPS["C17"]["rule"] += " One configuration in five (both parts) has stanzas A, B, A' whose options share their metric labels without being neighbours in the RA."
PROPS["C12"]["rule"] += " In half of the live cases every reception brings another foreign RA (single-valued options - MTU, captive portal - dropped, changed or added; everything re-drawn now and then), all handled by the one Advertiser."
PROPS["C17"]["rule"] += " While requests overlap, address and route lookups of the plugins take 1 ms as well."
REAL_TIMERS = "the real-clock part relies on the wall clock only for lower bounds that a correct program cannot miss (and 0.5 s of scheduling slack where two executions are compared); a failure counts only if the scenario fails again when repeated alone"
PROPS["C05"]["rule"] += ' Real-clock part (1 / 10 cases of 32 simultaneous scenarios, 9..12 s each), built with the timer channels of the shipped binary (the module says go 1.22: asynctimerchan=1, whereas the bubble parts need asynctimerchan=0): the real multicast loop of one Advertiser run two or three times in a row (cancelled during its first wait, restarted after 0..4.5 s, as Dialer.Dial does): the first request of a run comes at once and no two requests of a run are closer than MinRtrAdvInterval (3 s).'
PROPS["C06"]["rule"] += ' Real-clock part (1 / 10 cases of 32 simultaneous scenarios, 9..12 s each), built with the timer channels of the shipped binary (the module says go 1.22: asynctimerchan=1, whereas the bubble parts need asynctimerchan=0): a whole Advertiser.Run on an in-memory connection with solicitations from :: and from hosts of their own (also bursts of 24), link changes (re-initialisation on a new connection) and a terminating stop: multicast RAs of one connection at least 2.5 s apart (the final one aside).'
PROPS["C07"]["rule"] += " Real-clock part (1 / 10 cases of 32 simultaneous scenarios, 9..12 s each), built with the timer channels of the shipped binary (the module says go 1.22: asynctimerchan=1, whereas the bubble parts need asynctimerchan=0): the same runs as C06's: every solicitation from a specified source read at least 2 s before the stop or link change got exactly one unicast RA, and no RA is sent to ::."
for _id in ("C05", "C06", "C07"):
    PROPS[_id]["assumptions"] = list(PROPS[_id]["assumptions"]) + [REAL_TIMERS]
PROPS["C10"]["rule"] += " Real-clock part (1 / 10 cases of 24 simultaneous Dial runs, each at most 8 s by the model, no cancellation), built with the timer channels of the shipped binary: the sequence of attempts, task runs and clean-ups and the result must be the reference policy's, and no step may come earlier than the policy's waits allow."
PROPS["C10"]["assumptions"] = list(PROPS["C10"]["assumptions"]) + [REAL_TIMERS]
PROPS["C13"]["rule"] += " OS part: one case in four makes the first 1, 2, 3, 5 or all rtnetlink dump requests fail (EINTR, EAGAIN, ENODEV, EPERM, ENOBUFS): a dump that keeps failing must surface as an error; after a transient failure either an error or exactly the listing."
PROPS["C17"]["rule"] += " Every probe also gathers through a real pedantic registry right after the direct scrape: the collector and the registry must agree on whether the scrape failed. A race-detector part (60 / 3000 configurations) runs three registries' gathers, two debug-API requests and one RA build per advertising interface from real goroutines at once."
PROPS["C08"]["rule"] += " In a third of the cases with transmit latency, a transmission that completes after the stop request fails (ENETDOWN, ENOBUFS, a non-syscall error): the stop still ends without an error and, when terminating, with the final advertisement."
PROPS["C20"]["rule"] += " In one case in ten the service manager's end of the notification socket is gone before the server starts (every notification fails): supervision must be unaffected."
PROPS["C04"]["rule"] += " Failing-state sub-check (600 / 100 000 cases): the forwarding state cannot be read for stretches of time (EACCES on the sysctl file, a system call error, another error) while solicitations, foreign RAs and flips go on; Run may fail, every RA that does go out must agree with the forwarding state of that moment."
PROPS["C06"]["rule"] += " One random history in four has the n-th (or every later) unicast transmission fail with a system call error."
PROPS["C02"]["rule"] += " RDNSS servers include the IPv4 unspecified, broadcast and loopback addresses, three IPv4-mapped spellings and four spellings of the :: wildcard."
PROPS["C06"]["rule"] += " Thorough tier additionally: every history of exactly 5 events (solicitation from ::, from a host, link change) on the boundary grid {0, 1 ns, 3 s - 1 ns, 3 s, 3 s + 1 ns} (759 375 histories)."
PROPS["C02"]["rule"] += " Wrong-type sweep: every key of every table (interface, prefix, route, rdnss, dnssl, pref64, debug) is given each of 24 values of every other TOML type (booleans, integers, floats incl. inf and nan, strings, arrays, inline tables, date-times): all must be rejected."
PROPS["C02"]["rule"] += " Integers are written in every TOML spelling (decimal, 0x, 0o, 0b, digit separators, plus sign) and a third of the duration strings as TOML literal strings."
PROPS["C02"]["rule"] += " Malformed durations include the spellings other tools accept (percentages, days, weeks, years, ISO 8601, clock notation, unit words, upper-case units, padded or separated digits)."
PROPS["C03"]["rule"] += " The hostile values include undocumented spellings (49711d, 99999d, 200000d, 9999w, 150y, percentages): should the parser accept one, the RA must still fit the wire."
PROPS["C05"]["rule"] += " The parsed pairs also use percentages and day fractions (accepted only if documented)."
PROPS["C19"]["rule"] += " Interface names include names that are prefixes of one another (eth1, eth10, eth1.100, e)."
PROPS["C14"]["rule"] += " One random case in four lists one of the interface's own addresses (half of the time the wildcard's pick) among the static servers: the option is then not judged, the plugin must be unchanged."
PROPS["C16"]["rule"] += " Wildcard cases give every other interface address the kernel's deprecated flag: only the stanza's own deprecated setting decides about counting down."

PROPS["C19"]["rule"] += " Race-build part, second half (200 / 2000 runs): 2..6 goroutines subscribe at the same moment to an interface nobody has subscribed to yet; each must receive the one change that follows and see its channel closed."
PROPS["C18"]["rule"] += " In a third of the run-path cases the OnMessage consumer takes 1 ms, 1 s or 3 s per message (later messages wait in the socket): the model goes by the instant each message was read."
PROPS["C11"]["rule"] += " One random case in four gives closing a connection a latency of 1 ms .. 5 s (reference policy and run alike)."
PROPS["C10"]["rule"] += " One random policy case in four gives closing a connection a latency of 1 ms .. 5 s."
PROPS["C12"]["rule"] += " Two-interfaces sub-check (1 500 / 150 000 cases, real clock, judged by labels only): two Advertisers sharing Context, Metrics and a logger whose lines take 0.1 ms each hear an RA 0..250 us apart; each interface must count exactly its own inconsistencies."

_OVERLAP = (" Overlapping-applications sub-check (400 / 40 000 cases): one application of a plugin value is held inside its %s lookup while a second application"
            " (the same plugin value, or another one with its own lookup) and then a burst of four run to completion; every result must equal what the same application yields alone.")
PROPS["C13"]["rule"] += _OVERLAP % "address" + " Histories contain steps that change only the kernel flags of an address. OS part, overlapping listings (300 / 20 000 cases): two AddressesByIndex calls at once, the first held inside the rtnetlink dump; when the dump fails both must report an error, otherwise both must return the full listing."
PROPS["C14"]["rule"] += _OVERLAP % "address"
PROPS["C15"]["rule"] += _OVERLAP % "route"
PROPS["C16"]["rule"] += " The builder keeps the option objects of the previous RA of each case and their rendering: building the next RA must not change them."

PROPS["C08"]["rule"] += " One transmission latency in four lies between 2 s and 120 s (sampled set also 2 s + 1 ns, 5 s, 31 s, 300 s; matrix also 6 s): a raw-socket write has no deadline; the harness waits accordingly."
PROPS["C12"]["rule"] += " One received prefix option in three has a preferred lifetime drawn without regard to its valid lifetime (also above it): other routers are not bound by our parser's rules."
PROPS["C18"]["rule"] += " Many-senders sub-check (60 / 3 000 cases): 1..2 000 distinct senders or 17, 64, 255, 256, 257, 300, 1 000, 1 025 (thorough also 4 097, 20 000, 65 537), three address styles, each heard once with a message cycling through generated templates, then the usual hosts and members of the crowd again; every series compared with the model at the end."
PROPS["C07"]["rule"] += " One solicitation burst in four is a crowd: 2, 5, 40, 70 or 300 solicitations at one instant, each from another host."
PROPS["C11"]["rule"] += " Close latencies also 5 s + 1 ns, 11 s, 31 s, 91 s."
PROPS["C10"]["rule"] += " Close latencies also 5 s + 1 ns, 11 s, 31 s, 91 s."
PROPS["C20"]["rule"] += " Tasks take 1 ns, 1 s, 5 s + 1 ns, 11 s, 30 s, 31 s, 91 s or 301 s to return after cancellation."

PROPS["C03"]["rule"] += " System states include hardware addresses that are not 48 bits long (1, 4, 5, 7, 8, 16, 20, 32 bytes; one state with an address in six): whatever is built must encode (finding F20)."
PROPS["C01"]["rule"] += " Hardware addresses are absent, 48 bits long, or (one in six of those present) 1..32 bytes long: only a 48-bit address yields a source link-layer address option."

_OSSHAPE = " OS part: rtnetlink replies are built as the kernel builds them - one address in six has a peer (peer in IFA_ADDRESS, own address in IFA_LOCAL; finding F22)"
PROPS["C13"]["rule"] += _OSSHAPE + "."
PROPS["C14"]["rule"] += _OSSHAPE + "."
PROPS["C15"]["rule"] += _OSSHAPE + ", and a default route comes without a destination attribute (known finding F21: those cases are excluded and counted)."
PROPS["C01"]["rule"] += " One generated loopback route in three carries another interface index (1, 2, 17, 70 000) or kernel preference: the same destination listed again is still one destination."

PROPS["C03"]["rule"] += " RDNSS server lists include addresses with a zone (fe80::53%eth0, ::%eth0, two addresses differing only in the zone): accepted or not, what is built must survive the wire unchanged (finding F23)."
PROPS["C02"]["rule"] += " Server addresses with a zone are generated among the special spellings and left unjudged (not stated)."

PROPS["C03"]["rule"] += " DNSSL lists include names with an empty label (absolute form example.org., a..b, ., .lan): accepted or not, what is built must survive the wire unchanged (finding F24)."
PROPS["C02"]["rule"] += " Domain names with an empty label are generated among the special spellings and left unjudged (not stated)."

PROPS["C10"]["rule"] += " Live sub-check: write latencies also 5 s and 40 s; system call errors also ENETUNREACH, EADDRNOTAVAIL, ENOMEM, EMSGSIZE (recoverable) and EPERM, EACCES (fatal); no dial may begin after the stop request (finding F25). Policy cases: a dial takes 10 ms, 40 ms, 2 s or 20 s; a cancellation that precedes the zero-length first back-off wait must end in a clean return (was unjudged before F25)."
PROPS["C11"]["rule"] += " A dial takes 10 ms, 40 ms, 2 s or 20 s."
PROPS["C07"]["rule"] += " One latency case in four has transmissions of 500 ms - 1 ns, 500 ms, 600 ms, 3 s, 3 s + 1 ns or 20 s."
PROPS["C06"]["rule"] += " One random history in four has slow transmissions (1 ns .. 10 s, incl. 3 s - 1 ns, 3 s, 3 s + 1 ns; to all-nodes, to hosts, or both)."
PROPS["C08"]["rule"] += " State reads take up to 4 s."

PROPS["C01"]["rule"] += " Advertiser half: in one case in three the interface is re-created between two dials and reports another hardware address (another 48-bit one, none, or an 8-byte one on odd dials) and index: each RA carries what its own connection's dial reported."

PROPS["C20"]["rule"] += " The error Serve returns must be the one of the failure that came first (any of them if several tasks failed at that instant), not merely one of the errors returned."
PROPS["C13"]["rule"] += " OS part: interface indices up to 2^31 - 1, address prefix lengths also 0, 1, 63, 65, 127."

PROPS["C11"]["rule"] += " Several-dialers sub-check (1 500 / 200 000 cases): 1..4 interfaces, each with its own Dialer and 1..4 connections ended by link changes, running at the same time on one State: every interface's setting is off while it holds a connection and back at its own previous value when its Dial returns."

PROPS["C06"]["rule"] += " While a connection lives, two consecutive multicast RAs are never further apart than max_interval (to one second) + 1 s + 3 s (+ twice the slowest transmission): a lost tick of the periodic timer shows for any min/max pair (one history in six runs on for 100..400 s); after the stop only the zero-lifetime RA of a termination is exempt from the spacing."
PROPS["C07"]["rule"] += " Everything delivered to a connection that lives on for another second must be read (the other rules start from what the listener read); messages_received_total is compared for all four message types."
PROPS["C09"]["rule"] += " The monitor's run without invalid messages is itself judged against the script (every valid message delivered before the stop reaches the consumer), so that the differential comparison is not the implementation agreeing with itself."
PROPS["C10"]["rule"] += " A task that has returned must not leave goroutines blocked behind it (the bubble's deadlock report); EPERM / EACCES are fatal also on the initial RA."
PROPS["C11"]["rule"] += " On an advertising interface a task never starts on a connection for which autoconfiguration was not disabled first."
PROPS["C20"]["rule"] += " A signal first and failures only while stopping: success or that error (both clauses apply). A task that ends by itself after the cause was not cancelled: violation. Readiness and task-not-run rules also apply when nothing ever ends the server."
PROPS["C04"]["rule"] += " With a configured lifetime of 0 on a non-forwarding interface a misconfiguration report is neither demanded nor forbidden."

PROPS["C01"]["rule"] += " PREF64 cap on its own (through the configuration 3 x max_interval never nears 65 528 s): NewPREF64 for every whole second 0..44 000 s, the nanoseconds around each edge, and 5 000 / 500 000 random intervals up to 100 000 s against the reference formula."

PROPS["C08"]["rule"] += " One event in six before the stop is a link event (the interface is re-initialised, the final RA belongs on the connection that is live then - finding F26); nothing new is written to a connection once the next one exists."
PROPS["C06"]["rule"] += " Enumeration bursts-on-every-tick: crowds of 17, 40, 60 unicast solicitations at, 1 ns before and 1 ns after each of 12 consecutive periodic ticks (max_interval 4, 5, 8 s)."

PROPS["C12"]["rule"] += " Matrix also: the same inconsistency two and three times over (k RDNSS / DNSSL options on both sides each differing in the same way; k repetitions of one of our routes in the received RA): every one is logged and counted."
PROPS["C20"]["rule"] += " Enumeration serve-many-tasks-one-not-ready: 63, 64, 65, 66, 128, 129, 130 tasks of which the 1st, 33rd, 64th, 65th or last is never (or 3 s late) ready."

PROPS["C17"]["rule"] += " The overlapping requests are staggered and the fake lookups slowed down by yielding the processor (the bubble's clock stands still meanwhile), so that an implementation which holds a lock across a lookup serialises them instead of wedging the bubble. A probe during which any interface is being (re-)initialised - also long after the link event that caused it - is not judged."

PROPS["C17"]["rule"] += " One observed failure on its own (33 cases): a hardware address whose slice header has a nil pointer and a length of 0..32 - what a request racing with Prepare was once seen to read - must not make Apply build an option that panics when rendered or fails to encode."

PROPS["C08"]["rule"] += " One case in six is not forwarding; with a configured lifetime of 0 or forwarding off the final RA is told by its position: apart from the initial RA of a connection that was being set up, exactly one multicast RA after the stop on termination and none on reload (judged when state reads take no time). A stop that arrives while the interface has no connection (torn down by a link change, not yet re-dialled) is not asked for a final RA."
PROPS["C10"]["rule"] += " The waits between consecutive timed-out receives never shrink and the last is longer than the first."
PROPS["C16"]["rule"] += " With a ticking clock the later options of a wildcard stanza still obey what every reading obeys (no negative lifetime, preferred <= valid, non-deprecated constant) and promise no more than the option before them."

PROPS["C19"]["rule"] += " The concurrent (race-build) run also looks at what its subscribers were given: only changes inside their mask, only changes that were notified, never more than 8 buffered."
PROPS["C13"]["rule"] += " OS part: what the addresser returns is compared with the kernel's listing as a multiset (nothing obliges it to keep the kernel's order)."

PROPS["C10"]["rule"] += " After a recoverable fault the re-dialled connection must be used (an advertiser sends its initial RA on it, unless the stop came first); a fatal fault of the 'other' kind must be named by the error Run returns."

PROPS["C04"]["rule"] += " The own RA handed to the inconsistency hook must be the one of that instant (forwarding as it is when the other router's RA is handled), not merely one of the two possible RAs."

PROPS["C18"]["rule"] += " Wire-image part: a mutated image that still parses as an RA is judged on every monitor series (flags, default-route expiry, per-prefix flags and expiries at a fixed receipt time) against the same model as the message sequences; options whose prefix has host bits set or an impossible length are left out."

PROPS["C10"]["rule"] += " Wiring part: for every mode vector of up to 5 interfaces (and 200 / 20 000 random ones of up to 130) every advertiser and monitor BuildTasks returns holds a link-state subscription of its own."

PROPS["C17"]["rule"] += " /debug/pprof/cmdline and /debug/pprof/symbol must be gated exactly as the index is."

PROPS["C20"]["rule"] += " Every task is run exactly once."

PROPS["C04"]["rule"] += " Sysctl part (300 / 20 000 cases): the real NewState().IPv6Forwarding over a real file that is rewritten in place between reads, half of the time with its timestamps unchanged (as when the kernel flips the value through conf/all): every read reports what the file holds."

PROPS["C20"]["rule"] += " Whole-process part: the shutdown announcement must name the signal that was sent."

PROPS["C12"]["rule"] += " Log lines are matched by what they name (the field - a label value of the counter - and the prefix or route), not by their wording."
PROPS["C04"]["rule"] += " The misconfiguration log line is recognised by its subject (a line that speaks of forwarding and reports no read failure), not by its wording."

PROPS["C10"]["rule"] += " The error that ends the retries is recognised by what it carries (a recoverable cause, flattened into its text or wrapped), not by its wording."

PROPS["C20"]["rule"] += " The task list is compared by task type and by the interface name or address each description mentions, not by the wording of the descriptions."

#!/usr/bin/env python3
"""Confirm an independently written breaking change and store it under /verif/seeded/<name>/.

  seed_intake.py <worktree> <PROP> <name> [--checks C01,C17]

Confirms, in the agent's scratch worktree: (1) with the change the project
builds and the repository's suite is green apart from the two integration
tests that fail in this sandbox on the unchanged tree, (2) the demonstration
fails with the change, (3) passes without it.  Then runs the registered quick
checks against a scratch copy of /repo with the patch applied (tools/mutate.py)
and records everything in meta.json.  Never touches /repo's working tree.
"""
import glob, json, os, re, shutil, subprocess, sys

wt, prop, name = sys.argv[1], sys.argv[2], sys.argv[3]
checks = [prop]
if "--checks" in sys.argv:
    checks = sys.argv[sys.argv.index("--checks") + 1].split(",")
tier = "quick"
if "--tier" in sys.argv:
    tier = sys.argv[sys.argv.index("--tier") + 1]
env = dict(os.environ, GOFLAGS="-mod=mod", GOPROXY="off", GOSUMDB="off")
KNOWN_BAD = ("TestIntegrationWatcherWatch", "TestIntegrationAddresserAddresses")


def sh(cmd, cwd=wt, check=False):
    r = subprocess.run(cmd, cwd=cwd, env=env, shell=isinstance(cmd, str), stdout=subprocess.PIPE, stderr=subprocess.STDOUT, text=True)
    if check and r.returncode != 0:
        print(r.stdout[-3000:]); sys.exit("command failed: %s" % cmd)
    return r

demos = [p for p in subprocess.check_output(["git", "ls-files", "--others", "--exclude-standard"], cwd=wt, text=True).split() if p.endswith("_test.go")]
if not demos:
    sys.exit("no demo test file found")
patch = os.path.join(wt, "patch.diff")
meta = {"property": prop, "name": name, "demo_files": demos}
# the patch must touch no test file and must equal the worktree's source diff
diff_now = subprocess.check_output(["git", "diff"], cwd=wt, text=True)
files = re.findall(r"^diff --git a/(\S+)", diff_now, re.M)
if any(f.endswith("_test.go") or f in ("go.mod", "go.sum") for f in files):
    sys.exit("change touches test files or go.mod: %s" % files)
open(patch, "w").write(diff_now)
meta["files_changed"] = files
# (1) build + suite with the change
r = sh("go build ./... && go vet ./... >/dev/null 2>&1; go test -vet=off -count=1 -json ./... 2>&1")
fails = set()
demo_tests = set()
for line in r.stdout.splitlines():
    try:
        e = json.loads(line)
    except ValueError:
        continue
    if e.get("Action") == "fail" and e.get("Test"):
        fails.add(e["Test"].split("/")[0])
# demo test names
for d in demos:
    demo_tests |= set(re.findall(r"^func (Test\w+)\(", open(os.path.join(wt, d)).read(), re.M))
suite_fail = sorted(f for f in fails if f not in KNOWN_BAD and f not in demo_tests)
demo_fail_with = sorted(f for f in fails if f in demo_tests)
# the repository's own timing tests occasionally fail when all 16 cores are busy with
# other checks: a failure counts only if it repeats in three further isolated runs
flaky = []
for tname in list(suite_fail):
    rr = sh("go test -vet=off -count=3 -run '^%s$' ./... 2>&1" % tname)
    if rr.returncode == 0:
        suite_fail.remove(tname)
        flaky.append(tname)
if flaky:
    meta["suite_flakes_under_load_passing_3_of_3_alone"] = flaky
meta["suite_failures_with_change"] = suite_fail
meta["demo_fails_with_change"] = demo_fail_with
# (3) without the change
sh("git apply -R patch.diff", check=True)  # (git stash is shared between worktrees: never use it here)
try:
    pkgs = sorted(set("./" + os.path.dirname(d) for d in demos))
    r2 = sh("go test -vet=off -count=1 -run '%s' %s 2>&1" % ("|".join("^%s$" % t for t in sorted(demo_tests)), " ".join(pkgs)))
    meta["demo_passes_without_change"] = r2.returncode == 0
    demo_out_without = r2.stdout[-600:]
finally:
    sh("git apply patch.diff", check=True)
ok = not suite_fail and demo_fail_with and meta["demo_passes_without_change"]
meta["confirmed"] = bool(ok)
print("suite failures with change:", suite_fail)
print("demo fails with change:", demo_fail_with, "| passes without:", meta["demo_passes_without_change"])
if not ok:
    print("NOT CONFIRMED"); print(demo_out_without)
# run my checks
verif = os.path.dirname(os.path.dirname(os.path.abspath(__file__)))
results = {}
for c in checks:
    r = subprocess.run([sys.executable, os.path.join(verif, "tools", "mutate.py"), "--prop", c, "--patch", patch, "--tier", tier], stdout=subprocess.PIPE, stderr=subprocess.STDOUT, text=True)
    line = [l for l in r.stdout.splitlines() if l.startswith("CHECK")]
    results[c] = line[-1][:400] if line else r.stdout[-400:]
    print(results[c][:300])
meta["checks_run"] = {c: ("caught" if "exit=1" in v else "missed" if "exit=0" in v else "inconclusive") for c, v in results.items()}
meta["check_output"] = results
meta["tier"] = tier
dst = os.path.join(verif, "seeded", name)
os.makedirs(dst, exist_ok=True)
shutil.copy(patch, os.path.join(dst, "patch.diff"))
for d in demos:
    shutil.copy(os.path.join(wt, d), os.path.join(dst, os.path.basename(d) + ".txt"))
    meta.setdefault("demo_paths_in_repo", []).append(d)
if os.path.exists(os.path.join(wt, "NOTES.md")):
    shutil.copy(os.path.join(wt, "NOTES.md"), os.path.join(dst, "NOTES.md"))
old = {}
mp = os.path.join(dst, "meta.json")
if os.path.exists(mp):
    old = json.load(open(mp))
old.update(meta)
json.dump(old, open(mp, "w"), indent=1)
print("stored in", dst, "->", meta["checks_run"])

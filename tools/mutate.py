#!/usr/bin/env python3
"""Sensitivity helper: apply one textual mutation (or a patch file) to a scratch
copy of /repo, run a check against it, optionally the repository's own tests,
then delete the copy.  Never touches /repo.

  mutate.py --prop C13 --file internal/plugin/plugin.go --old 'a.Temporary || a.Tentative' --new 'a.Temporary'
  mutate.py --prop C13 --patch /verif/seeded/x/patch.diff [--suite]
"""
import argparse, os, shutil, subprocess, sys, tempfile

ap = argparse.ArgumentParser()
ap.add_argument("--prop", required=True, action="append")
ap.add_argument("--file")
ap.add_argument("--old")
ap.add_argument("--new")
ap.add_argument("--count", type=int, default=1)
ap.add_argument("--patch")
ap.add_argument("--revert", help="commit of /repo to revert in the scratch copy (shows that a fixed defect is detected again)")
ap.add_argument("--suite", action="store_true", help="also run the repository's own test suite on the mutant")
ap.add_argument("--tier", default="quick")
ap.add_argument("--seed", default="1")
a = ap.parse_args()

d = tempfile.mkdtemp(prefix="verif-mut-")
try:
    subprocess.check_call(["rsync", "-a", "--exclude", ".git", "/repo/", d + "/"])
    if a.revert:
        diff = subprocess.check_output(["git", "-C", "/repo", "show", "--format=", a.revert])
        subprocess.run(["patch", "-R", "-p1", "-s"], cwd=d, input=diff, check=True)
    elif a.patch:
        subprocess.check_call(["patch", "-p1", "-s", "-i", os.path.abspath(a.patch)], cwd=d)
    else:
        p = os.path.join(d, a.file)
        s = open(p).read()
        if s.count(a.old) != a.count:
            print("mutation site found %d times, expected %d" % (s.count(a.old), a.count)); sys.exit(3)
        open(p, "w").write(s.replace(a.old, a.new))
    env = dict(os.environ, VERIF_REPO=d, VERIF_SEED=a.seed)
    if a.suite:
        e2 = dict(os.environ, GOFLAGS="-mod=mod", GOPROXY="off", GOSUMDB="off")
        r = subprocess.run(["go", "test", "-vet=off", "-count=1", "-short", "./..."], cwd=d, env=e2,
                           stdout=subprocess.PIPE, stderr=subprocess.STDOUT, text=True)
        bad = [l for l in r.stdout.splitlines() if l.startswith(("FAIL", "--- FAIL", "panic"))]
        print("SUITE:", "green" if r.returncode == 0 else "exit %d %s" % (r.returncode, bad[:6]))
    for prop in a.prop:
        r = subprocess.run([os.path.join(os.path.dirname(os.path.dirname(os.path.abspath(__file__))), "check"), prop, "--tier", a.tier], env=env,
                           stdout=subprocess.PIPE, stderr=subprocess.STDOUT, text=True)
        tail = [l for l in r.stdout.splitlines() if l.strip()]
        print("CHECK %s exit=%d :: %s" % (prop, r.returncode, " | ".join(x[:300] for x in tail[-3:])))
finally:
    shutil.rmtree(d, ignore_errors=True)

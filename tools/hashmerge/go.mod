module verif/hashmerge

go 1.22

// Command hashmerge prints the number of distinct little-endian uint64 values
// in the files given as arguments (the per-shard non-trivial case hashes).
package main

import (
	"encoding/binary"
	"fmt"
	"os"
	"sort"
)

func main() {
	var all []uint64
	for _, p := range os.Args[1:] {
		b, err := os.ReadFile(p)
		if err != nil {
			fmt.Fprintln(os.Stderr, err)
			os.Exit(2)
		}
		for i := 0; i+8 <= len(b); i += 8 {
			all = append(all, binary.LittleEndian.Uint64(b[i:]))
		}
	}
	sort.Slice(all, func(i, j int) bool { return all[i] < all[j] })
	n := 0
	for i, v := range all {
		if i == 0 || v != all[i-1] {
			n++
		}
	}
	fmt.Println(n)
}

#!/usr/bin/env python3
"""Prepare one round of independently written breaking changes: for every listed
property a scratch git worktree of /repo (/tmp/seed-<id>-<letter>) and a prompt
file (/tmp/seedprompts/<id>.md) made of tools/seed_task_template.md, the text of
the property and the round's hint.  The sub-agents see nothing of /verif.

  seed_round.py <letter> "<hint>" C01 C02 ...
"""
import json, os, subprocess, sys
letter, hint, ids = sys.argv[1], sys.argv[2], sys.argv[3:]
here = os.path.dirname(os.path.abspath(__file__))
tmpl = open(os.path.join(here, "seed_task_template.md")).read()
props = {json.loads(l)["id"]: json.loads(l) for l in open(os.path.join(os.path.dirname(here), "properties.jsonl"))}
os.makedirs("/tmp/seedprompts", exist_ok=True)
for i in ids:
    d = "/tmp/seed-%s-%s" % (i, letter)
    subprocess.check_call(["git", "-C", "/repo", "worktree", "add", "--detach", "-q", d, "HEAD"])
    p = props[i]
    text = "**%s**\n\n%s\n\nQuantified over: %s\n\nRelevant files: %s" % (
        p["title"], p["statement"], p["quantifier"]["text"], ", ".join(p["anchors"]["files"]))
    open("/tmp/seedprompts/%s.md" % i, "w").write(tmpl.replace("{dir}", d).replace("{prop}", text).replace("{hint}", hint))
    print(d)

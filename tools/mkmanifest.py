#!/usr/bin/env python3
"""Regenerate /verif/MANIFEST.json from props.py (single source of truth)."""
import json
import os
import sys

VERIF = os.path.dirname(os.path.dirname(os.path.abspath(__file__)))
sys.path.insert(0, VERIF)
from props import PROPS, NOT_APPLICABLE  # noqa: E402

ALL = [json.loads(l)["id"] for l in open(os.path.join(VERIF, "properties.jsonl")) if l.strip()]

checks = []
for pid in ALL:
    if pid not in PROPS:
        continue
    c = PROPS[pid]
    checks.append({
        "property_id": pid,
        "quick_cmd": "./check %s --tier quick" % pid,
        "thorough_cmd": "./check %s --tier thorough" % pid,
        "evidence_file": "/verif/evidence/%s.json" % pid,
        "replay_cmd_template": "./check %s --replay {path}" % pid,
        "engine": "rapid+enumeration" + ("+synctest" if c.get("bubble") else ""),
        "level_claimed": {
            "category": c["level"],
            "text": c["level_text"],
            "design_ref": c.get("design_ref", "DESIGN.md section 3, " + pid),
        },
        "level_note": c["level_note"],
        "technique": c["technique"],
    })

na = [{"property_id": pid, "reason": NOT_APPLICABLE.get(pid, "check not built yet in this commit (work in progress, see DESIGN.md section 8)")}
      for pid in ALL if pid not in PROPS]

m = {
    "version": 1,
    "setup_cmd": "./check --warm",
    "hooks": {
        "guard": "verif",
        "enable": "none needed: checks build a staged copy of /repo's working tree with in-package harness files (go1.26.8 test -tags verif); no hook commits exist in /repo",
        "baseline_off_cmd": "cd /repo && go test -vet=off -count=1 -timeout 25m ./...",
        "source_commits": [],
        "add_only": True,
    },
    "engines": [
        {"name": "check", "path": "/verif/check", "serves_properties": sorted(PROPS),
         "kind_free_text": "python driver: stage /repo, inject harness, build with go1.26.8, shard pgregory.net/rapid v1.3.0 + bounded enumeration (+ testing/synctest virtual time), merge evidence"},
    ],
    "checks": checks,
    "not_applicable": na,
    "notes": "Exit 2 from a check means inconclusive (build failure, time-out, worker death), never a verdict. Known findings: /verif/known_findings.json.",
}
json.dump(m, open(os.path.join(VERIF, "MANIFEST.json"), "w"), indent=1)
print("MANIFEST.json: %d checks, %d not claimed" % (len(checks), len(na)))

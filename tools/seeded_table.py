#!/usr/bin/env python3
"""Print the markdown table of /verif/seeded/*/meta.json (DESIGN.md section 10c)."""
import glob, json, os, re
rows = []
for mp in sorted(glob.glob(os.path.join(os.path.dirname(os.path.dirname(os.path.abspath(__file__))), "seeded", "*", "meta.json"))):
    m = json.load(open(mp))
    name = os.path.basename(os.path.dirname(mp))
    notes = os.path.join(os.path.dirname(mp), "NOTES.md")
    needs = m.get("needs", "")
    checks = ", ".join("%s: %s" % (k, v) for k, v in sorted(m.get("checks_run", {}).items()))
    hist = "missed at first, strengthened" if m.get("history", "").startswith("initially MISSED") else "caught at once"
    rows.append("| %s | %s | %s | %s | %s |" % (name, m["property"], ", ".join(m.get("files_changed", [])), checks, hist))
print("| seeded change | property | files | quick checks (now) | history |")
print("|---|---|---|---|---|")
print("\n".join(rows))

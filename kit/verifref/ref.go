// Package verifref holds the reference models (oracles) shared by several
// harnesses. They are written from the property statements and
// reference.toml, never by calling the code under test. The package is copied
// into the staged module as internal/verifref; it may import internal/system
// and ndp only (the harnesses that use it live in config, plugin, corerad,
// crhttp).
package verifref

import (
	"net/netip"
	"sort"
	"time"

	"github.com/mdlayher/corerad/internal/system"
)

// ExpandPrefixes is the C13 specification of the ::/64 wildcard: the distinct
// /64 networks of the IPv6 addresses that are not link-local, temporary or
// tentative, in ascending address order.
func ExpandPrefixes(addrs []system.IP) []netip.Prefix {
	set := map[netip.Prefix]bool{}
	for _, a := range addrs {
		ip := a.Address.Addr()
		if !ip.Is6() || ip.Is4In6() {
			continue
		}
		if ip.IsLinkLocalUnicast() || a.Address.Bits() != 64 || a.Temporary || a.Tentative {
			continue
		}
		set[netip.PrefixFrom(ip, 64).Masked()] = true
	}
	out := make([]netip.Prefix, 0, len(set))
	for p := range set {
		out = append(out, p)
	}
	sort.Slice(out, func(i, j int) bool { return out[i].Addr().Less(out[j].Addr()) })
	return out
}

// Stable reports the documented stability of an address: any of the three
// stability flags, or an EUI-64 interface identifier (ff:fe in the middle).
func Stable(a system.IP) bool {
	b := a.Address.Addr().As16()
	return a.ValidForever || a.ManageTemporaryAddresses || a.StablePrivacy || (b[11] == 0xff && b[12] == 0xfe)
}

// ClassRank orders address classes: unique-local, global unicast, link-local.
func ClassRank(ip netip.Addr) int {
	b := ip.As16()
	switch {
	case b[0]&0xfe == 0xfc:
		return 0
	case b[0] == 0xfe && b[1]&0xc0 == 0x80:
		return 2
	default:
		return 1
	}
}

// BestRDNSS is the C14 specification of the :: wildcard: among the IPv6
// addresses that are not deprecated, temporary or tentative the minimum of
// (not stable, class rank, address). ok is false if none is eligible.
func BestRDNSS(addrs []system.IP) (best netip.Addr, ok bool) {
	type key struct {
		unstable int
		rank     int
		ip       netip.Addr
	}
	less := func(a, b key) bool {
		if a.unstable != b.unstable {
			return a.unstable < b.unstable
		}
		if a.rank != b.rank {
			return a.rank < b.rank
		}
		return a.ip.Less(b.ip)
	}
	var bk key
	for _, a := range addrs {
		ip := a.Address.Addr()
		if !ip.Is6() || ip.Is4In6() || a.Deprecated || a.Temporary || a.Tentative {
			continue
		}
		k := key{1, ClassRank(ip), ip}
		if Stable(a) {
			k.unstable = 0
		}
		if !ok || less(k, bk) {
			bk, ok = k, true
		}
	}
	return bk.ip, ok
}

// ExpandRoutes is the C15 specification of the ::/0 wildcard: the IPv6 routes
// that are not /128 and not contained in a different, shorter route of the
// dump, each once, ascending.
func ExpandRoutes(routes []system.Route) []netip.Prefix {
	var v6 []netip.Prefix
	for _, r := range routes {
		if r.Prefix.IsValid() && r.Prefix.Addr().Is6() && !r.Prefix.Addr().Is4In6() {
			v6 = append(v6, r.Prefix)
		}
	}
	set := map[netip.Prefix]bool{}
	for _, r := range v6 {
		if r.Bits() == 128 {
			continue
		}
		covered := false
		for _, q := range v6 {
			if q != r && q.Bits() < r.Bits() && q.Contains(r.Addr()) {
				covered = true
				break
			}
		}
		if !covered {
			set[r] = true
		}
	}
	out := make([]netip.Prefix, 0, len(set))
	for p := range set {
		out = append(out, p)
	}
	sort.Slice(out, func(i, j int) bool {
		if c := out[i].Addr().Compare(out[j].Addr()); c != 0 {
			return c < 0
		}
		return out[i].Bits() < out[j].Bits()
	})
	return out
}

// Remaining is the C16 formula: time left until epoch+life, clamped at zero.
func Remaining(epoch time.Time, life time.Duration, now time.Time) time.Duration {
	deadline := epoch.Add(life)
	if !now.Before(deadline) {
		return 0
	}
	return deadline.Sub(now)
}

// PREF64Lifetime is 3 x MaxRtrAdvInterval rounded up to a multiple of 8 s and
// capped at 65528 s, computed on exact nanoseconds.
func PREF64Lifetime(maxInterval time.Duration) time.Duration {
	const unit = 8 * time.Second
	const cap = 8191 * unit
	l := 3 * maxInterval
	if r := l % unit; r != 0 {
		l += unit - r
	}
	if l > cap {
		l = cap
	}
	return l
}

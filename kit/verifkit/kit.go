// Package verifkit is the shared plumbing of the /verif property harnesses.
// It is copied into the staged module as internal/verifkit and therefore may
// not import any corerad package (the harnesses are in-package tests).
package verifkit

import (
	"encoding/binary"
	"encoding/json"
	"flag"
	"fmt"
	"hash/fnv"
	"os"
	"path/filepath"
	"runtime/debug"
	"sort"
	"strconv"
	"strings"
	"sync"
	"testing"
	"time"

	"pgregory.net/rapid"
)

// A Violation is an oracle verdict: the property does not hold for a case.
type Violation struct {
	Sub  string // sub-check that found it
	Sig  string // root-cause signature, stable across inputs
	Msg  string
	Case json.RawMessage
}

func (v *Violation) Error() string { return fmt.Sprintf("[%s] %s: %s", v.Sub, v.Sig, v.Msg) }

// Violf builds a violation error; sig must not depend on generated values.
func Violf(sig, format string, a ...any) error {
	return &Violation{Sig: sig, Msg: fmt.Sprintf(format, a...)}
}

// Kit collects coverage counters, samples and failures for one test process.
type Kit struct {
	ID      string
	Tier    string
	Seed    int64
	Shard   int
	NShards int

	out, replayDir, regressDir, replayFile, journal string

	mu          sync.Mutex
	start       time.Time
	evals       int64
	nontrivial  int64
	hashes      map[uint64]struct{}
	bulkNT      int64
	classes     map[string]int64
	samples     []json.RawMessage
	nextSample  int64
	parts       []Part
	skipped     []string
	unspecified int64
	violations  []string
	known       map[string]string
	knownHits   map[string]int64
	notes       map[string]any
	finished    bool

	// WholeProcess is set by the whole-process harness (harness/e2e): saved cases
	// whose sub-check name starts with "whole-process" belong to it and to no other
	// part of the same property.
	WholeProcess bool

	// Special names the family of sub-checks this part owns exclusively ("real-clock", "concurrent-scrapes"; ""
	// for an ordinary part): a saved case is replayed by the part whose family its sub-check name starts with.
	Special string
}

var specialSubs = []string{"whole-process", "real-clock", "concurrent-scrapes"}

func specialOf(sub string) string {
	for _, p := range specialSubs {
		if strings.HasPrefix(sub, p) {
			return p
		}
	}
	return ""
}

// A Part describes one sub-check of a run.
type Part struct {
	Name       string `json:"name"`
	Kind       string `json:"kind"` // enumeration | rapid | regress | fuzz
	Requested  int64  `json:"requested"`
	Done       int64  `json:"done"`
	Exhaustive bool   `json:"exhaustive"`
	Complete   bool   `json:"complete"`
}

func envInt(name string, def int64) int64 {
	if s := os.Getenv(name); s != "" {
		if v, err := strconv.ParseInt(s, 10, 64); err == nil {
			return v
		}
	}
	return def
}

// Start creates the Kit for property id from the environment set by /verif/check.
func Start(t *testing.T, id string) *Kit {
	k := &Kit{
		ID:         id,
		Tier:       os.Getenv("VERIF_TIER"),
		Seed:       envInt("VERIF_SEED", 1),
		Shard:      int(envInt("VERIF_SHARD", 0)),
		NShards:    int(envInt("VERIF_NSHARDS", 1)),
		out:        os.Getenv("VERIF_OUT"),
		replayDir:  os.Getenv("VERIF_REPLAY_DIR"),
		regressDir: os.Getenv("VERIF_REGRESS_DIR"),
		replayFile: os.Getenv("VERIF_REPLAY"),
		journal:    os.Getenv("VERIF_JOURNAL"),
		start:      time.Now(),
		hashes:     map[uint64]struct{}{},
		classes:    map[string]int64{},
		known:      map[string]string{},
		knownHits:  map[string]int64{},
		notes:      map[string]any{},
		nextSample: 1,
	}
	if k.Tier == "" {
		k.Tier = "quick"
	}
	if k.NShards < 1 {
		k.NShards = 1
	}
	if p := os.Getenv("VERIF_KNOWN"); p != "" {
		k.loadKnown(p)
	}
	t.Cleanup(k.Finish)
	return k
}

type knownFile struct {
	Known []struct {
		Property  string `json:"property"`
		Signature string `json:"signature"`
		What      string `json:"what"`
	} `json:"known"`
}

func (k *Kit) loadKnown(p string) {
	b, err := os.ReadFile(p)
	if err != nil {
		return
	}
	var kf knownFile
	if json.Unmarshal(b, &kf) != nil {
		return
	}
	for _, e := range kf.Known {
		if e.Property == k.ID {
			k.known[e.Signature] = e.What
		}
	}
}

// Thorough reports whether the thorough tier was requested.
func (k *Kit) Thorough() bool { return k.Tier == "thorough" }

// ReplayOnly reports whether this process only replays one saved case.
func (k *Kit) ReplayOnly() bool { return k.replayFile != "" }

// N picks a per-tier count and divides it among shards (at least 1).
func (k *Kit) N(quick, thorough int) int {
	n := quick
	if k.Thorough() {
		n = thorough
	}
	if s := os.Getenv("VERIF_SCALE"); s != "" {
		if f, err := strconv.ParseFloat(s, 64); err == nil && f > 0 {
			n = int(float64(n) * f)
		}
	}
	n = (n + k.NShards - 1) / k.NShards
	if n < 1 {
		n = 1
	}
	return n
}

// Mine reports whether enumeration index i belongs to this shard.
func (k *Kit) Mine(i int64) bool { return int(i%int64(k.NShards)) == k.Shard }

func canon(c any) []byte {
	b, err := json.Marshal(c)
	if err != nil {
		panic(fmt.Sprintf("verifkit: case not serialisable: %v", err))
	}
	return b
}

// Record counts one evaluated case. Non-trivial cases are hashed for the
// distinct count; classes feed the class histogram.
func (k *Kit) Record(c any, nontrivial bool, classes ...string) {
	k.mu.Lock()
	defer k.mu.Unlock()
	k.evals++
	for _, cl := range classes {
		k.classes[cl]++
	}
	if !nontrivial {
		return
	}
	k.nontrivial++
	b := canon(c)
	h := fnv.New64a()
	h.Write(b)
	k.hashes[h.Sum64()] = struct{}{}
	if k.nontrivial == k.nextSample && len(k.samples) < 8 {
		k.samples = append(k.samples, json.RawMessage(b))
		k.nextSample *= 7
	}
}

// RecordBulk counts n enumerated evaluations of which nt are non-trivial and
// distinct by construction (distinct enumeration indices); used where hashing
// tens of millions of cases individually would dominate the run.
func (k *Kit) RecordBulk(n, nt int64, class string) {
	k.mu.Lock()
	defer k.mu.Unlock()
	k.evals += n
	k.bulkNT += nt
	if class != "" {
		k.classes[class] += n
	}
}

// Sample stores an explicit sample (used by bulk enumerations).
func (k *Kit) Sample(c any) {
	k.mu.Lock()
	defer k.mu.Unlock()
	if len(k.samples) < 12 {
		k.samples = append(k.samples, json.RawMessage(canon(c)))
	}
}

// Class bumps a class counter without counting an evaluation.
func (k *Kit) Class(cl string) {
	k.mu.Lock()
	k.classes[cl]++
	k.mu.Unlock()
}

// Unspecified counts a case (or aspect) the oracle declines to judge.
func (k *Kit) Unspecified(what string) {
	k.mu.Lock()
	k.unspecified++
	k.classes["unspecified:"+what]++
	k.mu.Unlock()
}

// Skip records a sub-check that could not run (never a violation).
func (k *Kit) Skip(what string) {
	k.mu.Lock()
	k.skipped = append(k.skipped, what)
	k.mu.Unlock()
}

// Note attaches a free-form value to the evidence fragment.
func (k *Kit) Note(key string, v any) {
	k.mu.Lock()
	k.notes[key] = v
	k.mu.Unlock()
}

// Journal writes the case about to be executed, so that a process crash in a
// background goroutine still leaves a replayable input behind.
func (k *Kit) Journal(sub string, c any) {
	if k.journal == "" {
		return
	}
	b, _ := json.Marshal(replayDoc{Property: k.ID, Sub: sub, Case: canon(c), Signature: "process-crash"})
	_ = os.WriteFile(k.journal, b, 0o644)
}

type replayDoc struct {
	Property  string          `json:"property"`
	Sub       string          `json:"sub"`
	Signature string          `json:"signature"`
	Message   string          `json:"message"`
	Case      json.RawMessage `json:"case"`
}

// Judge turns an oracle error into the run's verdict for one case: nil and
// known-finding signatures pass (the latter are counted and excluded), any
// other error is saved as a replay file and returned.
func (k *Kit) Judge(sub string, c any, err error) error {
	if err == nil {
		return nil
	}
	v, ok := err.(*Violation)
	if !ok {
		v = &Violation{Sig: "error", Msg: err.Error()}
	}
	v.Sub = sub
	k.mu.Lock()
	defer k.mu.Unlock()
	if what, ok := k.known[v.Sig]; ok {
		if k.knownHits[v.Sig] == 0 {
			fmt.Printf("KNOWN-FINDING: property=%s %s (%s)\n", k.ID, what, v.Sig)
		}
		k.knownHits[v.Sig]++
		return nil
	}
	v.Case = canon(c)
	k.saveReplayLocked(v)
	return v
}

func (k *Kit) saveReplayLocked(v *Violation) {
	if k.replayDir == "" {
		return
	}
	name := fmt.Sprintf("%s-%s-s%d.json", k.ID, sanitize(v.Sub), k.Shard)
	p := filepath.Join(k.replayDir, name)
	b, _ := json.MarshalIndent(replayDoc{Property: k.ID, Sub: v.Sub, Signature: v.Sig, Message: v.Msg, Case: v.Case}, "", " ")
	if err := os.WriteFile(p, b, 0o644); err == nil {
		found := false
		for _, q := range k.violations {
			if q == p {
				found = true
			}
		}
		if !found {
			k.violations = append(k.violations, p)
		}
	}
}

func sanitize(s string) string {
	return strings.Map(func(r rune) rune {
		if r >= 'a' && r <= 'z' || r >= 'A' && r <= 'Z' || r >= '0' && r <= '9' || r == '_' {
			return r
		}
		return '_'
	}, s)
}

// Guard runs fn and converts a panic into a violation with signature
// "panic:<sub>" (the code under test must not panic on generated inputs; a
// harness bug shows up the same way and is then fixed in the harness).
func Guard(fn func() error) (err error) {
	defer func() {
		if r := recover(); r != nil {
			st := string(debug.Stack())
			if len(st) > 3000 {
				st = st[:3000]
			}
			err = &Violation{Sig: "panic", Msg: fmt.Sprintf("panic: %v\n%s", r, st)}
		}
	}()
	return fn()
}

// Dispatch decodes a saved case for sub-check sub and runs it.
type Dispatch func(sub string, raw json.RawMessage) error

// Regress replays the committed regression cases (shard 0 only) and, in
// replay mode, the single requested file. A failing case is a violation.
func (k *Kit) Regress(t *testing.T, d Dispatch) {
	var files []string
	if k.replayFile != "" {
		files = []string{k.replayFile}
	} else if k.regressDir != "" && k.Shard == 0 {
		m, _ := filepath.Glob(filepath.Join(k.regressDir, "*.json"))
		sort.Strings(m)
		files = m
	}
	part := Part{Name: "regress", Kind: "regress", Requested: int64(len(files)), Complete: true}
	for _, f := range files {
		b, err := os.ReadFile(f)
		if err != nil {
			t.Fatalf("verifkit: cannot read %s: %v", f, err)
		}
		var doc replayDoc
		if err := json.Unmarshal(b, &doc); err != nil {
			t.Fatalf("verifkit: bad replay file %s: %v", f, err)
		}
		if doc.Property != k.ID {
			t.Fatalf("verifkit: %s belongs to %s, not %s", f, doc.Property, k.ID)
		}
		sub := doc.Sub
		mine := k.Special
		if k.WholeProcess {
			mine = "whole-process"
		}
		if specialOf(sub) != mine {
			continue // a case of another part of this property
		}
		err = Guard(func() error { return d(sub, doc.Case) })
		part.Done++
		if err != nil {
			if jerr := k.Judge(sub, doc.Case, err); jerr != nil {
				k.mu.Lock()
				k.parts = append(k.parts, part)
				k.mu.Unlock()
				t.Fatalf("regression case %s fails: %v", filepath.Base(f), jerr)
			}
		}
	}
	k.mu.Lock()
	k.parts = append(k.parts, part)
	k.mu.Unlock()
}

// Decode is a helper for Dispatch implementations.
func Decode[C any](raw json.RawMessage, run func(C) error) error {
	var c C
	if err := json.Unmarshal(raw, &c); err != nil {
		return fmt.Errorf("verifkit: cannot decode case: %v", err)
	}
	return run(c)
}

func subSeed(seed int64, shard int, sub string) uint64 {
	h := fnv.New64a()
	h.Write([]byte(sub))
	v := (uint64(seed)*1000003 + uint64(shard)*7919 + h.Sum64()%1000) % (1 << 31)
	return v + 1 // never 0: rapid treats 0 as "random"
}

// Rapid runs n generated cases of sub-check sub: gen draws a plain-data case,
// prop is the pure property function shared with enumeration and replay.
func Rapid[C any](k *Kit, t *testing.T, sub string, n int, gen func(*rapid.T) C, prop func(C) error) {
	if k.ReplayOnly() {
		return
	}
	_ = flag.Set("rapid.checks", strconv.Itoa(n))
	_ = flag.Set("rapid.seed", strconv.FormatUint(subSeed(k.Seed, k.Shard, sub), 10))
	_ = flag.Set("rapid.nofailfile", "true")
	part := Part{Name: sub, Kind: "rapid", Requested: int64(n)}
	var done int64
	defer func() {
		part.Done = done
		part.Complete = done >= int64(n)
		k.mu.Lock()
		k.parts = append(k.parts, part)
		k.mu.Unlock()
	}()
	rapid.Check(t, func(rt *rapid.T) {
		c := gen(rt)
		k.Journal(sub, c)
		err := Guard(func() error { return prop(c) })
		done++
		if jerr := k.Judge(sub, c, err); jerr != nil {
			rt.Fatalf("%v", jerr)
		}
	})
}

// Enumerate runs prop over every case produced by each (sharded by index when
// shard is true). It stops at the first violation.
func Enumerate[C any](k *Kit, t *testing.T, sub string, exhaustive bool, each func(yield func(C) bool), prop func(C) error) {
	if k.ReplayOnly() {
		return
	}
	part := Part{Name: sub, Kind: "enumeration", Exhaustive: exhaustive}
	var idx int64
	var failed error
	each(func(c C) bool {
		i := idx
		idx++
		if !k.Mine(i) {
			return true
		}
		part.Done++
		k.Journal(sub, c)
		err := Guard(func() error { return prop(c) })
		if jerr := k.Judge(sub, c, err); jerr != nil {
			failed = jerr
			return false
		}
		return true
	})
	part.Requested = part.Done
	part.Complete = failed == nil
	k.mu.Lock()
	k.parts = append(k.parts, part)
	k.mu.Unlock()
	if failed != nil {
		t.Fatalf("%v", failed)
	}
}

// AddPart registers a sub-check accounted for by the harness itself.
func (k *Kit) AddPart(p Part) {
	k.mu.Lock()
	k.parts = append(k.parts, p)
	k.mu.Unlock()
}

type fragment struct {
	Property    string            `json:"property"`
	Tier        string            `json:"tier"`
	Seed        int64             `json:"seed"`
	Shard       int               `json:"shard"`
	NShards     int               `json:"nshards"`
	Evaluations int64             `json:"evaluations"`
	Nontrivial  int64             `json:"nontrivial"`
	BulkNT      int64             `json:"bulk_distinct_nontrivial"`
	HashCount   int               `json:"hash_count"`
	Classes     map[string]int64  `json:"classes"`
	Samples     []json.RawMessage `json:"samples"`
	Parts       []Part            `json:"parts"`
	Skipped     []string          `json:"skipped"`
	Unspecified int64             `json:"unspecified"`
	Violations  []string          `json:"violations"`
	KnownHits   map[string]int64  `json:"known_hits"`
	Notes       map[string]any    `json:"notes"`
	WallS       float64           `json:"wall_s"`
}

// Finish writes the evidence fragment (and the hash set) for the driver.
func (k *Kit) Finish() {
	k.mu.Lock()
	defer k.mu.Unlock()
	if k.finished || k.out == "" {
		return
	}
	k.finished = true
	fr := fragment{
		Property: k.ID, Tier: k.Tier, Seed: k.Seed, Shard: k.Shard, NShards: k.NShards,
		Evaluations: k.evals, Nontrivial: k.nontrivial, BulkNT: k.bulkNT, HashCount: len(k.hashes),
		Classes: k.classes, Samples: k.samples, Parts: k.parts, Skipped: k.skipped,
		Unspecified: k.unspecified, Violations: k.violations, KnownHits: k.knownHits,
		Notes: k.notes, WallS: time.Since(k.start).Seconds(),
	}
	b, _ := json.Marshal(fr)
	_ = os.WriteFile(k.out, b, 0o644)
	hs := make([]uint64, 0, len(k.hashes))
	for h := range k.hashes {
		hs = append(hs, h)
	}
	sort.Slice(hs, func(i, j int) bool { return hs[i] < hs[j] })
	buf := make([]byte, 8*len(hs))
	for i, h := range hs {
		binary.LittleEndian.PutUint64(buf[8*i:], h)
	}
	_ = os.WriteFile(k.out+".hashes", buf, 0o644)
}
